#!/bin/sh
# convenience: run every check of a tier, print one line per check
tier=${1:-quick}
cd "$(dirname "$0")"
for i in 01 02 03 04 05 06 07 08 09 10 11 12 13 14 15 16 17 18 19 20; do
  out=$(./check C$i $tier 2>&1); rc=$?
  echo "C$i rc=$rc $(echo "$out" | tail -1)"
  echo "$out" | grep -E "^(VIOLATION|INCONCLUSIVE)" || true
done
