#!/bin/sh
# Offline setup: put icontract (runtime contracts) beside the repository's own
# interpreter, into the git-ignored /verif/.deps.  Idempotent.
set -e
here="$(cd "$(dirname "$0")" && pwd)"
if [ ! -d "$here/.deps/icontract" ]; then
    PIP_NO_INDEX=1 /venv/bin/python -m pip install --quiet --no-index \
        --find-links /opt/veriftools/wheels --target "$here/.deps" icontract \
        >/dev/null 2>&1 || echo "setup: icontract not installable; contracts fall back to plain wrappers" >&2
fi
mkdir -p "$here/evidence" "$here/replays"
exit 0
