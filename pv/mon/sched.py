"""Deterministic line-level thread scheduler (Python 3.12 sys.monitoring).

Real threads run the real library code; a LINE callback, filtered to code
objects whose file lies inside the oslo_policy package and keyed by thread,
counts library line boundaries.  A *plan* is a list of steps

    ['EDIT']               apply the file change (runs in the controller)
    [name, k]              let thread `name` run until its k-th library line boundary (cumulative count)
    [name, None]           let thread `name` run to completion

Hand-over uses binary gates: exactly one thread runs at a time, so a plan replays
bit-for-bit and the monitors' own logs need no locking.  Threads that are not
mentioned any more are run to completion at the end, in name order.

Locks are scheduling points.  `patch_locks()` (called by pv.core.env.setup before the library is imported) replaces
threading.Lock / threading.RLock by drop-in classes whose *blocking* acquire, when called by a scheduled thread and the
lock is taken, hands control back to the controller instead of blocking for good: the controller lets the other thread
advance one library line boundary at a time until the lock is free, then retries.  A tree that serialises reloads with a
lock is therefore explored (the waiting thread simply waits, as it would in reality) instead of hanging the scheduler."""
import _thread
import sys
import threading

from pv.core import env

TOOL = 3
_state = {'active': None, 'installed': False, 'pkg': None, 'locks_patched': False}


class _Gate:
    """Binary hand-off built on a raw lock (never on the patched classes)."""

    def __init__(self):
        self._l = _thread.allocate_lock()
        self._l.acquire()

    def release(self):
        self._l.release()

    def acquire(self, timeout=None):
        return self._l.acquire(True, -1 if timeout is None else timeout)


class CoopLock:
    """threading.Lock whose blocking acquire is a scheduling point for threads run by the scheduler."""

    def __init__(self):
        self._l = _thread.allocate_lock()

    def acquire(self, blocking=True, timeout=-1):
        s = _state['active']
        if s is not None and blocking:
            n = s.ids.get(_thread.get_ident())
            if n is not None:
                while not self._l.acquire(False):
                    s.yield_blocked(n)
                return True
        return self._l.acquire(blocking, timeout)

    __enter__ = acquire

    def release(self):
        self._l.release()

    def __exit__(self, *a):
        self._l.release()

    def locked(self):
        return self._l.locked()

    def _at_fork_reinit(self):
        self._l._at_fork_reinit()

    def __repr__(self):
        return '<CoopLock %s>' % ('locked' if self._l.locked() else 'unlocked')


class CoopRLock(threading._RLock):
    """The pure-Python re-entrant lock of the standard library on top of a CoopLock."""

    def __init__(self):
        super().__init__()
        self._block = CoopLock()


def patch_locks():
    if _state['locks_patched']:
        return
    threading.Lock = CoopLock
    threading.RLock = CoopRLock
    _state['locks_patched'] = True


def _on_line(code, line):
    if not code.co_filename.startswith(_state['pkg']):
        return sys.monitoring.DISABLE
    s = _state['active']
    if s is None:
        return None
    s.on_line(code, line)
    return None


def install():
    """Allocate the tool id once per process and leave LINE events on."""
    if _state['installed']:
        return
    mon = sys.monitoring
    _state['pkg'] = env.pkg_dir() + '/'
    mon.use_tool_id(TOOL, 'pv-sched')
    mon.register_callback(TOOL, mon.events.LINE, _on_line)
    mon.set_events(TOOL, mon.events.LINE)
    mon.restart_events()
    _state['installed'] = True


def uninstall():
    if not _state['installed']:
        return
    mon = sys.monitoring
    mon.set_events(TOOL, 0)
    mon.register_callback(TOOL, mon.events.LINE, None)
    mon.free_tool_id(TOOL)
    _state['installed'] = False


class Run:
    BLOCK_TIMEOUT = 2.0      # seconds without a sign of life before a thread is presumed to wait for something another holds
    POLL = 0.05

    def __init__(self, funcs, plan, edit, trace_points=False):
        self.funcs = funcs
        self.plan = plan
        self.edit = edit
        self.counts = {n: 0 for n in funcs}
        self.ids = {}
        self.res = {}
        self.go = {n: _Gate() for n in funcs}
        self.back = {n: _Gate() for n in funcs}
        self.blocked = {n: False for n in funcs}          # waits for a patched lock (cooperatively: it gave the turn back)
        self.hard = {n: False for n in funcs}             # presumed to wait inside something we do not see (import lock ...)
        self.lock_waits = 0                               # how often a scheduled thread had to wait for a lock
        self.hard_blocks = 0
        self.stop_at = {n: None for n in funcs}
        self.done = {n: False for n in funcs}
        self.threads = {}
        self.points = {} if trace_points else None       # name -> list of (file:line) at each boundary
        self.stopped_at = {}                              # name -> (file, line) of the last pre-emption

    def _body(self, n):
        self.ids[threading.get_ident()] = n
        self.go[n].acquire()
        try:
            self.res[n] = self.funcs[n]()
        except BaseException as e:          # the funcs catch Exception themselves
            self.res[n] = 'EXC:%s:%s' % (type(e).__name__, str(e)[:60])
        finally:
            self.done[n] = True
            self.ids.pop(threading.get_ident(), None)
            self.back[n].release()

    def on_line(self, code, line):
        n = self.ids.get(threading.get_ident())
        if n is None:
            return
        self.counts[n] += 1
        if self.points is not None:
            self.points.setdefault(n, []).append((code.co_filename[len(_state['pkg']):], line, code.co_name))
        if self.stop_at[n] is not None and self.counts[n] >= self.stop_at[n]:
            self.stop_at[n] = None
            self.stopped_at[n] = (code.co_filename[len(_state['pkg']):], line, code.co_name)
            self.back[n].release()
            self.go[n].acquire()

    def yield_blocked(self, n):
        """Called by scheduled thread n when a lock it wants is taken: give the turn back, marked as waiting."""
        self.blocked[n] = True
        self.lock_waits += 1
        self.back[n].release()
        self.go[n].acquire()
        self.blocked[n] = False

    def _turn(self, n, watchdog):
        """Give thread n the turn and wait until it hands it back.  False: no sign of life for BLOCK_TIMEOUT - the thread is
        presumed to wait inside something invisible to us (e.g. the import lock of a module another thread is importing)."""
        self.go[n].release()
        if self.back[n].acquire(timeout=min(watchdog, self.BLOCK_TIMEOUT)):
            return True
        self.hard[n] = True
        self.hard_blocks += 1
        return False

    def _advance(self, n, k, watchdog):
        """Let thread n run until its k-th boundary (None: to completion).  While n waits for a lock, the other threads
        advance one boundary at a time (in name order) until n can go on."""
        import time
        t0 = time.time()
        self.stop_at[n] = k
        self._turn(n, watchdog)
        spins = 0
        while self.blocked[n] or self.hard[n]:
            if time.time() - t0 > watchdog:
                raise Watchdog('thread %s did not reach its next boundary' % n)
            others = [m for m in sorted(self.funcs) if m != n and not self.done[m] and not self.hard[m]]
            if not others:
                if self.hard[n]:
                    # nobody else can move: n is simply slow (or stuck for good - then the watchdog fires)
                    if self.back[n].acquire(timeout=self.POLL * 10):
                        self.hard[n] = False
                    continue
                raise Watchdog('thread %s waits for a lock nobody will release' % n)
            progressed = False
            for m in others:
                before = self.counts[m]
                self.stop_at[m] = self.counts[m] + 1
                if not self._turn(m, watchdog):
                    raise Watchdog('threads %s and %s both stopped moving' % (n, m))
                if self.done[m] or (self.counts[m] > before and not self.blocked[m]):
                    progressed = True
                self.stop_at[m] = None
                if progressed:
                    break
            spins += 1
            if not progressed or spins > 500000:
                raise Watchdog('deadlock: every thread waits for a lock')
            if self.hard[n]:
                if self.back[n].acquire(timeout=self.POLL):
                    self.hard[n] = False          # n went on by itself and has now handed the turn back
            else:
                self._turn(n, watchdog)

    def run(self, watchdog=60.0):
        install()
        _state['active'] = self
        try:
            for n in self.funcs:
                t = threading.Thread(target=self._body, args=(n,), daemon=True)
                t.start()
                self.threads[n] = t
            for step in self.plan:
                if step[0] == 'EDIT':
                    self.edit()
                    continue
                n, k = step[0], step[1]
                if self.done[n]:
                    continue
                self._advance(n, k, watchdog)
            for n in sorted(self.funcs):
                while not self.done[n]:
                    self._advance(n, None, watchdog)
            for t in self.threads.values():
                t.join(timeout=watchdog)
        finally:
            _state['active'] = None
        return self.res


class Watchdog(Exception):
    pass


def overlap_results(make_a, make_b, limit=80):
    """Two calls that overlap in time: A is pre-empted at each of its library line boundaries, B runs to completion in
    between, A finishes.  `make_a` / `make_b` build fresh zero-argument callables (so that every execution starts from the
    same inputs).  Yields (k, result_a, result_b); k = 0 is the sequential reference A; B."""
    r = Run({'A': make_a(), 'B': make_b()}, [['A', None], ['B', None]], lambda: None)
    res = r.run()
    yield 0, res.get('A'), res.get('B')
    n = min(r.counts['A'], limit)
    for k in range(1, n + 1):
        r = Run({'A': make_a(), 'B': make_b()}, [['A', k], ['B', None], ['A', None]], lambda: None)
        res = r.run()
        yield k, res.get('A'), res.get('B')
