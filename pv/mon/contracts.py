"""Runtime contracts attached to the real functions from the harness.

icontract post-conditions with *named* condition functions; the conditions
record a failure event and return True, so that a broken contract never alters
the execution it observes (the property checks collect the events after each
case).  Every evaluation is counted: zero evaluations means the monitor was
bypassed and the evidence shows it.  If icontract is not importable the same
conditions are attached with a plain wrapper.
"""
import collections
import functools

try:
    import icontract
except Exception:          # pragma: no cover - setup.sh normally provides it
    icontract = None

EVALS = collections.Counter()
EVENTS = []          # (contract name, info)
_installed = {}


class ContractBroken(Exception):
    pass


def drain():
    out = list(EVENTS)
    del EVENTS[:]
    return out


def _post(func, cond_name, cond):
    """Attach `cond(result, *args, **kwargs) -> ok` as a post-condition."""
    if icontract is not None:
        def condition(result, _ARGS, _KWARGS):
            EVALS[cond_name] += 1
            try:
                ok = cond(result, *_ARGS, **_KWARGS)
            except Exception as e:       # a monitor bug must not look like a violation
                EVALS[cond_name + '.monitor_error'] += 1
                ok = True
            if not ok:
                EVENTS.append((cond_name, repr(result)[:200]))
            return True
        return icontract.ensure(condition, error=ContractBroken)(func)

    @functools.wraps(func)
    def wrapper(*a, **kw):
        result = func(*a, **kw)
        EVALS[cond_name] += 1
        try:
            ok = cond(result, *a, **kw)
        except Exception:
            EVALS[cond_name + '.monitor_error'] += 1
            ok = True
        if not ok:
            EVENTS.append((cond_name, repr(result)[:200]))
        return result
    return wrapper


def _set(owner, name, new):
    key = (owner, name)
    if key not in _installed:
        _installed[key] = owner.__dict__[name] if isinstance(owner, type) else getattr(owner, name)
    setattr(owner, name, new)


def _optional(fn):
    """A contract attaches to an internal function; if a refactoring removed or renamed that function the contract is
    simply unavailable (recorded in the evaluation counters) - it must never turn into an alarm or a crash."""
    @functools.wraps(fn)
    def wrapper():
        try:
            fn()
        except (KeyError, AttributeError, ImportError):
            EVALS[fn.__name__ + '.unavailable'] += 1
    return wrapper


def uninstall_all():
    for (owner, name), old in _installed.items():
        setattr(owner, name, old)
    _installed.clear()


# ---------------------------------------------------------------------------
@_optional
def parse_rule_returns_check():
    """C02: whatever is loaded, parse_rule yields something enforcement can call."""
    from oslo_policy import _checks, _parser

    def result_is_check(result, *a, **kw):
        return isinstance(result, _checks.BaseCheck)
    _set(_parser, 'parse_rule', _post(_parser.parse_rule, 'parse_rule.returns_check', result_is_check))


@_optional
def parse_state_stacks_parallel():
    """C01: the two shift-reduce stacks stay parallel after every shift."""
    from oslo_policy import _parser

    def stacks_parallel(result, self, *a, **kw):
        return len(self.tokens) == len(self.values)
    _set(_parser.ParseState, 'shift',
         _post(_parser.ParseState.__dict__['shift'], 'ParseState.stacks_parallel', stacks_parallel))


@_optional
def enforce_do_raise_truthy():
    """C07: with do_raise on, enforce never *returns* a falsy value."""
    from oslo_policy import policy

    def truthy_under_do_raise(result, self, rule, target, creds, do_raise=False, *a, **kw):
        return bool(result) or not do_raise
    _set(policy.Enforcer, 'enforce',
         _post(policy.Enforcer.__dict__['enforce'], 'enforce.do_raise_truthy', truthy_under_do_raise))


@_optional
def missing_never_none():
    """C03: the missing-key hook either raises KeyError or returns a check."""
    from oslo_policy import policy

    def not_none(result, *a, **kw):
        return result is not None
    _set(policy.Rules, '__missing__',
         _post(policy.Rules.__dict__['__missing__'], 'Rules.__missing__.not_none', not_none))


@_optional
def load_rules_keeps_defaults():
    """C10/C12: after a load from configuration every registered default name
    is present in the rule store."""
    from oslo_policy import policy

    def defaults_present(result, self, *a, **kw):
        if not self.use_conf:
            return True
        return all(n in self.rules for n in self.registered_rules)
    _set(policy.Enforcer, 'load_rules',
         _post(policy.Enforcer.__dict__['load_rules'], 'load_rules.defaults_present', defaults_present))
