"""Strata `first-use` (C01, C02, C15): driver executed in a FRESH interpreter.

The very first thing this process does with the library is to let two threads parse (and print, and decide) one rule
each at the same time: thread A is pre-empted at its k-th library line boundary, thread B runs to completion (or up to
its j-th boundary), A finishes.  Whatever the library sets up lazily on first use (the scan for check kinds provided by
plugins, module-level tables ...) happens inside these two calls and nowhere else, so each schedule needs its own process.

    python -m pv.mon.firstuse <k> <j> <pair index | JSON [rule A, rule B]>        prints one JSON object

k = 0: A and B one after the other (the reference; it also reports which boundaries of A exist on first use only).
j = 0: B runs to completion while A waits.

`schedules()` is the parent-side helper: reference process, then the systematic and sampled schedules."""
import json
import sys
from unittest import mock

PAIRS = [
    # (rule parsed by A, rule parsed by B): leaves of kinds that are resolved through the registry of check kinds
    ('http://h/yes and role:a', 'not https://h/no and role:b'),
    ('https://h/sec or role:c', 'http://h/yes'),
    ('role:a or http://h/no', [['https://h/sec', 'role:b'], ['role:c']]),
    ([['http://h/yes'], ['role:a', 'role:b']], 'not http://h/yes and role:a'),
    ('rule:x and not https://h/no', 'role:a and (http://h/yes or project_id:%(project_id)s)'),
    ('project_id:%(project_id)s', 'https://h/no or role:b'),
]


class _Reply:
    def __init__(self, text):
        self.text = text

    def close(self):
        pass


def fake_post(url, **kw):
    # the answer depends on path AND scheme (see pv/props/c15.py)
    scheme, path = url.split('://', 1)[0].lower(), url.split('?')[0]
    return _Reply('True' if (scheme == 'http' and path.endswith('/yes')) or (scheme == 'https' and path.endswith('/sec')) else 'False')


ROLESETS = ([], ['a'], ['b'], ['a', 'b'], ['c'], ['a', 'c'], ['b', 'c'], ['a', 'b', 'c'])
WORLDS = [({'roles': r, 'project_id': 'p0'}, {'project_id': p}) for r in ROLESETS for p in ('p0', 'p1')]


def main(argv):
    k, j = int(argv[0]), int(argv[1])
    pair = argv[2]
    from pv.core import env
    env.setup()
    from pv.mon import sched
    sched.Run.BLOCK_TIMEOUT = 0.5       # this process runs nothing but the two calls: half a second of silence means blocked
    from oslo_policy import policy
    enf = policy.Enforcer(env.fresh_conf(), use_conf=False)
    enf.set_rules({})           # no rule text has been parsed yet
    texts = json.loads(pair) if pair.startswith('[') else PAIRS[int(pair) % len(PAIRS)]
    parsed = {}

    def decide(check):
        out = []
        for creds, target in WORLDS:
            try:
                out.append(bool(check(dict(target), dict(creds, roles=list(creds['roles'])), enf)))
            except Exception as e:
                out.append('EXC:' + type(e).__name__)
        return out

    def op(name, value):
        def run_():
            try:
                chk = policy.Rules.from_dict({'p': value})['p']
                parsed[name] = chk
                return [str(chk), decide(chk)]
            except Exception as e:
                return 'EXC:%s:%s' % (type(e).__name__, str(e)[:80])
        return run_
    if k == 0:
        plan = [['A', None], ['B', None]]
    elif j == 0:
        plan = [['A', k], ['B', None], ['A', None]]
    else:
        plan = [['A', k], ['B', j], ['A', None], ['B', None]]
    with mock.patch('requests.post', fake_post):
        r = sched.Run({'A': op('A', texts[0]), 'B': op('B', texts[1])}, plan, lambda: None, trace_points=(k == 0))
        res = r.run()
        out = {'k': k, 'j': j, 'pair': pair, 'boundaries': dict(r.counts), 'first': {n: res.get(n) for n in 'AB'}, 'again': {},
               'stopped_at': {n: list(v) for n, v in r.stopped_at.items()}}
        if k == 0:
            # which boundaries of A are executed on FIRST use only?  Run the same call again (warm) and compare the lines.
            cold = r.points.get('A', [])
            w = sched.Run({'A': op('A2', texts[0])}, [['A', None]], lambda: None, trace_points=True)
            w.run()
            warm = {(f, ln) for f, ln, fn in w.points.get('A', [])}
            out['first_use_only_boundaries'] = [i + 1 for i, (f, ln, fn) in enumerate(cold) if (f, ln) not in warm]
            out['first_use_only_functions'] = sorted({fn for f, ln, fn in cold if (f, ln) not in warm})
        # afterwards, single-threaded: the printed text parsed again prints the same and decides the same
        for n in 'AB':
            first = res.get(n)
            if isinstance(first, list):
                try:
                    chk = policy.Rules.from_dict({'p': first[0]})['p']
                    out['again'][n] = [str(chk), decide(chk)]
                except Exception as e:
                    out['again'][n] = 'EXC:%s' % type(e).__name__
    sched.uninstall()
    print('PV-FIRST-USE ' + json.dumps(out))
    return 0


def process(k, j, pair):
    """Run this driver in a fresh interpreter; returns its JSON object, or a string describing the failure."""
    import os
    import subprocess
    from pv.core import env
    envv = dict(os.environ, PYTHONHASHSEED='0', PYTHONPATH=env.VERIF_DIR + os.pathsep + os.environ.get('PYTHONPATH', ''))
    arg = pair if isinstance(pair, str) else json.dumps(pair) if isinstance(pair, list) else str(pair)
    try:
        p = subprocess.run([sys.executable, '-m', 'pv.mon.firstuse', str(k), str(j), arg], cwd=env.VERIF_DIR, env=envv,
                           capture_output=True, text=True, timeout=180)
    except subprocess.TimeoutExpired:
        return 'driver timed out'
    for line in p.stdout.splitlines():
        if line.startswith('PV-FIRST-USE '):
            return json.loads(line[len('PV-FIRST-USE '):])
    return 'driver exited %s: %s' % (p.returncode, (p.stderr or p.stdout)[-300:])


def schedules(ctx, pair, judge, sampled, systematic_cap, parity=0):
    """Reference process for `pair`, then one fresh process per schedule: the boundaries that exist on first use only
    (every second one when `parity` is 0/1, all when None; at most `systematic_cap`) and `sampled` random ones.
    `judge(ctx, case, base, got)` reports violations.  Counters: first_use_schedules, first_use_schedules_inside_lazy_setup."""
    base = process(0, 0, pair)
    if isinstance(base, str):
        ctx.inconclusive('first-use driver: ' + base)
        return
    nA, nB = base['boundaries']['A'], base['boundaries']['B']
    ctx.observe('first_use_boundaries', nA)
    cold = base.get('first_use_only_boundaries', [])
    ctx.count('first_use_only_boundaries_seen', len(cold))
    for fn in base.get('first_use_only_functions', []):
        ctx.observe('first_use_only_functions', fn)
    rnd = ctx.sub_rnd('F', ctx.tier, ctx.shard, json.dumps(pair))
    ks = (cold if parity is None else cold[parity % 2::2])[:systematic_cap]
    ks = sorted(set(ks) | {rnd.randint(1, nA) for _ in range(sampled)})
    for i, k in enumerate(ks):
        if ctx.expired():
            break
        j = rnd.randint(1, nB) if i % 3 == 2 else 0
        case = dict(first_use=True, pair=pair, k=k, j=j)
        got = process(k, j, pair)
        if isinstance(got, str):
            ctx.inconclusive('first-use driver: ' + got)
            return
        ctx.case(['first-use', pair, k, j], True, 'first-use')
        ctx.count('first_use_schedules')
        if k in cold:
            ctx.count('first_use_schedules_inside_lazy_setup')
        ctx.observe('first_use_preemption_points', json.dumps(got['stopped_at'].get('A')))
        judge(ctx, case, base, got)


def replay_one(ctx, case, judge):
    base, got = process(0, 0, case['pair']), process(case['k'], case['j'], case['pair'])
    for r in (base, got):
        if isinstance(r, str):
            ctx.inconclusive('first-use driver: ' + r)
            return
    judge(ctx, case, base, got)


if __name__ == '__main__':
    sys.exit(main(sys.argv[1:]))
