"""Reach counters: how often did the workload enter the functions a property is
anchored in?  sys.monitoring PY_START, enabled only on the anchors' code
objects (so the cost is per anchor call, not per call).  An anchor that cannot
be resolved (refactored away) is reported as 'unresolved' in the evidence; it
is informational unless the property lists it under REQUIRED_ANCHORS."""
import importlib
import sys

TOOL = 4


def resolve(spec):
    modname, qual = spec.split(':')
    try:
        obj = importlib.import_module(modname)
        for part in qual.split('.'):
            obj = getattr(obj, part)
    except Exception:
        return None
    if isinstance(obj, property):
        obj = obj.fget
    obj = getattr(obj, '__wrapped__', obj)
    obj = getattr(obj, '__func__', obj)
    return getattr(obj, '__code__', None)


class Reach:
    def __init__(self, specs):
        self.specs = list(specs)
        self.codes = {}
        self.n = {}
        self.unresolved = []
        self.on = False

    def start(self):
        mon = getattr(sys, 'monitoring', None)
        if mon is None or not self.specs:
            return
        for s in self.specs:
            code = resolve(s)
            if code is None:
                self.unresolved.append(s)
            else:
                self.codes[code] = s
                self.n[s] = 0
        try:
            mon.use_tool_id(TOOL, 'pv-reach')
        except ValueError:
            return
        self.on = True

        def cb(code, offset):
            s = self.codes.get(code)
            if s is not None:
                self.n[s] += 1
        mon.register_callback(TOOL, mon.events.PY_START, cb)
        for code in self.codes:
            mon.set_local_events(TOOL, code, mon.events.PY_START)

    def stop(self):
        if not self.on:
            return
        mon = sys.monitoring
        for code in self.codes:
            try:
                mon.set_local_events(TOOL, code, 0)
            except Exception:
                pass
        mon.register_callback(TOOL, mon.events.PY_START, None)
        mon.free_tool_id(TOOL)
        self.on = False

    def counts(self):
        out = dict(self.n)
        for s in self.unresolved:
            out[s + ' (unresolved)'] = 0
        return out
