"""Generic "two overlapping operations" monitor on top of the deterministic line-level scheduler.

Operation A is pre-empted at a library line boundary, operation B runs to completion in between, A finishes; the
pair of results must equal the pair obtained when A and B run one after the other.  For every third boundary a second
schedule keeps BOTH operations in flight: A stops at k, B runs up to one of its own boundaries j, A finishes, B finishes
(state that B tears down when it returns is still set up while A goes on).  Every boundary of A is tried when
A has at most `limit` boundaries, otherwise `limit` boundaries spread over the whole of A (first / last ones always,
the rest drawn from the case's own random generator, so a replay visits the same ones).

The operations must be independent by construction (own inputs, own copies of credentials and targets): then any
difference is state that the library parked somewhere shared between the two calls."""
from pv.mon import sched

KEY = 'decision-depends-on-a-concurrent-evaluation'


def boundaries(n, limit, rnd):
    if n <= limit:
        return list(range(1, n + 1))
    ks = set(range(1, min(n, limit // 4) + 1)) | set(range(max(1, n - limit // 8), n + 1))
    while len(ks) < limit:
        ks.add(rnd.randint(1, n))
    return sorted(ks)


def pair(ctx, make_a, make_b, case, detail, rnd, limit=120, key=KEY, counter='overlapping_evaluations'):
    """Returns True when every overlapped execution gave the results of the sequential one."""
    r = sched.Run({'A': make_a(), 'B': make_b()}, [['A', None], ['B', None]], lambda: None)
    res = r.run()
    ref = (res.get('A'), res.get('B'))
    ctx.count(counter)
    n = r.counts['A']
    nb = r.counts['B']
    ctx.observe('overlap_boundaries_of_first_operation', n)
    for i, k in enumerate(boundaries(n, limit, rnd)):
        plans = [[['A', k], ['B', None], ['A', None]]]
        j = rnd.randint(1, nb) if nb else None           # drawn for every k, so that the sequence of draws never depends on i
        if i % 3 == 1 and j:
            plans.append([['A', k], ['B', j], ['A', None], ['B', None]])
        for plan in plans:
            r = sched.Run({'A': make_a(), 'B': make_b()}, plan, lambda: None)
            res = r.run()
            ctx.count(counter)
            if len(plan) == 4:
                ctx.count(counter + '.both_in_flight')
            got = (res.get('A'), res.get('B'))
            if got != ref:
                where = r.stopped_at.get('A')
                ctx.violation(key, case, dict(detail, alone=list(ref), overlapping=list(got), a_preempted_at_boundary=k,
                                              a_preempted_at=list(where) if where else None, plan=plan))
                return False
    return True


def outcome(fn):
    """Result of one client call in a comparable form."""
    try:
        r = fn()
    except Exception as e:
        return ['raised', type(e).__name__, repr(getattr(e, 'args', ()))[:200]]
    return ['returned', bool(r)]


def enforce_pair(ctx, enf_a, call_a, enf_b, call_b, case, detail, rnd, limit=100, key=KEY):
    """Two overlapping Enforcer.enforce calls (usually on the same enforcer).  call = (rule, target, creds, kwargs); each
    execution gets fresh deep copies of target and credentials."""
    import copy

    def mk(enf, call):
        def make():
            rule, target, creds, kw = call
            t, c = copy.deepcopy(target), copy.deepcopy(creds)
            return lambda: outcome(lambda: enf.enforce(rule, t, c, **kw))
        return make
    return pair(ctx, mk(enf_a, call_a), mk(enf_b, call_b), case, detail, rnd, limit=limit, key=key)
