"""Entry point:  ./check <ID> <quick|thorough> [--replay FILE]

Parent process: fans the property's workload out over worker subprocesses
(one per shard, each with a hard timeout), merges what they observed, matches
violations against KNOWN_FINDINGS.txt by mechanism key, writes the evidence
file and decides the three-valued verdict:

  exit 0  held on everything explored (KNOWN-FINDING lines allowed)
  exit 1  VIOLATION property=<id> replay=<path>
  exit 2  INCONCLUSIVE property=<id> reason=...
"""
import importlib
import json
import os
import pickle
import subprocess
import sys
import tempfile
import time

from pv.core import ctx as ctxmod
from pv.core import env
from pv.core import findings

HERE = env.VERIF_DIR
# self-tests aim the checks at mutated copies; their evidence and replays must not overwrite the real ones
OUT = os.environ.get('VERIF_OUT_DIR') or HERE


def load_prop(pid):
    return importlib.import_module('pv.props.' + pid.lower())


def worker(pid, tier, seed, shard, nshards, wall, outfile):
    env.setup()
    mod = load_prop(pid)
    c = ctxmod.Ctx(pid, tier, seed, shard, nshards, wall)
    from pv.mon import reach
    r = reach.Reach(getattr(mod, 'ANCHORS', []))
    r.start()
    try:
        mod.run(c)
    finally:
        r.stop()
    res = c.export()
    res['anchors'] = r.counts()
    with open(outfile, 'wb') as f:
        pickle.dump(res, f)


def run_replay(pid, path):
    env.setup()
    mod = load_prop(pid)
    with open(path) as f:
        rec = json.load(f)
    c = ctxmod.Ctx(pid, rec.get('tier', 'quick'), rec.get('seed', 0), replay=True,
                   wall=600)
    mod.replay(c, rec['case'])
    known = findings.load(os.path.join(HERE, 'KNOWN_FINDINGS.txt'))
    unlisted = {k: v for k, v in c.violations.items() if (pid, k) not in known}
    for key, (n, ws) in c.violations.items():
        if (pid, key) in known:
            print('KNOWN-FINDING: property=%s key=%s observed=%d %s' % (pid, key, n, known[(pid, key)]))
    if unlisted:
        for key, (n, ws) in unlisted.items():
            print('replayed: key=%s detail=%s' % (key, json.dumps(ws[0]['detail'], default=repr)[:2000]))
        print('VIOLATION property=%s replay=%s' % (pid, os.path.abspath(path)))
        return 1
    if c.inconclusive_reasons:
        for r in c.inconclusive_reasons:
            print('INCONCLUSIVE property=%s reason=%s' % (pid, r))
        return 2
    print('replay of %s: property held on this case%s' % (path, ' (known findings only)' if c.violations else ''))
    if rec.get('shard') is not None and rec.get('nshards') and os.environ.get('PV_REPLAY_SHARD', '1') != '0':
        # The case alone does not fail.  A violation may depend on what the same process executed BEFORE the case (state the
        # library keeps between calls): re-execute the recorded shard - same tier, seed and partition, hence the same sequence
        # of cases - and see whether the same mechanism fires again.
        tier = rec.get('tier', 'quick')
        wall = float(mod.PLAN[tier]['wall']) * 2
        print('re-executing shard %s/%s of the recorded %s run (seed %s) in a fresh process ...' % (rec['shard'], rec['nshards'], tier, rec.get('seed', 0)))
        tmp = tempfile.mkdtemp(prefix='pv-replay-')
        out = os.path.join(tmp, 'shard.pkl')
        envv = dict(os.environ, PYTHONHASHSEED='0', PYTHONPATH=HERE + os.pathsep + os.environ.get('PYTHONPATH', ''))
        try:
            subprocess.run([sys.executable, '-m', 'pv.main', '--worker', pid, tier, str(rec.get('seed', 0)), str(rec['shard']),
                            str(rec['nshards']), str(wall), out], cwd=HERE, env=envv, stdout=subprocess.DEVNULL, stderr=subprocess.DEVNULL,
                           timeout=wall * 3 + 120)
            with open(out, 'rb') as f:
                again = pickle.load(f)
        except Exception as e:
            print('INCONCLUSIVE property=%s reason=re-execution of the recorded shard failed: %s' % (pid, repr(e)[:200]))
            return 2
        finally:
            import shutil
            shutil.rmtree(tmp, ignore_errors=True)
        if rec.get('key') in again['violations'] and (pid, rec['key']) not in known:
            n, ws = again['violations'][rec['key']]
            print('replayed in context: key=%s observed=%d detail=%s' % (rec['key'], n, json.dumps(ws[0]['detail'], default=repr)[:2000]))
            print('VIOLATION property=%s replay=%s' % (pid, os.path.abspath(path)))
            return 1
        print('re-execution of the shard: property held (mechanism %s not observed)' % rec.get('key'))
    return 0


def main(argv):
    if argv and argv[0] == '--worker':
        pid, tier, seed, shard, nshards, wall, outfile = argv[1:8]
        worker(pid, tier, int(seed), int(shard), int(nshards), float(wall), outfile)
        return 0
    if len(argv) >= 3 and argv[1] == '--replay':
        return run_replay(argv[0].upper(), argv[2])
    if len(argv) >= 4 and argv[2] == '--replay':
        return run_replay(argv[0].upper(), argv[3])
    if len(argv) < 2:
        print(__doc__)
        return 2
    pid = argv[0].upper()
    tier = argv[1]
    if tier not in ('quick', 'thorough'):
        tier = os.environ.get('VERIF_TIER', 'quick')
    seed = int(os.environ.get('VERIF_SEED', '0') or 0)
    env.setup()
    mod = load_prop(pid)
    plan = mod.PLAN[tier]
    nshards = int(os.environ.get('VERIF_SHARDS', plan['shards']))
    wall = float(os.environ.get('VERIF_WALL', plan['wall']))
    t0 = time.time()
    tmp = tempfile.mkdtemp(prefix='pv-%s-' % pid)
    procs = []
    envv = dict(os.environ)
    envv['PYTHONHASHSEED'] = '0'
    envv['PYTHONPATH'] = HERE + os.pathsep + envv.get('PYTHONPATH', '')
    maxpar = int(os.environ.get('VERIF_PAR', '16'))
    pending = list(range(nshards))
    running = []
    results = []
    hard = wall * 3 + 120
    dead = []
    logs = {}
    try:
        while pending or running:
            while pending and len(running) < maxpar:
                s = pending.pop(0)
                out = os.path.join(tmp, 'shard%d.pkl' % s)
                logf = open(os.path.join(tmp, 'shard%d.log' % s), 'w+')
                p = subprocess.Popen(
                    [sys.executable, '-m', 'pv.main', '--worker', pid, tier,
                     str(seed), str(s), str(nshards), str(wall), out],
                    cwd=HERE, env=envv, stdout=logf, stderr=subprocess.STDOUT)
                running.append((s, p, out, time.time(), logf))
            time.sleep(0.05)
            still = []
            for s, p, out, st, logf in running:
                rc = p.poll()
                if rc is None:
                    if time.time() - st > hard:
                        p.kill()
                        p.wait()
                        dead.append('shard %d exceeded the hard watchdog of %ds' % (s, hard))
                        logf.close()
                    else:
                        still.append((s, p, out, st, logf))
                    continue
                logf.seek(0)
                text = logf.read()
                logf.close()
                if rc != 0 or not os.path.exists(out):
                    dead.append('shard %d exited %s: %s' % (s, rc, text[-1500:]))
                else:
                    with open(out, 'rb') as f:
                        results.append(pickle.load(f))
                    if text.strip():
                        logs[s] = text[-2000:]
            running = still
    finally:
        for s, p, out, st, logf in running:
            p.kill()
        import shutil
        shutil.rmtree(tmp, ignore_errors=True)

    m = ctxmod.merge(results) if results else None
    wall_s = time.time() - t0
    reasons = list(dead)
    if m is None:
        reasons.append('no shard produced a result')
    else:
        reasons.extend(m['inconclusive'])
        anchors = {}
        for r in results:
            for k, v in r.get('anchors', {}).items():
                anchors[k] = anchors.get(k, 0) + v
        m['anchors'] = anchors
        for name, least in getattr(mod, 'MIN', {}).items():
            have = m['counters'].get(name, 0) if name != 'evaluations' else m['evaluations']
            if have < least:
                reasons.append('monitor counter %s=%d below the minimum %d: the deciding '
                               'monitor was not reached often enough' % (name, have, least))
        for a in getattr(mod, 'REQUIRED_ANCHORS', []):
            if anchors.get(a, 0) == 0:
                reasons.append('anchor %s was never entered during the workload' % a)

    known = findings.load(os.path.join(HERE, 'KNOWN_FINDINGS.txt'))
    unlisted = []
    listed = []
    if m:
        for key, (n, ws) in m['violations'].items():
            if (pid, key) in known:
                listed.append((key, n, ws, known[(pid, key)]))
            else:
                unlisted.append((key, n, ws))

    # ---- evidence -------------------------------------------------------
    if m:
        write_evidence(mod, pid, tier, seed, m, wall_s, unlisted, listed, reasons, nshards)

    # ---- verdict --------------------------------------------------------
    for key, n, ws, text in listed:
        print('KNOWN-FINDING: property=%s key=%s observed=%d %s' % (pid, key, n, text))
    rc = 0
    if unlisted:
        rc = 1
        os.makedirs(os.path.join(OUT, 'replays', pid), exist_ok=True)
        for key, n, ws in unlisted:
            w = ws[0]
            name = '%s-%016x.json' % (key[:60].replace('/', '_').replace(' ', '_'),
                                      ctxmod.digest(w['case']))
            path = os.path.join(OUT, 'replays', pid, name)
            with open(path, 'w') as f:
                json.dump({'property': pid, 'key': key, 'tier': tier, 'seed': seed,
                           'observed': n, 'case': w['case'], 'detail': w['detail'],
                           # where in the recorded run it happened: lets a replay re-execute everything that ran before it
                           'shard': w.get('where', {}).get('shard'), 'nshards': w.get('where', {}).get('nshards')},
                          f, indent=1, default=repr)
            print('  mechanism=%s observed=%d detail=%s' % (
                key, n, json.dumps(w['detail'], default=repr)[:600]))
            print('VIOLATION property=%s replay=%s' % (pid, path))
    if m:
        print('%s %s seed=%d: %d cases (%d distinct non-trivial), %d shards, %.1fs%s' % (
            pid, tier, seed, m['evaluations'], len(m['digests']), nshards, wall_s,
            ' [budget cut some strata short]' if m['cut_short'] else ''))
    if rc == 0 and reasons:
        for r in reasons:
            print('INCONCLUSIVE property=%s reason=%s' % (pid, r))
        rc = 2
    elif reasons:
        for r in reasons:
            print('note: also inconclusive in part: %s' % r)
    return rc


def write_evidence(mod, pid, tier, seed, m, wall_s, unlisted, listed, reasons, nshards):
    samples = []
    for stratum, lst in m['samples'].items():
        for s in lst:
            samples.append({'stratum': stratum, 'case': s})
    strata = m['strata']
    all_exh = bool(strata) and all(d.get('exhaustive') for d in strata.values())
    cov = {
        'evaluations': m['evaluations'],
        'distinct_nontrivial': len(m['digests']),
        'rule': mod.RULE,
        'samples': samples[:40],
        'exhaustive': all_exh and not m['cut_short'],
        'strata': strata,
        'monitor_counters': dict(sorted(m['counters'].items())),
        'anchor_reach': m.get('anchors', {}),
        'observed_distinct': {k: len(v) for k, v in m['observed'].items()},
        'observed_examples': {k: sorted(map(str, v))[:12] for k, v in m['observed'].items()},
        'shards': nshards,
        'budget_cut_short': m['cut_short'],
        'known_findings_observed': {k: n for k, n, _, _ in listed},
        'unlisted_violation_keys': {k: n for k, n, _ in unlisted},
        'inconclusive_reasons': reasons,
        'verdict': ('violated' if unlisted else 'inconclusive' if reasons else
                    'held on what was observed'),
    }
    ev = {
        'property_id': pid,
        'tier': tier,
        'seed': seed,
        'level': mod.LEVEL,
        'coverage': cov,
        'assumptions': list(mod.ASSUMPTIONS),
        'wall_s': round(wall_s, 2),
        'violations': sum(n for _, n, _ in unlisted),
    }
    os.makedirs(os.path.join(OUT, 'evidence'), exist_ok=True)
    path = os.path.join(OUT, 'evidence', '%s.json' % pid)
    with open(path + '.tmp', 'w') as f:
        json.dump(ev, f, indent=1, default=repr)
        f.write('\n')
    os.replace(path + '.tmp', path)
    if tier == 'thorough':
        # keep the last thorough run beside the per-change (quick) evidence, which the next quick run overwrites
        os.makedirs(os.path.join(OUT, 'evidence', 'thorough'), exist_ok=True)
        import shutil
        shutil.copyfile(path, os.path.join(OUT, 'evidence', 'thorough', '%s.json' % pid))


if __name__ == '__main__':
    sys.exit(main(sys.argv[1:]))
