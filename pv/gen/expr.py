"""Rule-language generator and reference semantics.

Nothing in this module imports oslo_policy: it is the independent side of the
differential monitors.  Written from the documented language:

    expr  := and_e ( 'or' and_e )*
    and_e := not_e ( 'and' not_e )*
    not_e := 'not' not_e | atom
    atom  := CHECK | '(' expr ')'

Tokenisation as documented: split on whitespace; leading '(' and trailing ')'
are peeled off a token; and/or/not in any letter case are keywords; a token
quoted at both ends is a string token (not a check); anything else is a check.

AST nodes are tuples:
  ('leaf', i) ('const', bool) ('not', x) ('and', [..]) ('or', [..]) ('ref', name)
  ('text', 'kind:match')  - a literal check text (used by the recogniser)
"""
import functools
import re

KEYWORDS = ('and', 'or', 'not')


# ---------------------------------------------------------------------------
# reference evaluation
# ---------------------------------------------------------------------------
def ev(ast, truth, rules=None, resolve=None):
    """Boolean value of `ast`; `truth` maps leaf index -> bool (list or dict).
    ('ref', name) is evaluated through `resolve(name)` -> ast or None (deny)."""
    t = ast[0]
    if t == 'leaf':
        return bool(truth[ast[1]])
    if t == 'const':
        return ast[1]
    if t == 'not':
        return not ev(ast[1], truth, rules, resolve)
    if t == 'and':
        return all(ev(x, truth, rules, resolve) for x in ast[1])
    if t == 'or':
        return any(ev(x, truth, rules, resolve) for x in ast[1])
    if t == 'ref':
        target = resolve(ast[1])
        if target is None:
            return False
        return ev(target, truth, rules, resolve)
    raise ValueError(ast)


def leaves(ast, acc=None):
    acc = set() if acc is None else acc
    t = ast[0]
    if t == 'leaf':
        acc.add(ast[1])
    elif t == 'not':
        leaves(ast[1], acc)
    elif t in ('and', 'or'):
        for x in ast[1]:
            leaves(x, acc)
    return acc


def refs(ast, acc=None):
    acc = [] if acc is None else acc
    t = ast[0]
    if t == 'ref':
        acc.append(ast[1])
    elif t == 'not':
        refs(ast[1], acc)
    elif t in ('and', 'or'):
        for x in ast[1]:
            refs(x, acc)
    return acc


def size(ast):
    t = ast[0]
    if t == 'not':
        return 1 + size(ast[1])
    if t in ('and', 'or'):
        return len(ast[1]) - 1 + sum(size(x) for x in ast[1])
    return 1


# ---------------------------------------------------------------------------
# exhaustive enumeration of grammatical token sequences
# ---------------------------------------------------------------------------
@functools.lru_cache(maxsize=None)
def _sent(nt, n):
    """All token tuples of exactly n tokens derivable from nonterminal nt.
    'c' stands for a check."""
    out = []
    if n <= 0:
        return ()
    if nt == 'atom':
        if n == 1:
            out.append(('c',))
        if n >= 3:
            for s in _sent('expr', n - 2):
                out.append(('(',) + s + (')',))
    elif nt == 'not':
        out.extend(_sent('atom', n))
        for s in _sent('not', n - 1):
            out.append(('not',) + s)
    elif nt == 'and':
        # and_e := not_e | not_e 'and' and_e   (right-recursive spelling of the same language)
        out.extend(_sent('not', n))
        for i in range(1, n - 1):
            left = _sent('not', i)
            if not left:
                continue
            right = _sent('and', n - 1 - i)
            for a in left:
                for b in right:
                    out.append(a + ('and',) + b)
    elif nt == 'expr':
        out.extend(_sent('and', n))
        for i in range(1, n - 1):
            left = _sent('and', i)
            if not left:
                continue
            right = _sent('expr', n - 1 - i)
            for a in left:
                for b in right:
                    out.append(a + ('or',) + b)
    return tuple(out)


def sentences(n):
    """Every grammatical sentence of exactly n tokens."""
    return _sent('expr', n)


def parse_tokens(toks):
    """Independent recursive-descent recogniser.  toks: list whose check
    tokens are tuples (AST leaves) and whose other tokens are strings.
    Returns an AST or raises SyntaxError."""
    pos = [0]
    n = len(toks)

    def peek():
        return toks[pos[0]] if pos[0] < n else None

    def expr():
        items = [and_()]
        while peek() == 'or':
            pos[0] += 1
            items.append(and_())
        return items[0] if len(items) == 1 else ('or', items)

    def and_():
        items = [not_()]
        while peek() == 'and':
            pos[0] += 1
            items.append(not_())
        return items[0] if len(items) == 1 else ('and', items)

    def not_():
        if peek() == 'not':
            pos[0] += 1
            return ('not', not_())
        return atom()

    def atom():
        t = peek()
        if t == '(':
            pos[0] += 1
            e = expr()
            if peek() != ')':
                raise SyntaxError('expected )')
            pos[0] += 1
            return e
        if isinstance(t, tuple):
            pos[0] += 1
            return t
        raise SyntaxError('unexpected %r' % (t,))

    e = expr()
    if pos[0] != n:
        raise SyntaxError('trailing tokens')
    return e


def number_leaves(seq):
    """('c','and','c') -> [('leaf',0),'and',('leaf',1)], k"""
    out = []
    k = 0
    for s in seq:
        if s == 'c':
            out.append(('leaf', k))
            k += 1
        else:
            out.append(s)
    return out, k


# ---------------------------------------------------------------------------
# independent tokenizer for arbitrary text
# ---------------------------------------------------------------------------
_ASCII_WS = re.compile('[ \t\n\r\f\v]+')


def tokenize(text, ascii_ws=False, quote_after_peel=False):
    """Documented tokenisation of a rule text.  Check tokens come back as
    ('text', 'kind:match'); quoted tokens as the string 'STRING'.
    `ascii_ws`: treat only ASCII whitespace as separators (the statement says
    "any whitespace" without settling the Unicode space characters, so
    callers that generate those accept both readings)."""
    out = []
    for tok in (_ASCII_WS.split(text) if ascii_ws else text.split()):
        clean = tok.lstrip('(')
        out.extend('(' * (len(tok) - len(clean)))
        if not clean:
            continue
        tok = clean
        clean = tok.rstrip(')')
        trail = len(tok) - len(clean)
        low = clean.lower()
        if low in KEYWORDS:
            out.append(low)
        elif clean:
            # the quote test is documented for the token between the
            # parentheses; whether trailing ')' are peeled before or after it
            # is an open corner (`quote_after_peel`), callers accept both
            q = clean if quote_after_peel else tok
            if len(q) >= 2 and (q[0], q[-1]) in (('"', '"'), ("'", "'")):
                out.append('STRING')
            else:
                out.append(('text', clean))
        out.extend(')' * trail)
    return out


def recognise(text, ascii_ws=False, quote_after_peel=False):
    """AST of a rule text per the documented language, or None if the text is
    not a sentence.  The empty text (only whitespace -> no tokens) is None too:
    callers treat '' separately."""
    toks = tokenize(text, ascii_ws, quote_after_peel)
    if not toks:
        return None
    try:
        return parse_tokens(toks)
    except SyntaxError:
        return None


# ---------------------------------------------------------------------------
# random ASTs
# ---------------------------------------------------------------------------
def random_ast(rnd, depth, k, p_const=0.08, names=None, p_ref=0.0, max_arity=4):
    r = rnd.random()
    if depth <= 0 or r < 0.28:
        q = rnd.random()
        if names and q < p_ref:
            return ('ref', rnd.choice(names))
        if q > 1 - p_const:
            return ('const', rnd.random() < 0.5)
        return ('leaf', rnd.randrange(k))
    if r < 0.45:
        return ('not', random_ast(rnd, depth - 1, k, p_const, names, p_ref, max_arity))
    op = 'and' if rnd.random() < 0.5 else 'or'
    return (op, [random_ast(rnd, depth - 1, k, p_const, names, p_ref, max_arity)
                 for _ in range(rnd.randint(2, max_arity))])


PREC = {'or': 1, 'and': 2, 'not': 3, 'leaf': 4, 'const': 4, 'ref': 4, 'text': 4}


def to_tokens(ast, leaf_text, rnd=None, parent=0, extra=0.0, full=False):
    """Token list of an AST.  Minimal parentheses by precedence, plus
    redundant groups with probability `extra` (or everywhere when `full`)."""
    t = ast[0]
    if t == 'leaf':
        out = [leaf_text(ast[1])]
    elif t == 'const':
        out = ['@' if ast[1] else '!']
    elif t == 'ref':
        out = ['rule:%s' % ast[1]]
    elif t == 'text':
        out = [ast[1]]
    elif t == 'not':
        out = ['not'] + to_tokens(ast[1], leaf_text, rnd, 3, extra, full)
    else:
        out = []
        for i, x in enumerate(ast[1]):
            if i:
                out.append(t)
            # a child with the same operator needs no parentheses semantically;
            # give it some so that the tree shape is what was generated
            out += to_tokens(x, leaf_text, rnd, PREC[t] + (1 if x[0] == t else 0),
                             extra, full)
    need = PREC[t] < parent
    redundant = full and t in ('and', 'or', 'not')
    if rnd is not None and not need and rnd.random() < extra:
        redundant = True
    if need or redundant:
        out = ['('] + out + [')']
        if rnd is not None and extra:
            while rnd.random() < 0.15:
                out = ['('] + out + [')']
    return out


WS = [' ', '  ', '\t', '\n', ' \t ', '\r\n', '\x0b', '\x0c']
UNICODE_WS = ['\u00a0', '\u2000', '\u3000', '\x1c', '\x85']


def spell(tokens, rnd=None, case=False, ws=False, glue=0.0):
    """Spell a token list as text.  Keywords are always whitespace-delimited;
    parentheses may be glued to neighbouring checks/parentheses."""
    s = []
    prev = None
    for t in tokens:
        w = t
        if t in KEYWORDS and case and rnd is not None:
            w = ''.join(c.upper() if rnd.random() < 0.5 else c for c in t)
        g = False
        if prev is not None and rnd is not None and glue:
            if prev == '(' and t not in KEYWORDS and t != ')':
                g = rnd.random() < glue
            if t == ')' and prev not in KEYWORDS and prev != '(':
                g = rnd.random() < glue
        if prev is not None and not g:
            s.append(rnd.choice(WS) if (ws and rnd is not None) else ' ')
        s.append(w)
        prev = t
    text = ''.join(s)
    if ws and rnd is not None and rnd.random() < 0.3:
        text = rnd.choice(WS) + text + rnd.choice(WS)
    return text


def variants(ast, leaf_text, rnd, n):
    """n lexical variants of one AST: (label, text)."""
    out = [('minimal', spell(to_tokens(ast, leaf_text))),
           ('full-parens', spell(to_tokens(ast, leaf_text, full=True)))]
    while len(out) < n:
        toks = to_tokens(ast, leaf_text, rnd, extra=rnd.choice([0.0, 0.2, 0.5]))
        out.append(('random', spell(toks, rnd, case=rnd.random() < 0.7,
                                    ws=rnd.random() < 0.6, glue=rnd.choice([0.0, 0.6, 1.0]))))
    return out


def role_leaf(i):
    return 'role:r%d' % i


def roles_for(truth):
    return ['r%d' % i for i, v in enumerate(truth) if v]


def assignments(k):
    for m in range(1 << k):
        yield [bool(m >> i & 1) for i in range(k)]
