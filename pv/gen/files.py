"""Sandbox policy trees with a logical clock.

Every mutation ends by stamping a strictly increasing integer mtime on the file
*and on its directory*: the library's reload logic compares `mtime > cached`,
and the properties' premise is "each change advancing modification times" - the
harness enforces that premise instead of hoping the wall clock provides it.
"""
import json
import os
import shutil
import tempfile

import yaml

from pv.core import env

_BASE = None


def base_dir():
    """Scratch root: outside /repo and /verif, removed by the cases themselves."""
    global _BASE
    if _BASE is None:
        _BASE = os.environ.get('VERIF_TMP') or tempfile.gettempdir()
    return _BASE


class Tree:
    def __init__(self, dirs=('d1', 'd2'), main='policy.yaml', start=1_000_000_000):
        self.root = tempfile.mkdtemp(prefix='pvtree-', dir=base_dir())
        self.clock = start
        self.main = os.path.join(self.root, main)
        self.dirs = []
        self._stamp_path(self.root)
        for d in dirs:
            self.mkdir(d)

    # -- clock -------------------------------------------------------------
    def tick(self):
        """Strictly increasing logical time.  Most steps are whole seconds; every third one is a fraction of a second, so
        that two consecutive versions of a file can carry modification times within the same second (a change still
        "advances the modification time", which is all the properties ask for)."""
        self.ticks = getattr(self, 'ticks', 0) + 1
        self.clock += 0.25 if self.ticks % 3 == 0 else 7
        return self.clock

    def _stamp_path(self, p):
        os.utime(p, (self.clock, self.clock))

    def stamp(self, path):
        t = self.tick()
        if os.path.lexists(path):
            os.utime(path, (t, t))
        d = os.path.dirname(path)
        os.utime(d, (t, t))
        if d != self.root:
            os.utime(self.root, (t, t))

    # -- mutations -----------------------------------------------------------
    def path(self, rel):
        return os.path.join(self.root, rel)

    def mkdir(self, rel):
        p = self.path(rel)
        os.makedirs(p, exist_ok=True)
        self.stamp(p)
        if p not in self.dirs:
            self.dirs.append(p)
        return p

    def write_text(self, rel, text):
        p = self.path(rel)
        with open(p, 'w', encoding='utf-8') as f:
            f.write(text)
        self.stamp(p)
        return p

    def write(self, rel, mapping, fmt='json'):
        return self.write_text(rel, render(mapping, fmt))

    def symlink(self, rel, target_rel, absolute=False):
        """A symbolic link at `rel` that points to `target_rel` (both relative to the tree root; the target - a file or a
        directory - must exist: no dangling links).  The link text is relative to the real place of the link's directory
        (so that it also resolves when that directory is reached through another link) or, on request, absolute.  The
        clock advances; the link, what it points to, the link's directory and the root get the new mtime."""
        p = self.path(rel)
        target = self.path(target_rel)
        if not os.path.exists(target):
            raise FileNotFoundError(target)
        if not absolute:
            target = os.path.relpath(os.path.join(os.path.realpath(os.path.dirname(target)), os.path.basename(target)),
                                     os.path.realpath(os.path.dirname(p)))
        os.symlink(target, p)
        self.stamp(p)                      # (utime follows the link: the target carries the new mtime as well)
        os.utime(p, (self.clock, self.clock), follow_symlinks=False)
        return p

    def touch(self, rel):
        p = self.path(rel)
        if os.path.exists(p):
            self.stamp(p)

    def delete(self, rel):
        p = self.path(rel)
        if os.path.exists(p):
            os.unlink(p)
            self.stamp(p)

    def exists(self, rel):
        return os.path.exists(self.path(rel))

    def conf(self, policy_dirs=None, policy_file=None, relative=False, **overrides):
        if policy_dirs is None:
            policy_dirs = list(self.dirs)
        if relative:
            # names relative to a configuration directory (the tree root), resolved by the library's own lookup
            from oslo_config import cfg
            from oslo_policy import opts
            conf = cfg.ConfigOpts()
            conf(['--config-dir', self.root], default_config_dirs=[], default_config_files=[])
            opts._register(conf)
            rel = lambda p: os.path.relpath(p, self.root) if os.path.isabs(p) else p
            conf.set_override('policy_file', rel(policy_file or self.main), group='oslo_policy')
            conf.set_override('policy_dirs', [rel(d) for d in policy_dirs], group='oslo_policy')
            for k, v in overrides.items():
                conf.set_override(k, v, group='oslo_policy')
            return conf
        return env.fresh_conf(policy_file=policy_file or self.main,
                              policy_dirs=list(policy_dirs), **overrides)

    def cleanup(self):
        shutil.rmtree(self.root, ignore_errors=True)

    def __enter__(self):
        return self

    def __exit__(self, *a):
        self.cleanup()
        return False


def render(mapping, fmt='json'):
    """A policy mapping as JSON or YAML text (both are valid policy files)."""
    if fmt == 'json':
        return json.dumps(mapping, indent=1)
    if fmt == 'yaml':
        if not mapping:
            return '{}\n'
        return yaml.safe_dump(mapping, default_flow_style=False, allow_unicode=True)
    if fmt == 'yaml-lines':
        # the hand-written style of sample files: "name": "rule" per line
        # (ensure_ascii=False: a JSON escape of a character outside the basic plane is a surrogate pair, which YAML reads
        # as two characters - the harness must not mangle its own input)
        return ''.join('%s: %s\n' % (json.dumps(k, ensure_ascii=False), json.dumps(v, ensure_ascii=False)) for k, v in mapping.items())
    raise ValueError(fmt)


def yaml_roundtrips(mapping):
    try:
        return yaml.safe_load(render(mapping, 'yaml')) == mapping
    except Exception:
        return False
