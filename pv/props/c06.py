"""C06 - rule:NAME is a transparent alias for NAME's current definition.

Four monitors on the same generated acyclic rule sets:
 (i)   differential: real enforce vs reference evaluation with references expanded;
 (ii)  metamorphic: inlining one reference as "( definition )" never changes a decision;
 (iii) an undefined reference behaves like enforcing an unknown name (default rule if usable, else deny);
 (iv)  recording check classes registered from the harness observe the current_rule they are given
       (must be the enforced policy name) and a 3-argument class must be called without it."""
from pv.core import env
from pv.gen import expr

ID = 'C06'
LEVEL = 'exploration'
TECHNIQUE = ('differential + metamorphic runtime monitors on generated acyclic rule graphs; recording check classes '
             'hooked into the real evaluation observe the current_rule argument; overlapping requests under a deterministic line-level thread scheduler (sys.monitoring)')
RULE = ('cases = acyclic rule sets over <= 8 names (acyclic including the undefined->default edge): random expression '
        'bodies mixing role checks, recording checks and rule: references; dedicated shapes: alias chains to depth 8, '
        'diamonds, references under not/and/or, undefined references; with and without a default rule (option default name, constructor name, '
        'constructor check object); every rule enforced under all 16 subsets of 4 roles; stratum `redefinition`: some rules are redefined under the living enforcer (merge, store update, item assignment, overwrite) and everything is re-decided against the new definitions. Stratum `overlap`: two requests enforce two policies of one rule set at the same time (second one runs at sampled line boundaries of the first, deterministic scheduler); decisions and the policy name told to nested checks must be those of each request alone; besides the pre-empt/run/finish schedule, both requests are held in flight at once (first one pre-empted, second one pre-empted before it ends, first one finishes, second one finishes) over a grid of boundary pairs; part of the overlap cases are rule sets in which one name (defined, an alias or undefined) is referenced at least twice under one and/or (diamonds, `rule:x and (... or rule:x)`, flat repeats; both requests on the same policy or on two policies) with role sets that make that name decide differently for the two requests. Stratum `late-default`: the rule set of a living enforcer lacks the default rule whose name is configured (option or constructor); after a first round of decisions the default rule is defined later (merge without overwrite, store update, item assignment, a default registered in code for a file-backed enforcer before or after its first load, a file dropped into a policy directory, the policy file rewritten) and every rule incl. undefined references (plain, under not, nested) and an unknown policy name is re-decided against the reference with the default rule now usable. Stratum `checker-tool`: the same rule sets written to a file and decided by the console checker (its own stand-in enforcer), incl. an unknown policy name. Stratum `overlap-reinstall` (part of the overlap runs): while one request decides a policy that goes through one or more references, the SAME rules (identical texts, same default rule) are installed again on the living enforcer - Enforcer.set_rules with a freshly parsed Rules object, with and without overwrite, a forced reload of the policy file, or the policy file re-saved with identical content and re-read by a second request; no definition changes, so the decision must be that of the reference evaluator at every pre-emption point of either operation (either one pre-empted with the other run to its end in between, and both in flight). Stratum `redefinition` also keeps the Rules object of the living enforcer, installs another rule set, re-installs the kept object (with and without overwrite) and re-decides everything against the kept set. Stratum `check-object`: the same rule sets, with an additional recording check kind whose DECISION depends on the policy name it is told, are enforced by passing the parsed check tree of each policy to enforce() instead of its name: decisions must be those of the reference evaluator (name-dependent leaves evaluated with what a check object enforced directly is told - found out with a bare probe, not demanded), no nested check may be told the name of an alias, and the tree with a reference and the tree with that reference inlined must decide alike AND tell the nested checks the same. Stratum `check-class-hierarchy`: custom check classes created freshly per case in hierarchies (3-argument base with 4-argument derived class and the reverse, inherited __call__, three levels, several registered kinds sharing one base; fourth parameter named current_rule or otherwise), some registered as kinds, the others only used as check objects inside the rules, each behind references (plain, under not, depth 2, beside a role check) and enforced in random order over one or two enforcers: decisions are those of the reference evaluator, every 4-argument class is told the enforced policy name and every 3-argument class is called with three arguments, whatever class was evaluated before. Stratum `registered-never-loaded`: enforcers that do not load from configuration (use_conf=False; rules given by set_rules - Rules object, plain dict, merged in two halves - or to the constructor) with defaults registered in code before or after (new names, the undefined names of the set, a referenced rule or the default rule moved out of the set, a name the set defines too): the registered-only names are not in the store, so references to them (plain, under not, depth 2, random bodies) and enforcing them directly decide like an unknown policy - default rule if usable, else deny. Non-trivial = the '
        'rule set contains at least one rule: reference reached from the enforced rule; distinct = distinct rule set.')
ASSUMPTIONS = ['role:/@/! leaves evaluate as C01/C04 state', 'the harness registers private check kinds (pvrec, pvrec3, pvrec4, pvwho; pvh0-pvh5 per hierarchy case) and removes them afterwards']
LEVEL_TEXT = ('Seeded sampling of acyclic reference graphs with targeted shapes (chains, diamonds, undefined references), '
              'each decided under all role subsets by the real enforcer and compared with reference expansion and with '
              'its own inlined variant; alias transparency is a property of infinitely many graphs, so structured sampling is the level.')
LEVEL_NOTE = 'trusted: the reference evaluator with expansion; generated graphs are acyclic by construction (topological order)'
PLAN = {'quick': dict(shards=4, wall=120), 'thorough': dict(shards=16, wall=400)}
MIN = {'overlapping_evaluations': 200, 'evaluations': 300, 'reference_decisions': 5000, 'inlined_comparisons': 200, 'current_rule_observations': 500,
       'undefined_reference_decisions': 100, 'three_arg_calls': 100, 'redefinition_decisions': 2000, 'unknown_name_direct_decisions': 1000, 'checker_tool_decisions': 500,
       'checker_tool_undefined_reference_decisions': 50,
       'overlap_repeated_reference_cases': 12, 'overlap_pairs_where_the_repeated_reference_decides_differently': 8, 'interleaved_evaluations': 400,
       'late_default_decisions': 5000, 'late_default_undefined_reference_decisions': 1000, 'late_default_file_backed_cases': 20,
       'kept_store_reinstall_decisions': 3000, 'check_object_decisions': 5000, 'check_object_inlined_comparisons': 1000,
       'check_object_current_rule_observations': 2000, 'check_object_name_dependent_calls': 1000,
       'reinstall_overlap_cases': 12, 'reinstall_overlap_evaluations': 300, 'reinstall_overlap_file_backed_cases': 4,
       'hierarchy_cases': 80, 'hierarchy_decisions': 2000, 'hierarchy_told_observations': 500, 'hierarchy_three_arg_calls': 500,
       'hierarchy_unregistered_class_evaluated_after_an_ancestor_of_other_arity': 30,
       'unloaded_registered_cases': 40, 'unloaded_registered_decisions': 10000, 'unloaded_registered_reference_decisions': 4000}
ANCHORS = ['oslo_policy._checks:RuleCheck.__call__', 'oslo_policy._checks:_check', 'oslo_policy.policy:Rules.__missing__',
           'oslo_policy.policy:Enforcer.enforce']
REQUIRED_ANCHORS = ['oslo_policy.policy:Enforcer.enforce']
N = {'quick': 2000, 'thorough': 200000}
OVERLAPS = {'quick': 10, 'thorough': 200}
OVERLAPS_REPEATED = {'quick': 10, 'thorough': 32}       # per shard; aimed overlap cases (repeated reference)
OVERLAP_GRID = {'quick': [3, 4], 'thorough': [2, 3]}      # both-in-flight schedules per random overlap case
REINSTALLS = {'quick': 9, 'thorough': 27}                # per shard; overlap cases in which identical rules are installed again
REINSTALL_HOWS = ['overwrite', 'file-resaved', 'overwrite', 'merge', 'file-force-reload', 'overwrite', 'overwrite', 'overwrite', 'overwrite']
LATE_EVERY = {'quick': 6, 'thorough': 64}                 # every n-th rule set also goes through stratum late-default

ROLES = ['a', 'b', 'c', 'd']
SUBSETS = [[r for i, r in enumerate(ROLES) if m >> i & 1] for m in range(16)]
SEEN = []          # (kind, current_rule) observed by the recording checks
WRONG = []         # (policy being enforced by this request, current_rule received) - overlap stratum: requests carry their policy name
CALLS3 = [0]
WHO = [0]          # calls of the name-dependent check kind


def install_kinds():
    from oslo_policy import policy as _checks          # public names: Check, register

    class Rec(_checks.Check):
        def __call__(self, target, creds, enforcer, current_rule=None):
            SEEN.append(current_rule)
            if creds.get('pv_expect') not in (None, current_rule):
                WRONG.append([creds['pv_expect'], current_rule])
            return self.match in creds['roles']

    class Rec3(_checks.Check):
        def __call__(self, target, creds, enforcer):
            CALLS3[0] += 1
            return self.match in creds['roles']
    class Rec4(_checks.Check):
        """A check class whose fourth parameter is NOT called current_rule: the policy name is passed by position."""
        def __call__(self, target, creds, enforcer, rule_name=None):
            SEEN.append(rule_name)
            if creds.get('pv_expect') not in (None, rule_name):
                WRONG.append([creds['pv_expect'], rule_name])
            return self.match in creds['roles']
    class Who(_checks.Check):
        """A check whose DECISION depends on the policy name it is told: allows iff it is told no name or the configured one."""
        def __call__(self, target, creds, enforcer, current_rule=None):
            SEEN.append(current_rule)
            WHO[0] += 1
            if creds.get('pv_expect') not in (None, current_rule):
                WRONG.append([creds['pv_expect'], current_rule])
            return current_rule is None or current_rule == self.match
    env.register_kind('pvwho', Who)
    env.register_kind('pvrec', Rec)
    env.register_kind('pvrec3', Rec3)
    env.register_kind('pvrec4', Rec4)


def remove_kinds():
    for k in ('pvrec', 'pvrec3', 'pvrec4', 'pvwho'):
        env.unregister_kind(k)


def leaf_value(text, roles):
    if text == '@':
        return True
    if text == '!':
        return False
    kind, match = text.split(':', 1)
    return match in roles


def ev(ast, rules, default, roles, stats):
    t = ast[0]
    if t == 'text':
        return leaf_value(ast[1], roles)
    if t == 'ref':
        stats['refs'] = stats.get('refs', 0) + 1
        if ast[1] in rules:
            return ev(rules[ast[1]], rules, default, roles, stats)
        stats['undefined'] = stats.get('undefined', 0) + 1
        if default is not None and default in rules:       # behaves like enforcing an unknown policy
            return ev(rules[default], rules, default, roles, stats)
        if stats.get('object_default'):
            return 'a' in roles                             # the default rule is a check object (role:a)
        return False
    if t == 'not':
        return not ev(ast[1], rules, default, roles, stats)
    vals = [ev(x, rules, default, roles, stats) for x in ast[1]]
    return all(vals) if t == 'and' else any(vals)


def gen_body(rnd, depth, leaves):
    r = rnd.random()
    if depth <= 0 or r < 0.35:
        l = rnd.choice(leaves)
        return ('ref', l[5:]) if l.startswith('rule:') else ('text', l)
    if r < 0.5:
        return ('not', gen_body(rnd, depth - 1, leaves))
    return (rnd.choice(['and', 'or']), [gen_body(rnd, depth - 1, leaves) for _ in range(rnd.randint(2, 3))])


BASE_LEAVES = ['role:a', 'role:b', 'pvrec:c', 'pvrec3:d', 'pvrec4:b', 'role:c', '@', '!']


def gen_ruleset(rnd):
    shape = rnd.choice(['random', 'random', 'random', 'chain', 'diamond'])
    default_mode = rnd.choice(['none', 'option-default', 'ctor-name', 'ctor-object'])
    default = {'none': None, 'option-default': 'default', 'ctor-name': 'fallback', 'ctor-object': None}[default_mode]
    rules = {}
    order = []
    if default:
        rules[default] = gen_body(rnd, 1, ['role:a', 'role:b', '@', '!', 'pvrec:c'])      # lowest: no references
        order.append(default)
    if shape == 'chain':
        depth = rnd.randint(2, 8)
        rules['n0'] = gen_body(rnd, 1, BASE_LEAVES)
        for i in range(1, depth + 1):
            ref = ('ref', 'n%d' % (i - 1))
            rules['n%d' % i] = rnd.choice([ref, ref, ('not', ref), ('and', [ref, ('text', '@')]),
                                           ('or', [('text', '!'), ref]), ('and', [('text', 'role:a'), ref])])
    elif shape == 'diamond':
        rules['n0'] = gen_body(rnd, 1, BASE_LEAVES)
        rules['n1'] = rnd.choice([('ref', 'n0'), ('not', ('ref', 'n0')), ('and', [('ref', 'n0'), ('text', 'role:b')])])
        rules['n2'] = rnd.choice([('ref', 'n0'), ('or', [('ref', 'n0'), ('text', 'role:c')]), ('not', ('ref', 'n0'))])
        rules['n3'] = (rnd.choice(['and', 'or']), [('ref', 'n1'), ('ref', 'n2')] + ([('ref', 'n0')] if rnd.random() < 0.3 else []))
        if rnd.random() < 0.5:
            rules['n4'] = ('not', ('ref', 'n3'))
    else:
        k = rnd.randint(2, 7)
        for i in range(k):
            lower = ['rule:n%d' % j for j in range(i)]
            leaves = BASE_LEAVES + lower * 2
            if rnd.random() < 0.35:
                leaves = leaves + ['rule:ghost', 'rule:ghost2']      # undefined references
            if default and rnd.random() < 0.2:
                leaves = leaves + ['rule:' + default]
            rules['n%d' % i] = gen_body(rnd, rnd.randint(0, 3), leaves)
    return dict(rules=rules, default=default, default_mode=default_mode, shape=shape)


def text_of(ast, inline=None):
    """Rule text; `inline` = (name, definition ast): occurrences of rule:name become ( definition )."""
    def leaf(node):
        return node
    toks = to_tokens(ast, inline)
    return expr.spell(toks)


def to_tokens(ast, inline, parent=0):
    t = ast[0]
    if t == 'text':
        return [ast[1]]
    if t == 'ref':
        if inline and ast[1] == inline[0]:
            return ['('] + to_tokens(inline[1], None) + [')']
        return ['rule:' + ast[1]]
    if t == 'not':
        return ['not'] + to_tokens(ast[1], inline, 3)
    out = []
    for i, x in enumerate(ast[1]):
        if i:
            out.append(t)
        out += to_tokens(x, inline, expr.PREC[t] + 1)
    if expr.PREC[t] < parent:
        out = ['('] + out + [')']
    return out


def fromjson(x):
    if isinstance(x, list) and x and x[0] in ('text', 'ref'):
        return (x[0], x[1])
    if isinstance(x, list) and x and x[0] == 'not':
        return ('not', fromjson(x[1]))
    if isinstance(x, list) and x and x[0] in ('and', 'or'):
        return (x[0], [fromjson(y) for y in x[1]])
    return x


def build(policy, case, texts):
    kw = {}
    conf = env.fresh_conf()
    dr = None
    if case['default_mode'] == 'ctor-name':
        kw['default_rule'] = case['default']
        dr = case['default']
    if case['default_mode'] == 'ctor-object':
        from oslo_policy import _checks
        kw['default_rule'] = _checks.RoleCheck('role', 'a')
    enf = policy.Enforcer(conf, use_conf=False, **kw)
    enf.set_rules(policy.Rules.from_dict(texts, enf.default_rule))
    return enf


def check_case(ctx, case):
    from oslo_policy import policy
    rules = {k: fromjson(v) for k, v in case['rules'].items()}
    default = case['default']
    texts = {k: text_of(v) for k, v in rules.items()}
    enf = build(policy, case, texts)
    has_ref = any(expr.refs(a) for a in rules.values())
    ctx.case(texts, nontrivial=has_ref, stratum=case['shape'])
    ctx.observe('shapes', '%s/%s' % (case['shape'], case['default_mode']))
    for nm in rules:
        for roles in SUBSETS:
            stats = {'object_default': case['default_mode'] == 'ctor-object'}
            want = ev(rules[nm], rules, default, roles, stats)
            del SEEN[:]
            try:
                got = bool(enf.enforce(nm, {}, {'roles': list(roles)}))
            except Exception as e:
                got = 'EXC:' + type(e).__name__
            ctx.count('reference_decisions')
            if stats.get('undefined'):
                ctx.count('undefined_reference_decisions')
            ctx.count('current_rule_observations', len(SEEN))
            if got != want:
                if isinstance(got, str):
                    key = 'reference-evaluation-raises'
                elif stats.get('undefined'):
                    key = 'undefined-reference-not-like-unknown-policy'
                else:
                    key = 'alias-not-transparent'
                ctx.violation(key, case, {'rules': texts, 'default': default, 'enforced': nm, 'roles': roles,
                                          'expected': want, 'observed': got})
                return
            wrong = [c for c in SEEN if c != nm]
            if wrong:
                ctx.violation('nested-check-told-wrong-policy-name', case,
                              {'rules': texts, 'enforced': nm, 'current_rule_seen': wrong[:3]})
                return
    # (iii) an undefined reference behaves exactly like enforcing an unknown policy name directly
    for roles in SUBSETS:
        stats = {'object_default': case['default_mode'] == 'ctor-object'}
        want = ev(('ref', 'pv-unknown-policy'), rules, default, roles, stats)
        try:
            direct = bool(enf.enforce('pv-unknown-policy', {}, {'roles': list(roles)}))
        except Exception as e:
            direct = 'EXC:' + type(e).__name__
        ctx.count('unknown_name_direct_decisions')
        if direct != want:
            ctx.violation('unknown-policy-not-like-undefined-reference', case,
                          {'rules': texts, 'default': default, 'default_mode': case['default_mode'], 'roles': roles,
                           'enforcing_unknown_name_directly': direct, 'undefined_reference_decides': want})
            break
    # (ii) inline one reference
    cands = [(nm, x) for nm in rules for x in set(expr.refs(rules[nm])) if x in rules]
    if cands:
        vr = ctx.sub_rnd('inline', repr(sorted(texts.items())))
        nm, x = vr.choice(sorted(cands))
        t2 = dict(texts)
        t2[nm] = text_of(rules[nm], (x, rules[x]))
        enf2 = build(policy, case, t2)
        for roles in SUBSETS:
            try:
                a = bool(enf.enforce(nm, {}, {'roles': list(roles)}))
                b = bool(enf2.enforce(nm, {}, {'roles': list(roles)}))
            except Exception as e:
                a, b = 'EXC', type(e).__name__
            ctx.count('inlined_comparisons')
            if a != b:
                ctx.violation('inlining-changes-decision', case,
                              {'rules': texts, 'rule': nm, 'inlined_reference': x, 'inlined_text': t2[nm],
                               'roles': roles, 'with_reference': a, 'inlined': b})
                break


def spread(n, g, rnd):
    """g boundaries out of 1..n, one drawn from each of g equal slices (all of them when n <= g)."""
    if n <= g:
        return list(range(1, n + 1))
    out = []
    for i in range(g):
        lo = 1 + n * i // g
        out.append(rnd.randint(lo, max(lo, n * (i + 1) // g)))
    return sorted(set(out))


def interleave(ctx, enf, call_a, call_b, case, detail, rnd, grid):
    """Both requests in flight at once: A is pre-empted at boundary k, B starts and is itself pre-empted at its boundary j
    (so B has not finished and whatever it parked on the enforcer is still there), A runs to its end, then B does.  k and j
    run over a grid spread over the whole of both calls.  The pair of results must be that of A; B one after the other."""
    import copy
    from pv.mon import overlap, sched

    def mk(call):
        rule, target, creds, kw = call
        t, c = copy.deepcopy(target), copy.deepcopy(creds)
        return lambda: overlap.outcome(lambda: enf.enforce(rule, t, c, **kw))
    r = sched.Run({'A': mk(call_a), 'B': mk(call_b)}, [['A', None], ['B', None]], lambda: None)
    res = r.run()
    ref = (res.get('A'), res.get('B'))
    ctx.count('interleaved_evaluations')
    na, nb = r.counts['A'], r.counts['B']
    for k in spread(na, grid[0], rnd):
        for j in spread(nb, grid[1], rnd):
            r = sched.Run({'A': mk(call_a), 'B': mk(call_b)}, [['A', k], ['B', j], ['A', None], ['B', None]], lambda: None)
            res = r.run()
            ctx.count('interleaved_evaluations')
            got = (res.get('A'), res.get('B'))
            if got != ref:
                wa, wb = r.stopped_at.get('A'), r.stopped_at.get('B')
                ctx.violation(overlap.KEY, case, dict(detail, alone=list(ref), overlapping=list(got),
                                                      schedule='A to boundary %d, B to boundary %d, A to its end, B to its end' % (k, j),
                                                      a_preempted_at=list(wa) if wa else None, b_preempted_at=list(wb) if wb else None))
                return False
    return True


def check_overlap(ctx, case):
    """Two requests enforce two policies of one rule set (shared alias targets) at the same time with different roles: each
    is decided as its definition says, and nested checks of each request are told that request's policy name."""
    from oslo_policy import policy
    from pv.mon import overlap
    rules = {k: fromjson(v) for k, v in case['rules'].items()}
    texts = {k: text_of(v) for k, v in rules.items()}
    enf = build(policy, case, texts)
    (na, ra), (nb, rb) = case['a'], case['b']
    stats = {'object_default': case['default_mode'] == 'ctor-object'}
    refa = ev(rules[na], rules, case['default'], ra, dict(stats)) if na in rules else ev(('ref', na), rules, case['default'], ra, dict(stats))
    refb = ev(rules[nb], rules, case['default'], rb, dict(stats)) if nb in rules else ev(('ref', nb), rules, case['default'], rb, dict(stats))
    want = [['returned', refa], ['returned', refb]]
    ctx.case(['overlap', texts, case['a'], case['b']], True, 'overlap')
    shared = case.get('shared')
    if shared:
        # targeted cases: one name referenced at least twice under one and/or
        ctx.count('overlap_repeated_reference_cases')
        xa = ev(('ref', shared), rules, case['default'], ra, dict(stats))
        xb = ev(('ref', shared), rules, case['default'], rb, dict(stats))
        if xa != xb:
            ctx.count('overlap_pairs_where_the_repeated_reference_decides_differently')
        if na == nb:
            ctx.count('overlap_pairs_on_the_same_policy')
    del WRONG[:]
    detail = {'rules': texts, 'default': case['default'], 'default_mode': case['default_mode'], 'request_a': case['a'], 'request_b': case['b'],
              'expected': want}
    call_a = (na, {}, {'roles': list(ra), 'pv_expect': na}, {})
    call_b = (nb, {}, {'roles': list(rb), 'pv_expect': nb}, {})
    ok = overlap.enforce_pair(ctx, enf, call_a, enf, call_b, case, detail, ctx.sub_rnd('Ob', case['rseed']), limit=case.get('limit', 100))
    if ok and not WRONG and case.get('grid'):
        ok = interleave(ctx, enf, call_a, call_b, case, detail, ctx.sub_rnd('Oi', case['rseed']), case['grid'])
    if WRONG:
        ctx.violation('nested-check-told-wrong-policy-name', case, dict(detail, enforced_vs_told=WRONG[:3]))
        del WRONG[:]
    elif ok:
        got = [overlap.outcome(lambda: enf.enforce(na, {}, {'roles': list(ra)})), overlap.outcome(lambda: enf.enforce(nb, {}, {'roles': list(rb)}))]
        if got != want:
            ctx.violation('alias-not-transparent', case, dict(detail, observed=got))


REPEAT_LEAVES = ['role:a', 'role:b', 'role:c', 'role:d', 'pvrec:c', 'pvrec:d', 'pvrec3:d', 'pvrec4:b', '@', '!']


def gen_repeated_policy(r, rules, prefix, shared):
    """One policy in which rule:<shared> occurs at least twice under one and/or; returns its name."""
    def L():
        return ('text', r.choice(REPEAT_LEAVES))

    def X():
        return r.choice([('ref', shared), ('ref', shared), ('ref', shared), ('not', ('ref', shared))])

    def op():
        return r.choice(['and', 'or'])

    def mix(*xs):
        xs = list(xs)
        r.shuffle(xs)
        return xs
    form = r.choice(['diamond', 'diamond', 'nested', 'nested', 'groups', 'flat', 'alias-diamond'])
    if form == 'diamond':
        rules[prefix + 'l'] = (op(), mix(X(), L()))
        rules[prefix + 'r'] = (op(), mix(X(), L()))
        mid = [L()] if r.random() < 0.3 else []
        rules[prefix] = (op(), [('ref', prefix + 'l')] + mid + [('ref', prefix + 'r')])
    elif form == 'nested':
        o = op()
        inner = ({'and': 'or', 'or': 'and'}[o] if r.random() < 0.8 else o, mix(L(), X()))
        rules[prefix] = (o, [X(), inner] if r.random() < 0.7 else [inner, X()])
    elif form == 'groups':
        rules[prefix] = (op(), [(op(), mix(X(), L())), (op(), mix(L(), X()))])
    elif form == 'flat':
        rules[prefix] = (op(), [X(), L(), X()] + ([L()] if r.random() < 0.3 else []))
    else:
        rules[prefix + 'l'] = r.choice([('ref', shared), ('not', ('ref', shared))])
        rules[prefix + 'r'] = r.choice([('ref', shared), ('or', [('ref', shared), L()]), ('and', [L(), ('ref', shared)])])
        rules[prefix] = (op(), mix(('ref', prefix + 'l'), ('ref', prefix + 'r'), L()))
    return prefix


def gen_repeated(r):
    """Overlap cases aimed at state kept per reference name: a rule set in which one name (defined, an alias, or undefined
    and falling back to the default rule) is referenced at least twice under one and/or, enforced by two requests whose role
    sets make that name decide differently (preferably with the first request's decision depending on it)."""
    default_mode = r.choice(['none', 'option-default', 'ctor-name', 'ctor-object'])
    undefined = r.random() < 0.15
    if undefined and default_mode == 'none':
        default_mode = r.choice(['option-default', 'ctor-name', 'ctor-object'])
    default = {'none': None, 'option-default': 'default', 'ctor-name': 'fallback', 'ctor-object': None}[default_mode]
    rules = {}
    role_leaves = ['role:a', 'role:b', 'role:c', 'role:d', 'pvrec:c', 'pvrec4:b']
    if default:
        rules[default] = gen_body(r, 1, role_leaves) if undefined else gen_body(r, 1, ['role:a', 'role:b', '@', '!', 'pvrec:c'])
    shared = 'x'
    if not undefined:
        form = r.choice(['leaf', 'leaf', 'body', 'alias', 'not'])
        if form == 'leaf':
            rules['x'] = ('text', r.choice(role_leaves))
        elif form == 'body':
            rules['x'] = gen_body(r, 2, role_leaves)
        elif form == 'not':
            rules['x'] = ('not', ('text', r.choice(role_leaves)))
        else:
            rules['x0'] = ('text', r.choice(role_leaves))
            rules['x'] = r.choice([('ref', 'x0'), ('not', ('ref', 'x0')), ('or', [('ref', 'x0'), ('text', r.choice(role_leaves))])])
    pa = gen_repeated_policy(r, rules, 'p', shared)
    pb = pa if r.random() < 0.35 else gen_repeated_policy(r, rules, 'q', shared)
    stats = {'object_default': default_mode == 'ctor-object'}

    def val(ast, rs, roles):
        return ev(ast, rs, default, roles, dict(stats))
    always = dict(rules, **{shared: ('text', '@')})
    never = dict(rules, **{shared: ('text', '!')})
    best = None
    for attempt in range(40):
        ra, rb = r.choice(SUBSETS), r.choice(SUBSETS)
        if best is None:
            best = (ra, rb)
            if r.random() < 0.15:
                break                                   # some pairs with unconstrained role sets
        if val(('ref', shared), rules, ra) == val(('ref', shared), rules, rb):
            continue
        best = (ra, rb)
        if val(rules[pa], always, ra) != val(rules[pa], never, ra):
            break                                       # A's decision depends on what the repeated reference decides
    return dict(rules=rules, default=default, default_mode=default_mode, shape='repeated-reference', shared=shared,
                a=[pa, best[0]], b=[pb, best[1]])


def check_tool(ctx, case):
    """The same alias semantics inside the console checker (oslopolicy-checker evaluates the check trees itself, with its
    own stand-in enforcer): rule:NAME decides as NAME, an undefined reference as the file's `default` rule (else deny)."""
    import contextlib
    import io
    import json
    from oslo_policy import shell
    from pv.gen import files
    if case['default_mode'] not in ('none', 'option-default'):
        return
    rules = {k: fromjson(v) for k, v in case['rules'].items()}
    default = case['default']
    texts = {k: text_of(v) for k, v in rules.items()}
    if any('pvrec3:' in t or 'pvrec4:' in t for t in texts.values()):
        # the tool calls the top-level check with current_rule=... by keyword; a three-argument custom class, or one that
        # names its fourth parameter differently, cannot take it. That is
        # the tool's calling convention, not alias semantics: outside this property.
        ctx.count('tool_cases_skipped_three_arg_kind')
        return
    tree = files.Tree(dirs=())
    try:
        tree.write('p.json', texts, 'json')
        vr = ctx.sub_rnd('tool', repr(sorted(texts.items())))
        for roles in vr.sample(SUBSETS, 3):
            tree.write_text('a.json', json.dumps({'token': {'roles': [{'name': r} for r in roles], 'user': {'id': 'u'}}}))
            for nm in list(rules) + ['pv-unknown-policy']:
                stats = {}
                want = ev(rules[nm] if nm in rules else ('ref', nm), rules, default, roles, stats)
                out = io.StringIO()
                try:
                    with contextlib.redirect_stdout(out):
                        shell.tool(tree.path('p.json'), tree.path('a.json'), nm)
                    got = out.getvalue().strip()
                except Exception as e:
                    got = 'EXC:' + type(e).__name__
                ctx.count('checker_tool_decisions')
                if stats.get('undefined'):
                    ctx.count('checker_tool_undefined_reference_decisions')
                if got != ('passed: %s' if want else 'failed: %s') % nm:
                    ctx.violation('checker-tool-alias-not-transparent' if not stats.get('undefined') else
                                  'checker-tool-undefined-reference-not-like-unknown-policy', dict(case, tool=True),
                                  {'rules': texts, 'default': default, 'checked': nm, 'roles': roles, 'expected_pass': want, 'printed': got})
                    return
        ctx.case(['tool', texts], nontrivial=any(expr.refs(a) for a in rules.values()), stratum='checker-tool')
    finally:
        tree.cleanup()


def check_redefinition(ctx, case):
    """rule:NAME decides as NAME's CURRENT definition: evaluate, redefine some rule of the living enforcer (merge without
    overwrite, direct store update, item assignment, overwrite), evaluate again against the reference on the new set."""
    from oslo_policy import policy, _parser
    rules = {k: fromjson(v) for k, v in case['rules'].items()}
    default = case['default']
    texts = {k: text_of(v) for k, v in rules.items()}
    enf = build(policy, case, texts)
    ctx.case(['redef', texts, case['redefine'], case['how']], nontrivial=True, stratum='redefinition')

    def table(cur, also=None, subsets=SUBSETS):
        for nm in cur:
            for roles in subsets:
                stats = {'object_default': case['default_mode'] == 'ctor-object'}
                want = ev(cur[nm], cur, default, roles, stats)
                try:
                    got = bool(enf.enforce(nm, {}, {'roles': list(roles)}))
                except Exception as e:
                    got = 'EXC:' + type(e).__name__
                ctx.count('redefinition_decisions')
                if also:
                    ctx.count(also)
                if got != want:
                    return nm, roles, want, got
        return None
    bad = table(rules)                          # warm every reference once
    if bad:
        return                                  # the single-shot stratum reports this
    new = {k: fromjson(v) for k, v in case['redefine'].items()}
    cur = dict(rules)
    cur.update(new)
    newtexts = {k: text_of(v) for k, v in new.items()}
    how = case['how']
    if how == 'delete':
        # a referenced rule is deleted from the living store: references to it are undefined from now on
        victim = sorted(new)[0]
        cur = {k: v for k, v in rules.items() if k != victim}
        try:
            del enf.rules[victim]
        except KeyError:
            pass
    elif how in ('reinstall-kept', 'reinstall-kept-merge'):
        # the caller keeps the Rules object of the living enforcer, installs another rule set (the redefined one), then
        # installs the kept object again: the kept definitions are the current ones again
        kept = enf.rules
        kept_texts_before = sorted(str(k) for k in kept)
        enf.set_rules(policy.Rules.from_dict({k: text_of(v) for k, v in cur.items()}, enf.default_rule))
        # while the other rule set is installed: a few decisions only (route `overwrite` of this stratum looks at all of them)
        bad = table(cur, None, ctx.sub_rnd('kept', repr(sorted(texts.items()))).sample(SUBSETS, 2))
        if bad:
            nm, roles, want, got = bad
            ctx.violation('reference-follows-stale-definition', case,
                          {'rules_before': texts, 'redefined': newtexts, 'how': how, 'step': 'after installing the other rule set',
                           'enforced': nm, 'roles': roles, 'expected': want, 'observed': got})
            return
        enf.set_rules(kept, overwrite=(how == 'reinstall-kept'))
        cur = dict(rules)
        bad = table(cur, 'kept_store_reinstall_decisions')
        if bad:
            nm, roles, want, got = bad
            ctx.violation('reference-follows-stale-definition', case,
                          {'rules_before': texts, 'other_rule_set_installed_in_between': newtexts, 'how': how,
                           'step': 'after installing the kept Rules object again', 'names_in_kept_object_when_kept': kept_texts_before,
                           'names_in_kept_object_now': sorted(str(k) for k in kept),
                           'enforced': nm, 'roles': roles, 'expected': want, 'observed': got})
        return
    elif how == 'merge':
        enf.set_rules(policy.Rules.from_dict(newtexts), overwrite=False)
    elif how == 'update':
        enf.rules.update({k: _parser.parse_rule(v) for k, v in newtexts.items()})
    elif how == 'setitem':
        for k, v in newtexts.items():
            enf.rules[k] = _parser.parse_rule(v)
    else:
        enf.set_rules(policy.Rules.from_dict({k: text_of(v) for k, v in cur.items()}, enf.default_rule), overwrite=True)
    bad = table(cur)
    if bad:
        nm, roles, want, got = bad
        ctx.violation('reference-follows-stale-definition', case,
                      {'rules_before': texts, 'redefined': newtexts, 'how': how, 'enforced': nm, 'roles': roles,
                       'expected': want, 'observed': got})


RECORDING = ('pvrec:', 'pvrec4:', 'pvwho:')


def told(ast, current):
    """The same body with every name-dependent leaf (pvwho:m) replaced by what it decides when it is told `current`."""
    t = ast[0]
    if t == 'text':
        if ast[1].startswith('pvwho:'):
            return ('text', '@' if current is None or current == ast[1][6:] else '!')
        return ast
    if t == 'ref':
        return ast
    if t == 'not':
        return ('not', told(ast[1], current))
    return (t, [told(x, current) for x in ast[1]])


def leaves_of(ast, acc):
    t = ast[0]
    if t == 'text':
        acc.append(ast[1])
    elif t == 'not':
        leaves_of(ast[1], acc)
    elif t in ('and', 'or'):
        for x in ast[1]:
            leaves_of(x, acc)
    return acc


def gen_named(r, case):
    """From a generated rule set: some leaves become name-dependent checks (pvwho:<a policy name of the set, or another
    one>), and one rule that is referenced somewhere gets such a check for sure - so that checks which record / decide by
    the policy name they are told sit below references."""
    names = sorted(case['rules'])
    pool = names + names + ['pv-another-policy']

    def leaf():
        return ('text', 'pvwho:' + r.choice(pool))

    def sub(ast, p):
        t = ast[0]
        if t == 'text':
            return leaf() if r.random() < p else ast
        if t == 'ref':
            return ast
        if t == 'not':
            return ('not', sub(ast[1], p))
        return (t, [sub(x, p) for x in ast[1]])
    rules = {k: sub(fromjson(v), 0.2) for k, v in case['rules'].items()}
    referenced = sorted({x for a in rules.values() for x in expr.refs(a) if x in rules})
    if referenced:
        x = r.choice(referenced)
        form = r.choice(['and', 'or', 'and-not', 'alone', 'or-not'])
        if form == 'alone':
            rules[x] = r.choice([leaf(), ('not', leaf())])
        elif form in ('and', 'or'):
            rules[x] = (form, [rules[x], leaf()] if r.random() < 0.5 else [leaf(), rules[x]])
        else:
            rules[x] = (form[:-4], [('not', leaf()), rules[x]])
    return dict(case, rules=rules, check_object=True)


def check_object(ctx, case):
    """enforce() is given the parsed check tree of a policy instead of its name.  (ii) Decisions are the reference
    evaluator's - the name-dependent leaves evaluated with whatever a check object enforced directly is told (found out with
    a bare probe; the statement does not fix it) - and by name they are the reference's with the enforced name; no nested
    check is told the name of an alias.  (i) The tree with a reference and the tree with that reference inlined decide alike
    and tell the nested checks the same."""
    from oslo_policy import policy
    from pv.mon import overlap
    rules = {k: fromjson(v) for k, v in case['rules'].items()}
    default = case['default']
    texts = {k: text_of(v) for k, v in rules.items()}
    enf = build(policy, case, texts)
    objdef = {'object_default': case['default_mode'] == 'ctor-object'}
    aliases = {x for a in rules.values() for x in expr.refs(a)}
    ctx.case(['check-object', texts], nontrivial=bool(aliases), stratum='check-object')
    # what is a check told when a check object is enforced directly?  found out, not demanded
    del SEEN[:]
    try:
        enf.enforce(policy.RuleDefault('pv:probe', 'pvrec:a').check, {}, {'roles': []})
    except Exception:
        pass
    top = SEEN[0] if SEEN else None
    ctx.observe('told_when_a_check_object_is_enforced', repr(top))
    if top is not None:
        ctx.unconstrained('a-check-object-enforced-directly-is-told-something')
    trees = policy.Rules.from_dict(texts)            # parsed on their own: not the objects in the enforcer's store
    by_tree = {k: told(v, top) for k, v in rules.items()}
    some = ctx.sub_rnd('by-name', repr(sorted(texts.items()))).sample(SUBSETS, 4)
    stop = False
    for nm in rules:
        by_name = {k: told(v, nm) for k, v in rules.items()}
        for roles in some:
            # by name (the name-dependent checks are told the enforced name), a few role sets
            stats = dict(objdef)
            want = ev(by_name[nm], by_name, default, roles, stats)
            del SEEN[:]
            got = overlap.outcome(lambda: enf.enforce(nm, {}, {'roles': list(roles)}))
            ctx.count('check_object_by_name_decisions')
            if got != ['returned', want]:
                ctx.violation('undefined-reference-not-like-unknown-policy' if stats.get('undefined') else 'alias-not-transparent', case,
                              {'rules': texts, 'default': default, 'enforced': nm, 'roles': roles, 'expected': want, 'observed': got})
                return
            wrong = [c for c in SEEN if c != nm]
            if wrong:
                ctx.violation('nested-check-told-wrong-policy-name', case, {'rules': texts, 'enforced': nm, 'current_rule_seen': wrong[:3]})
                return
        for roles in SUBSETS:
            # the same policy, handed over as a check tree
            stats = dict(objdef)
            want = ev(by_tree[nm], by_tree, default, roles, stats)
            del SEEN[:]
            WHO[0] = 0
            got = overlap.outcome(lambda: enf.enforce(trees[nm], {}, {'roles': list(roles)}))
            seen = list(SEEN)
            ctx.count('check_object_decisions')
            ctx.count('check_object_current_rule_observations', len(seen))
            if stats.get('refs'):
                ctx.count('check_object_name_dependent_calls', WHO[0])
            found = False
            alias = [c for c in seen if isinstance(c, str) and c in aliases and c != top]
            if alias:
                ctx.violation('nested-check-told-the-alias-when-a-check-object-is-enforced', case,
                              {'rules': texts, 'enforced_check_tree_of': nm, 'text': texts[nm], 'roles': roles, 'told': seen[:6],
                               'names_of_aliases_told': sorted(set(alias)), 'told_without_any_reference': repr(top)})
                found = True
            elif any(not (c is top or c == top) for c in seen):
                # told something that is neither what the probe was told nor an alias: the statement leaves it open
                ctx.unconstrained('check-object-enforced-nested-checks-told-something-else')
                continue
            if got != ['returned', want]:
                ctx.violation('check-object-not-decided-like-its-definitions', case,
                              {'rules': texts, 'default': default, 'enforced_check_tree_of': nm, 'text': texts[nm], 'roles': roles,
                               'expected': want, 'observed': got, 'told': seen[:6], 'told_without_any_reference': repr(top)})
                found = True
            if found:
                stop = True
                break
        if stop:
            break
    # (i) one reference inlined, both forms enforced as check trees
    def records_below(x, seen_names=()):
        if x not in rules or x in seen_names:
            return False
        if any(l.startswith(RECORDING) for l in leaves_of(rules[x], [])):
            return True
        return any(records_below(y, tuple(seen_names) + (x,)) for y in expr.refs(rules[x]))
    cands = sorted((nm, x) for nm in rules for x in set(expr.refs(rules[nm])) if x in rules)
    good = [c for c in cands if records_below(c[1])]
    vr = ctx.sub_rnd('inline-object', repr(sorted(texts.items())))
    picked = vr.sample(good, min(2, len(good))) if good else (vr.sample(cands, 1) if cands else [])
    for nm, x in picked:
        inlined = text_of(rules[nm], (x, rules[x]))
        t_ref = policy.RuleDefault('pv:with-reference', texts[nm]).check
        t_inl = policy.RuleDefault('pv:inlined', inlined).check
        for roles in SUBSETS:
            del SEEN[:]
            a = overlap.outcome(lambda: enf.enforce(t_ref, {}, {'roles': list(roles)}))
            sa = list(SEEN)
            del SEEN[:]
            b = overlap.outcome(lambda: enf.enforce(t_inl, {}, {'roles': list(roles)}))
            sb = list(SEEN)
            ctx.count('check_object_inlined_comparisons')
            ctx.count('check_object_current_rule_observations', len(sa) + len(sb))
            detail = {'rules': texts, 'with_reference': texts[nm], 'inlined_reference': x, 'inlined_text': inlined, 'roles': roles,
                      'enforced_as': 'check trees (parsed with RuleDefault)'}
            if a != b:
                ctx.violation('inlining-changes-decision', case, dict(detail, decided_with_reference=a, decided_inlined=b, told_with_reference=sa[:6], told_inlined=sb[:6]))
            # the VALUES told must be the same in both forms (how often a nested check is called is not part of the statement)
            differ = [c for c in sa if c not in sb and not (c is top or c == top)] + [c for c in sb if c not in sa and not (c is top or c == top)]
            if differ:
                ctx.violation('inlining-changes-the-policy-name-told-to-nested-checks', case,
                              dict(detail, told_with_reference=sa[:8], told_inlined=sb[:8], told_in_one_form_only=differ[:4], told_without_any_reference=repr(top)))
            if a != b or differ:
                return


def ctor_kw(case):
    kw = {}
    if case['default_mode'] == 'ctor-name':
        kw['default_rule'] = case['default']
    if case['default_mode'] == 'ctor-object':
        from oslo_policy import _checks
        kw['default_rule'] = _checks.RoleCheck('role', 'a')
    return kw


def aimed(points, n, limit, rnd):
    """Pre-emption points of one operation: all of them when there are at most `limit`; otherwise the stretch during which
    the public Enforcer.set_rules runs (plus the few lines after it; thinned out when that is too many) and
    boundaries spread over the whole operation."""
    if n <= limit:
        return list(range(1, n + 1))
    hot = [i + 1 for i, p in enumerate((points or [])[:n]) if p[2] == 'set_rules']
    ks = []
    if hot:
        ks = list(range(hot[0], min(n, hot[-1] + 6) + 1))
        keep = max(2, limit * 3 // 4)
        if len(ks) > keep:
            ks = rnd.sample(ks, keep)
    return sorted(set(ks) | set(spread(n, max(2, limit - len(ks)), rnd)))


def gen_reinstall(r, how, rseed):
    """A rule set, a policy of it that goes through references and (preferably) a role set for which that policy's decision
    depends on what its references decide; a second request for the file-backed route."""
    for attempt in range(20):
        case = gen_ruleset(r)
        through = sorted(n for n, a in case['rules'].items() if expr.refs(a))
        if through:
            break
    rules, default = case['rules'], case['default']
    names = sorted(rules)
    stats = {'object_default': case['default_mode'] == 'ctor-object'}
    best = None
    for attempt in range(24):
        na, ra = r.choice(through or names), r.choice(SUBSETS)
        if best is None:
            best = (na, ra)
            if r.random() < 0.15:
                break                                   # some requests with unconstrained role sets
        never = dict(rules, **{x: ('text', '!') for x in set(expr.refs(rules[na]))})
        if ev(rules[na], rules, default, ra, dict(stats)) != ev(rules[na], never, default, ra, dict(stats)):
            best = (na, ra)
            break
    return dict(case, reinstall=True, how=how, fmt=r.choice(['json', 'yaml']), a=[best[0], best[1]],
                b=[r.choice((through or names) + names + ['pv-unknown-policy']), r.choice(SUBSETS)], rseed=rseed)


def check_reinstall(ctx, case):
    """While request A decides a policy that goes through references, operation B installs the SAME rules again on the
    living enforcer (set_rules with a freshly parsed Rules object - overwrite or merge -, a forced reload of the policy file,
    or a second request that re-reads the policy file re-saved with identical content).  No definition changes at any time,
    so A (and B, when it is a request) decides as the reference evaluator says, wherever either one is pre-empted."""
    from oslo_policy import policy
    from pv.gen import files
    from pv.mon import overlap, sched
    rules = {k: fromjson(v) for k, v in case['rules'].items()}
    default = case['default']
    texts = {k: text_of(v) for k, v in rules.items()}
    how = case['how']
    (na, ra), (nb, rb) = case['a'], case['b']
    objdef = {'object_default': case['default_mode'] == 'ctor-object'}

    def ref(nm, roles):
        return ev(rules[nm] if nm in rules else ('ref', nm), rules, default, roles, dict(objdef))
    want_a = ['returned', ref(na, ra)]
    want_b = ['returned', ref(nb, rb)] if how == 'file-resaved' else None
    ctx.case(['reinstall', texts, how, case.get('fmt'), case['a'], case['b']], True, 'overlap-reinstall')
    ctx.count('reinstall_overlap_cases')
    ctx.observe('reinstall_routes', '%s/%s' % (how, case['default_mode']))
    rnd = ctx.sub_rnd('Ri', case['rseed'])
    tree = None
    try:
        if how.startswith('file'):
            main = 'policy.' + case['fmt']
            tree = files.Tree(dirs=(), main=main)
            tree.write(main, texts, case['fmt'])
            enf = policy.Enforcer(tree.conf(policy_dirs=[]), **ctor_kw(case))
            enf.load_rules()
            ctx.count('reinstall_overlap_file_backed_cases')
        else:
            enf = build(policy, case, texts)

        def make_a():
            c = {'roles': list(ra), 'pv_expect': na}
            return lambda: overlap.outcome(lambda: enf.enforce(na, {}, c))

        def make_b():
            if how == 'overwrite':
                fresh = policy.Rules.from_dict(texts, enf.default_rule)       # parsed outside the overlapped call
                return lambda: overlap.outcome(lambda: enf.set_rules(fresh))
            if how == 'merge':
                fresh = policy.Rules.from_dict(texts, enf.default_rule)
                return lambda: overlap.outcome(lambda: enf.set_rules(fresh, overwrite=False))
            if how == 'file-force-reload':
                return lambda: overlap.outcome(lambda: enf.load_rules(True))
            c = {'roles': list(rb), 'pv_expect': nb}
            return lambda: overlap.outcome(lambda: enf.enforce(nb, {}, c))
        edit = (lambda: tree.write(main, texts, case['fmt'])) if how == 'file-resaved' else (lambda: None)

        def full(plan):
            """The file is re-saved right before B (the request that re-reads it) starts: A may be anywhere by then."""
            if how != 'file-resaved':
                return plan
            i = [st[0] for st in plan].index('B')
            return plan[:i] + [['EDIT']] + plan[i:]
        detail = {'rules': texts, 'default': default, 'default_mode': case['default_mode'], 'identical_rules_installed_again_by': how,
                  'request_a': case['a'], 'operation_b': case['b'] if how == 'file-resaved' else how,
                  'expected_a': want_a, 'expected_b': want_b}
        del WRONG[:]

        def execute(plan, trace=False):
            whole = full(plan)
            r = sched.Run({'A': make_a(), 'B': make_b()}, whole, edit, trace_points=trace)
            res = r.run()
            ctx.count('reinstall_overlap_evaluations')
            if len(plan) == 4:
                ctx.count('reinstall_overlap_evaluations.both_in_flight')
            where = {n: list(r.stopped_at[n]) for n in r.stopped_at}
            if res.get('A') != want_a or (want_b is not None and res.get('B') != want_b):
                ctx.violation('decision-changes-while-identical-rules-are-installed-again', case,
                              dict(detail, plan=whole, observed_a=res.get('A'), observed_b=res.get('B'), preempted_at=where))
                return None
            if WRONG:
                ctx.violation('nested-check-told-wrong-policy-name', case, dict(detail, plan=whole, enforced_vs_told=WRONG[:3]))
                del WRONG[:]
                return None
            return r
        r1 = execute([['A', None], ['B', None]], True)
        r2 = r1 and execute([['B', None], ['A', None]], True)
        if not r2:
            return
        ca1, cb2, pa1, pb2 = r1.counts['A'], r1.counts['B'], r1.points.get('A', []), r1.points.get('B', [])
        cb1, ca2, pb1 = r2.counts['B'], r2.counts['A'], r2.points.get('B', [])
        ctx.observe('reinstall_boundaries_of_the_installing_operation', cb1)
        backed = how.startswith('file')                # a reload has hundreds of boundaries: aim at the stretch that installs
        lim = case.get('limit', 20 if backed else 12)
        g = case.get('grid', [1, 14, 2] if backed else [2, 8, 2])
        # where A stops in the both-in-flight schedules: spread over the whole request, plus moments at which a check object
        # is being called (the request is past its own load step, inside the evaluation)
        calls = [i + 1 for i, p in enumerate(pa1[:ca1]) if p[2] == '__call__']
        ka = sorted(set(spread(ca1, g[0], rnd)) | set(calls[i - 1] for i in spread(len(calls), g[2], rnd)))
        plans = []
        for j in aimed(pb1, cb1, lim, rnd):                      # B pre-empted, A decides completely in between
            plans.append([['B', j], ['A', None], ['B', None]])
        for k in aimed(pa1, ca1, 6 if backed else lim, rnd):     # A pre-empted, B runs completely in between
            plans.append([['A', k], ['B', None], ['A', None]])
        for k in ka:                                             # both in flight: A stops, B starts and stops, A ends, B ends
            for j in aimed(pb2, cb2, g[1], rnd):
                plans.append([['A', k], ['B', j], ['A', None], ['B', None]])
        for j in aimed(pb1, cb1, max(2, g[1] // 2), rnd):        # ... and B stops first
            for k in spread(ca2, 2, rnd):
                plans.append([['B', j], ['A', k], ['B', None], ['A', None]])
        for plan in plans:
            if not execute(plan):
                return
        got = overlap.outcome(lambda: enf.enforce(na, {}, {'roles': list(ra)}))
        if got != want_a:
            ctx.violation('alias-not-transparent', case, dict(detail, observed_afterwards=got))
    finally:
        if tree:
            tree.cleanup()


LATE_ROUTES_MEMORY = ['merge', 'update', 'setitem']
LATE_ROUTES_FILE = ['registered-before-first-load', 'registered-late', 'registered-late', 'policy-dir-file', 'policy-dir-file', 'file-rewritten']


def gen_late_default(r, case):
    """From a generated rule set: the same rules WITHOUT the default rule (the enforcer still knows the default rule's name),
    a few rules with undefined references (plain, under not, inside a random body), and the default rule to be defined later."""
    mode = case['default_mode']
    if mode == 'ctor-object':
        return None                                      # a check object needs no definition: nothing to add later
    dname = 'fallback' if mode == 'ctor-name' else 'default'
    rules = {k: v for k, v in case['rules'].items() if k != dname}
    body = case['rules'].get(dname) or gen_body(r, 1, ['role:a', 'role:b', 'role:c', '@', '!', 'pvrec:c'])
    if r.random() < 0.5:
        body = gen_body(r, 1, ['role:a', 'role:b', 'role:c', 'role:d', 'pvrec:c', '@'])
    lower = ['rule:' + n for n in sorted(rules)]
    rules['u0'] = ('ref', 'pv-undefined')
    rules['u1'] = ('not', ('ref', r.choice(['pv-undefined', 'pv-undefined-2'])))
    rules['u2'] = gen_body(r, 2, BASE_LEAVES + lower + ['rule:pv-undefined'] * 4 + ['rule:u0', 'rule:u1'])
    backing = r.choice(['memory', 'file'])
    return dict(rules=rules, default=dname, default_mode='ctor-name' if mode == 'ctor-name' else 'option-default',
                shape=case['shape'], late_default=True, add={dname: body}, backing=backing,
                how=r.choice(LATE_ROUTES_MEMORY if backing == 'memory' else LATE_ROUTES_FILE), fmt=r.choice(['json', 'yaml']))


def check_late_default(ctx, case):
    """The rule set of a living enforcer lacks the default rule (only its name is configured): undefined references and
    unknown policy names deny.  Then the default rule gets defined - merged in, assigned, registered as a default in code
    (installed by the enforcer after the file rules), dropped into a policy directory, or added to the policy file - and
    everything is decided again: the default rule is usable now, so undefined references / unknown names decide as it does."""
    from oslo_policy import policy, _parser
    from pv.gen import files
    rules = {k: fromjson(v) for k, v in case['rules'].items()}
    add = {k: fromjson(v) for k, v in case['add'].items()}
    dname = case['default']
    texts = {k: text_of(v) for k, v in rules.items()}
    addtexts = {k: text_of(v) for k, v in add.items()}
    how = case['how']
    tree = None
    ctx.case(['late-default', texts, addtexts, how, case.get('fmt')], True, 'late-default')
    ctx.observe('late_default_routes', '%s/%s' % (how, case['default_mode']))
    try:
        if case['backing'] == 'memory':
            enf = build(policy, case, texts)
        else:
            ext = case['fmt'].split('-')[0]
            tree = files.Tree(dirs=('d1',), main='policy.' + ext)
            tree.write('policy.' + ext, texts, case['fmt'])
            kw = {'default_rule': dname} if case['default_mode'] == 'ctor-name' else {}
            enf = policy.Enforcer(tree.conf(), **kw)
            ctx.count('late_default_file_backed_cases')

        first = ctx.sub_rnd('late0', repr(sorted(texts.items()))).sample(SUBSETS, 4)

        def table(cur, phase):
            for nm in list(cur) + ['pv-unknown-policy']:
                for roles in (SUBSETS if phase else first):
                    stats = {}
                    want = ev(cur[nm] if nm in cur else ('ref', nm), cur, dname, roles, stats)
                    try:
                        got = bool(enf.enforce(nm, {}, {'roles': list(roles)}))
                    except Exception as e:
                        got = 'EXC:' + type(e).__name__
                    ctx.count('late_default_decisions')
                    if phase and stats.get('undefined'):
                        ctx.count('late_default_undefined_reference_decisions')
                    if got != want:
                        if isinstance(got, str):
                            key = 'reference-evaluation-raises'
                        elif nm not in cur:
                            key = 'unknown-policy-not-like-undefined-reference'
                        elif stats.get('undefined'):
                            key = ('undefined-reference-ignores-default-rule-defined-later' if phase else
                                   'undefined-reference-not-like-unknown-policy')
                        else:
                            key = 'reference-follows-stale-definition' if phase else 'alias-not-transparent'
                        ctx.violation(key, case, {'rules_at_first': texts, 'default_rule_name': dname, 'default_rule_defined_later': addtexts,
                                                  'how': how, 'backing': case['backing'], 'phase': 'after' if phase else 'before',
                                                  'enforced': nm, 'roles': roles, 'expected': want, 'observed': got})
                        return False
            return True
        if how == 'registered-before-first-load':
            enf.register_default(policy.RuleDefault(dname, addtexts[dname]))
        elif not table(rules, 0):                         # default rule not defined: not usable
            return
        cur = dict(rules)
        cur.update(add)
        if how == 'merge':
            enf.set_rules(policy.Rules.from_dict(addtexts), overwrite=False)
        elif how == 'update':
            enf.rules.update({k: _parser.parse_rule(v) for k, v in addtexts.items()})
        elif how == 'setitem':
            for k, v in addtexts.items():
                enf.rules[k] = _parser.parse_rule(v)
        elif how == 'registered-late':
            enf.register_default(policy.RuleDefault(dname, addtexts[dname]))
        elif how == 'policy-dir-file':
            tree.write('d1/later.' + ext, addtexts, case['fmt'])
        elif how == 'file-rewritten':
            tree.write('policy.' + ext, dict(texts, **addtexts), case['fmt'])
        table(cur, 1)
    finally:
        if tree:
            tree.cleanup()


HLOG = []          # [class index, what it was told] per call of a hierarchy check class ('<not told>' for three-argument calls)
HKINDS = ['pvh%d' % i for i in range(6)]
NOT_TOLD = '<not told>'


def _h3(self, target, creds, enforcer):
    HLOG.append([type(self).pv_index, NOT_TOLD])
    return self.match in creds['roles']


def _h4a(self, target, creds, enforcer, current_rule=None):
    HLOG.append([type(self).pv_index, current_rule])
    return self.match in creds['roles']


def _h4b(self, target, creds, enforcer, rule_name=None):
    HLOG.append([type(self).pv_index, rule_name])
    return self.match in creds['roles']


def _h4c(self, target, creds, enforcer, policy_name):
    HLOG.append([type(self).pv_index, policy_name])
    return self.match in creds['roles']


H4 = {'current_rule': _h4a, 'rule_name': _h4b, 'policy_name': _h4c}


def make_classes(policy, specs):
    """FRESH classes per case (whatever a library keeps per class must not leak from case to case): spec = parent index
    (None = the public Check class), arity 3 / 4 / 0 (0 = __call__ inherited), name of the fourth parameter."""
    classes = []
    for i, s in enumerate(specs):
        parent = policy.Check if s['parent'] is None else classes[s['parent']]
        ns = {'pv_index': i}
        if s['arity'] == 3:
            ns['__call__'] = _h3
        elif s['arity'] == 4:
            ns['__call__'] = H4[s['param']]
        classes.append(type('PvHier%d' % i, (parent,), ns))
    return classes


def eff_arity(specs, i):
    while not specs[i]['arity']:
        i = specs[i]['parent']
    return specs[i]['arity']


def gen_hierarchy(r, rseed):
    """Custom check classes in a hierarchy (3-argument base / 4-argument derived and the reverse, inherited __call__, three
    levels, several kinds sharing one base), some registered as kinds, the others only used as check objects inside the rules;
    every class sits behind references (plain, under not, at depth 2, next to a role check); the enforce calls in random order."""
    def C(parent, arity, registered):
        return dict(parent=parent, arity=arity, param=r.choice(['current_rule', 'current_rule', 'rule_name', 'policy_name']),
                    registered=bool(registered))
    form = r.choice(['base3-derived4', 'base3-derived4', 'base4-derived3', 'base4-derived3', 'kinds-sharing-a-base', 'three-levels', 'random'])
    if form in ('base3-derived4', 'base4-derived3'):
        a, b = (3, 4) if form == 'base3-derived4' else (4, 3)
        classes = [C(None, a, r.random() < 0.5), C(0, b, r.random() < 0.25)]
        if r.random() < 0.5:
            classes.append(C(r.choice([0, 1]), r.choice([3, 4, 0]), r.random() < 0.3))
    elif form == 'kinds-sharing-a-base':
        classes = [C(None, r.choice([3, 4]), r.random() < 0.3), C(0, r.choice([3, 4]), True), C(0, r.choice([3, 4, 0]), True)]
        if r.random() < 0.6:
            classes.append(C(r.choice([1, 2]), r.choice([3, 4]), False))
    elif form == 'three-levels':
        a = r.choice([3, 4])
        classes = [C(None, a, r.random() < 0.4), C(0, r.choice([0, 7 - a]), r.random() < 0.2), C(1, r.choice([3, 4]), r.random() < 0.2)]
    else:
        classes = [C(None, r.choice([3, 4]), r.random() < 0.5)]
        for i in range(1, r.randint(2, 5)):
            classes.append(C(r.choice([None] + list(range(i))), r.choice([3, 4, 0]), r.random() < 0.35))
        for c in classes:
            if c['parent'] is None and not c['arity']:
                c['arity'] = 3
    rules, objects = {}, {}

    def role():
        return ('text', 'role:' + r.choice(ROLES))
    n = len(classes)
    for i, c in enumerate(classes):
        m = r.choice(ROLES)
        rules['c%d' % i] = ('text', 'pvh%d:%s' % (i, m))
        if not c['registered'] or r.random() < 0.5:
            objects['c%d' % i] = [i, m]                 # a check object put into the store (the only way for an unregistered class)
        ref = ('ref', 'c%d' % i)
        shape = r.choice(['ref', 'not', 'and', 'or', 'alias', 'alias-not'])
        if shape.startswith('alias'):
            rules['a%d' % i] = ref if shape == 'alias' else ('not', ref)
            rules['p%d' % i] = r.choice([('ref', 'a%d' % i), ('not', ('ref', 'a%d' % i)), ('or', [role(), ('ref', 'a%d' % i)])])
        else:
            rules['p%d' % i] = {'ref': ref, 'not': ('not', ref), 'and': ('and', [role(), ref]), 'or': ('or', [ref, role()])}[shape]
        if c['registered'] and r.random() < 0.5:
            rules['q%d' % i] = (r.choice(['and', 'or']), [('text', 'pvh%d:%s' % (i, r.choice(ROLES))), ('ref', 'c%d' % r.randrange(n))])
    for k in range(r.randint(1, 2)):
        i, j = r.randrange(n), r.randrange(n)
        rules['m%d' % k] = r.choice([(r.choice(['and', 'or']), [('ref', 'c%d' % i), ('ref', 'c%d' % j)]),
                                     ('or', [('not', ('ref', 'p%d' % i)), ('ref', 'c%d' % j)]),
                                     ('and', [('ref', 'p%d' % i), ('not', ('ref', 'p%d' % j))])])
    two = r.random() < 0.4                              # a second enforcer over the same rules takes part of the calls
    order = [[nm, roles, r.randrange(2) if two else 0] for nm in sorted(rules) for roles in r.sample(SUBSETS, 3)]
    r.shuffle(order)
    return dict(hierarchy=True, form=form, classes=classes, rules=rules, objects=objects, order=order, default=None,
                default_mode='none', shape='check-class-hierarchy', rseed=rseed)


def check_hierarchy(ctx, case):
    """Every check class of the hierarchy, registered or not, derived or base, first or later in the process: a class whose
    __call__ takes a fourth argument is told the name of the policy being enforced, one that takes three is called with three;
    decisions are those of the reference evaluator."""
    from oslo_policy import policy
    specs = case['classes']
    rules = {k: fromjson(v) for k, v in case['rules'].items()}
    objects = case['objects']
    texts = {k: text_of(v) for k, v in rules.items()}
    classes = make_classes(policy, specs)
    shown = {k: ('<check object of class %d> %s' % (objects[k][0], texts[k]) if k in objects else texts[k]) for k in texts}
    described = ['%d: %s, %s%s' % (i, 'derived from %d' % s['parent'] if s['parent'] is not None else 'base',
                                   {3: '3 arguments', 4: '4 arguments (%s)' % s['param'], 0: '__call__ inherited'}[s['arity']],
                                   ', registered as pvh%d' % i if s['registered'] else ', not registered') for i, s in enumerate(specs)]
    ctx.case(['hierarchy', described, shown, case['order']], True, 'check-class-hierarchy')
    ctx.count('hierarchy_cases')
    ctx.observe('hierarchy_forms', case['form'])
    try:
        for i, s in enumerate(specs):
            if s['registered']:
                env.register_kind(HKINDS[i], classes[i])
        enfs = []
        for e in range(1 + max(o[2] for o in case['order'])):
            enf = policy.Enforcer(env.fresh_conf(), use_conf=False)
            store = policy.Rules.from_dict({k: v for k, v in texts.items() if k not in objects})
            for k, (i, m) in objects.items():
                store[k] = classes[i](HKINDS[i], m)
            enf.set_rules(store)
            enfs.append(enf)
        first = []
        history = []
        for nm, roles, e in case['order']:
            want = ev(rules[nm], rules, None, roles, {})
            del HLOG[:]
            try:
                got = bool(enfs[e].enforce(nm, {}, {'roles': list(roles)}))
            except Exception as ex:
                got = 'EXC:%s: %s' % (type(ex).__name__, str(ex)[:120])
            ctx.count('hierarchy_decisions')
            log = [list(x) for x in HLOG]
            history.append([nm, roles, e])
            for i, t in log:
                if i not in first:
                    first.append(i)
                if t is not NOT_TOLD:
                    ctx.count('hierarchy_told_observations')
                if eff_arity(specs, i) == 3:
                    ctx.count('hierarchy_three_arg_calls')
            detail = {'classes': described, 'rules': shown, 'enforced': nm, 'roles': roles, 'enforcer': e,
                      'calls_before_this_one': history[-8:-1], 'classes_in_order_of_first_evaluation': list(first)}
            if got != want:
                ctx.violation('reference-evaluation-raises' if isinstance(got, str) else 'alias-not-transparent', case,
                              dict(detail, expected=want, observed=got))
                return
            wrong = [[i, t] for i, t in log if (t is NOT_TOLD) != (eff_arity(specs, i) == 3) or (t is not NOT_TOLD and t != nm)]
            if wrong:
                ctx.violation('nested-check-told-wrong-policy-name', case, dict(detail, class_and_what_it_was_told=wrong[:4]))
                return
        # how much of the aimed history this case really had: a class evaluated after an ancestor of the other arity
        for d in first:
            a = specs[d]['parent']
            while a is not None:
                if a in first and first.index(a) < first.index(d) and eff_arity(specs, a) != eff_arity(specs, d):
                    ctx.count('hierarchy_class_evaluated_after_an_ancestor_of_other_arity')
                    if not specs[d]['registered']:
                        ctx.count('hierarchy_unregistered_class_evaluated_after_an_ancestor_of_other_arity')
                    break
                a = specs[a]['parent']
    finally:
        for k in HKINDS:
            env.unregister_kind(k)


UNLOADED_ROUTES = ['set_rules', 'set_rules', 'set_rules-explicit', 'set_rules-plain-dict', 'set_rules-merge', 'ctor-rules', 'ctor-rules']


def gen_unloaded(r, case):
    """From a generated rule set: an enforcer that never loads from configuration (use_conf=False; rules handed over with
    set_rules or to the constructor) plus defaults registered in code, which therefore never reach the rule store: new names,
    the undefined names the set already refers to, sometimes a rule moved out of the set (or the default rule itself) and a
    name the set defines as well.  References to the registered-only names: plain, under not, at depth 2, in random bodies."""
    rules = {k: fromjson(v) for k, v in case['rules'].items()}
    default = case['default']
    registered = {}
    simple = ['role:a', 'role:b', 'role:c', 'role:d', '@', '@', '!', 'pvrec:c']
    lower = ['rule:' + n for n in sorted(rules) if n != default]
    for nm in ['reg0', 'reg1']:
        registered[nm] = gen_body(r, r.randint(0, 1), simple + (lower if r.random() < 0.3 else []))
    used = {x for a in rules.values() for x in expr.refs(a)}
    for nm in sorted(used - set(rules)):
        if r.random() < 0.7:
            registered[nm] = gen_body(r, 1, simple)         # the undefined names the set refers to are registered in code
    movable = sorted(n for n in rules if n != default and n in used)
    if movable and r.random() < 0.4:
        nm = r.choice(movable)
        registered[nm] = rules.pop(nm)                      # a referenced rule exists only as a registered default
    if default and r.random() < 0.2:
        registered[default] = rules.pop(default)            # ... the default rule itself: not in the store, so not usable
    names = sorted(rules)
    if names and r.random() < 0.25:
        nm = r.choice(names)
        registered[nm] = gen_body(r, 1, simple)             # registered AND in the store: the store's definition is the current one
    regs = sorted(n for n in registered if n not in rules)
    store_lower = ['rule:' + n for n in sorted(rules) if n != default]
    rules['u0'] = ('ref', r.choice(regs))
    rules['u1'] = ('not', ('ref', r.choice(regs)))
    rules['u2'] = r.choice([('ref', 'u0'), ('ref', 'u1'), ('not', ('ref', 'u0')), ('and', [('ref', 'u0'), ('not', ('ref', 'u1'))])])
    rules['u3'] = gen_body(r, 2, BASE_LEAVES + store_lower + ['rule:' + n for n in regs] * 3 + ['rule:u0', 'rule:u1'])
    rules['u4'] = (r.choice(['and', 'or']), [('text', 'role:' + r.choice(ROLES)), r.choice([('not', ('ref', r.choice(regs))), ('ref', r.choice(regs))])])
    rules['u5'] = ('ref', 'u2')
    return dict(unloaded=True, rules=rules, registered=registered, default=default, default_mode=case['default_mode'],
                shape=case['shape'], route=r.choice(UNLOADED_ROUTES), when=r.choice(['before', 'after']),
                register_with=r.choice(['one-by-one', 'list']))


def check_unloaded(ctx, case):
    """The rule store is the only place a definition lives: a name that is registered in code but never loaded into the store
    (the enforcer does not load from configuration) is undefined, so rule:NAME behaves like enforcing the unknown policy NAME -
    the default rule if usable, otherwise deny - at any depth and under not; so does enforcing NAME directly."""
    from oslo_policy import policy
    rules = {k: fromjson(v) for k, v in case['rules'].items()}
    registered = {k: fromjson(v) for k, v in case['registered'].items()}
    default = case['default']
    texts = {k: text_of(v) for k, v in rules.items()}
    regtexts = {k: text_of(v) for k, v in registered.items()}
    route, when = case['route'], case['when']
    ctx.case(['unloaded', texts, regtexts, route, when, case['default_mode']], True, 'registered-never-loaded')
    ctx.observe('unloaded_routes', '%s/%s/%s' % (route, when, case['default_mode']))
    defaults = [policy.RuleDefault(k, regtexts[k]) for k in sorted(regtexts)]

    def register(enf):
        if case['register_with'] == 'list':
            enf.register_defaults(defaults)
        else:
            for d in defaults:
                enf.register_default(d)
    kw = ctor_kw(case)
    if route == 'ctor-rules':
        enf = policy.Enforcer(env.fresh_conf(), rules=dict(policy.Rules.from_dict(texts)), use_conf=False, **kw)
        register(enf)
    else:
        enf = policy.Enforcer(env.fresh_conf(), use_conf=False, **kw)
        if when == 'before':
            register(enf)
        if route == 'set_rules':
            enf.set_rules(policy.Rules.from_dict(texts, enf.default_rule))
        elif route == 'set_rules-explicit':
            enf.set_rules(policy.Rules.from_dict(texts, enf.default_rule), use_conf=False)
        elif route == 'set_rules-plain-dict':
            enf.set_rules(dict(policy.Rules.from_dict(texts)))
        else:
            ks = sorted(texts)
            enf.set_rules(policy.Rules.from_dict({k: texts[k] for k in ks[::2]}, enf.default_rule))
            enf.set_rules(policy.Rules.from_dict({k: texts[k] for k in ks[1::2]}), overwrite=False)
        if when == 'after':
            register(enf)
    only = sorted(n for n in registered if n not in rules)
    if any(n in enf.rules for n in only):
        # the registered names did reach the store: not the situation this stratum is about
        ctx.unconstrained('registered-default-in-the-store-of-an-enforcer-that-does-not-load')
        return
    ctx.count('unloaded_registered_cases')
    objdef = {'object_default': case['default_mode'] == 'ctor-object'}
    detail = {'rules_in_the_store': texts, 'registered_in_code_only': {k: regtexts[k] for k in only},
              'registered_and_in_the_store': {k: regtexts[k] for k in regtexts if k in rules}, 'default': default,
              'default_mode': case['default_mode'], 'rules_given_by': route, 'defaults_registered': when + ' the rules were given'}
    for nm in sorted(rules) + only + ['pv-unknown-policy']:
        for roles in SUBSETS:
            stats = dict(objdef)
            want = ev(rules[nm] if nm in rules else ('ref', nm), rules, default, roles, stats)
            del SEEN[:]
            try:
                got = bool(enf.enforce(nm, {}, {'roles': list(roles)}))
            except Exception as e:
                got = 'EXC:' + type(e).__name__
            ctx.count('unloaded_registered_decisions')
            if nm in rules and stats.get('undefined'):
                ctx.count('unloaded_registered_reference_decisions')
            if got != want:
                if isinstance(got, str):
                    key = 'reference-evaluation-raises'
                elif nm not in rules:
                    key = 'unknown-policy-not-like-undefined-reference'
                elif stats.get('undefined'):
                    key = 'undefined-reference-not-like-unknown-policy'
                else:
                    key = 'alias-not-transparent'
                ctx.violation(key, case, dict(detail, enforced=nm, roles=roles, expected=want, observed=got))
                return
            wrong = [c for c in SEEN if c != nm]
            if wrong:
                ctx.violation('nested-check-told-wrong-policy-name', case, dict(detail, enforced=nm, roles=roles, current_rule_seen=wrong[:3]))
                return


def run(ctx):
    ctx.reserve(0.8)          # the strata that come last (overlapping operations) keep a fifth of the wall budget
    install_kinds()
    try:
        n = N[ctx.tier] // ctx.nshards + 1
        for i in range(n):
            if (i & 0x3f) == 0 and ctx.expired():
                break
            case = gen_ruleset(ctx.rnd)
            check_case(ctx, case)
            if i % 3 == 0:
                # redefine one or two of the lower rules (keeps the graph acyclic: bodies without references)
                names = sorted(n for n in case['rules'] if n.startswith('n'))
                if names:
                    victims = ctx.rnd.sample(names, min(len(names), ctx.rnd.randint(1, 2)))
                    redefine = {v: gen_body(ctx.rnd, 1, ['role:a', 'role:b', 'role:c', 'role:d', '@', '!', 'pvrec:c']) for v in victims}
                    check_redefinition(ctx, dict(case, redefinition=True, redefine=redefine,
                                                 how=ctx.rnd.choice(['merge', 'update', 'setitem', 'overwrite', 'delete'])))
            if i % 6 == 1:
                # keep the Rules object, install the redefined set, install the kept object again (own random stream)
                kr = ctx.sub_rnd('K', ctx.tier, ctx.shard, i)
                names = sorted(n for n in case['rules'] if n.startswith('n'))
                if names:
                    victims = kr.sample(names, min(len(names), kr.randint(1, 2)))
                    redefine = {v: gen_body(kr, 1, ['role:a', 'role:b', 'role:c', 'role:d', '@', '!', 'pvrec:c']) for v in victims}
                    check_redefinition(ctx, dict(case, redefinition=True, redefine=redefine,
                                                 how=kr.choice(['reinstall-kept', 'reinstall-kept', 'reinstall-kept-merge'])))
            if i % 4 == 2:
                # the policies handed to enforce() as parsed check trees, with name-dependent checks below references
                check_object(ctx, gen_named(ctx.sub_rnd('T', ctx.tier, ctx.shard, i), case))
            if i % 4 == 1:
                check_tool(ctx, case)
            if i % 4 == 3:
                # custom check classes in hierarchies (fresh classes per case), enforce calls in random order
                check_hierarchy(ctx, gen_hierarchy(ctx.sub_rnd('H', ctx.tier, ctx.shard, i), 'H.%s.%d.%d' % (ctx.tier, ctx.shard, i)))
            if i % 8 == 0:
                # an enforcer that does not load from configuration + defaults registered in code that never reach the store
                check_unloaded(ctx, gen_unloaded(ctx.sub_rnd('U', ctx.tier, ctx.shard, i), case))
            if i % LATE_EVERY[ctx.tier] == 2:
                # the default rule is missing at first and gets defined later on the living enforcer
                late = gen_late_default(ctx.sub_rnd('L', ctx.tier, ctx.shard, i), case)
                if late:
                    check_late_default(ctx, late)
            if i % 300 == 0:
                ctx.sample({'rules': {k: text_of(v) for k, v in case['rules'].items()}, 'default': case['default'],
                            'shape': case['shape']})
        ctx.count('three_arg_calls', CALLS3[0])
        ctx.stratum('random', exhaustive=False)
        ctx.release()
        # two overlapping requests, last (the line-level scheduler slows everything that runs after it is installed)
        from pv.mon import sched
        ctx.stratum('overlap', exhaustive=False)
        try:
            # a request through references while the same rules are installed again (first: few cases, and they must not be
            # starved by the strata below when the budget is short)
            ctx.stratum('overlap-reinstall', exhaustive=False)
            for i in range(REINSTALLS[ctx.tier]):
                if i >= 2 and ctx.expired():        # guaranteed minima per shard: these strata have floors in MIN
                    break
                r = ctx.sub_rnd('OS', ctx.tier, ctx.shard, i)
                check_reinstall(ctx, gen_reinstall(r, REINSTALL_HOWS[(i + ctx.shard) % len(REINSTALL_HOWS)], 'S.%s.%d.%d' % (ctx.tier, ctx.shard, i)))
            ctx.reserve(0.93)                        # the aimed cases below keep the rest
            for i in range(OVERLAPS[ctx.tier]):
                if i >= 2 and ctx.expired():
                    break
                r = ctx.sub_rnd('O', ctx.tier, ctx.shard, i)
                case = gen_ruleset(r)
                names = sorted(case['rules']) + ['pv-unknown-policy']
                check_overlap(ctx, dict(case, overlap=True, a=[r.choice(names), r.choice(SUBSETS)], b=[r.choice(names), r.choice(SUBSETS)],
                                        rseed='%s.%d.%d' % (ctx.tier, ctx.shard, i), grid=OVERLAP_GRID[ctx.tier]))
            # the same, aimed at state kept per reference name: one name referenced twice or more under one and/or, role
            # sets that make it decide differently for the two requests, both requests in flight at once
            ctx.release()
            for i in range(OVERLAPS_REPEATED[ctx.tier]):
                if i >= 6 and ctx.expired():
                    break
                r = ctx.sub_rnd('OR', ctx.tier, ctx.shard, i)
                check_overlap(ctx, dict(gen_repeated(r), overlap=True, rseed='R.%s.%d.%d' % (ctx.tier, ctx.shard, i), limit=24, grid=[4, 5]))
        finally:
            sched.uninstall()
    finally:
        remove_kinds()


def replay(ctx, case):
    install_kinds()
    try:
        if case.get('overlap'):
            return check_overlap(ctx, case)
        if case.get('redefinition'):
            return check_redefinition(ctx, case)
        if case.get('reinstall'):
            return check_reinstall(ctx, case)
        if case.get('check_object'):
            return check_object(ctx, case)
        if case.get('late_default'):
            return check_late_default(ctx, case)
        if case.get('tool'):
            return check_tool(ctx, case)
        if case.get('hierarchy'):
            return check_hierarchy(ctx, case)
        if case.get('unloaded'):
            return check_unloaded(ctx, case)
        check_case(ctx, case)
    finally:
        remove_kinds()
