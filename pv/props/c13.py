"""C13 - validation flags every undefined or cyclic rule reference, and only those.

Differential monitor: Enforcer.check_rules (return value and the raising mode)
and the exit status of the validator against an independent graph analysis of
the generated rule set; for rule sets reported clean, every rule is evaluated
under a lowered recursion ceiling (bounded progress instead of "terminates")."""
import contextlib
import io
import logging
import os
import sys

from pv.core import env
from pv.gen import expr, files

ID = 'C13'
LEVEL = 'exploration'
TECHNIQUE = ('differential runtime monitor: real check_rules / validator exit status vs independent graph analysis on '
             'generated rule graphs; bounded-progress evaluation of every rule in graphs reported clean')
RULE = ('cases = rule graphs over <= 6 names, bodies from the expression generator with rule: references under '
        'and/or/not at any depth, self-loops, long cycles, diamonds, undefined names; targeted shapes: reference only '
        'under not, cycle only through not, diamond without cycle. a rule carrying the name of the default rule in 30 % of the graphs. G = check_rules() and check_rules(raise_on_violation) '
        'on in-memory rule sets; H = file-backed enforcer validated, further defaults registered late, loaded and validated again; W = oslopolicy-validator (_validate_policy, mocked _get_enforcer, global CONF) on policy '
        'files incl. missing file, unregistered name, unparseable rule. L = the validator on a LIVING enforcer: the enforcer '
        'handed to the tool has already read the policy file (load_rules / an enforce call / an earlier validator run; file '
        'valid, invalid or absent), then the file is deleted or replaced (clean, undefined / cyclic reference, unregistered '
        'name, unparseable rule; one or two such changes, mtimes advancing) and the validator runs again with that same '
        'enforcer: its verdict must be the one for the CURRENT file (fails = non-zero status or, for a deleted file, dying of '
        'an OSError); histories whose first contact found the file absent are generated but not judged (the unchanged '
        'validator keeps answering "not found"). D = graphs in which some names are registered defaults with a deprecated '
        'predecessor (renamed or same-name; enforce_new_defaults on and off; equal and differing check strings; with and '
        'without an operator override of the new name / of the old name, incl. the alias rule:<new name>; the old name '
        'sometimes still registered), the references of the graph (defined, undefined, cycle-closing, under not/and/or) '
        'sitting in the new default, in the deprecated default or in both: check_rules(), raise_on_violation, the validator '
        'and the bounded-progress clause are judged against the graph of the rules IN EFFECT by the documented override '
        'table (new-name override, else old-name override unless it is the alias, else the new default OR-ed with the '
        'deprecated default iff the flag is off and the strings differ); bad references in a default that is not in effect '
        'must not be reported; an old-name override spelled like the deprecated default is not generated. '
        'U = the validator and unregistered names that are IN USE: the file defines one to three rule names the service does '
        'not register, and other rules refer to them through rule:<name> - one or several referrers (file rules, registered '
        'defaults the file does not mention, defaults with a deprecated predecessor, further unregistered names = chains of '
        'aliases), the reference being the whole body, under not, inside and/or groups, in a group under not or nested deeper; '
        'the unregistered names themselves refer to registered rules; in 30 % of the cases the unregistered name is the name '
        'of the configured default rule (default, or policy_default_rule set to another name), referred to or not; fresh '
        'enforcer or one that has loaded / validated an earlier version of the file; the rest of the rule set is clean by '
        'construction (no undefined reference, no cycle), so the expected status is 1 for the unregistered name alone, and 0 '
        'for the control in which the service registers those names as well. '
        'R = the rule set reaches the enforcer by every public route, in layers: Enforcer(rules=...), several set_rules() calls '
        '(overwrite=True replaces, overwrite=False merges; rules added and rules replaced), a main policy file with one to three '
        'policy.d files merged over it (two directories, file-name order), set_rules(overwrite=False) after a load, constructor '
        'rules with overwrite=False under the files; registered defaults that are loaded (use_conf=True: they define the names no '
        'layer defines, and lie dormant for the others) or not loaded (use_conf=False: a registered name that set_rules() did not '
        'give is not a rule of the set, whatever its default refers to); the references of the graph point to names defined in '
        'another layer, nowhere, only by a default that was not loaded, or close a cycle ACROSS layers, and replaced definitions / '
        'dormant defaults carry bad references of their own: check_rules(), raise_on_violation and the bounded-progress clause '
        '(also whenever nothing was reported) are judged against the independent analysis of the EFFECTIVE rule set, the fold of '
        'the layers (a case whose enforcer does not hold exactly those names is counted unconstrained, not judged). '
        'Non-trivial = the graph has at least one reference; '
        'distinct = distinct rule set.')
ASSUMPTIONS = ['"evaluating any rule terminates" is restated as bounded progress: completes under recursion limit 400 '
               'for graphs of <= 6 rules (a watchdog firing would be inconclusive, not a violation)',
               'rules that legitimately reduce to a bare ! without being spelled ! are not given to the validator '
               '(its unparseable-rule heuristic and the statement do not settle them)']
LEVEL_TEXT = ('Seeded sampling of reference graphs with targeted shapes, compared with an independent DFS; every clean '
              'graph is additionally executed. The graph space is unbounded, so structured sampling is the level.')
LEVEL_NOTE = 'trusted: the independent graph analysis (own DFS over all rule: occurrences, including those under not)'
PLAN = {'quick': dict(shards=4, wall=150), 'thorough': dict(shards=16, wall=400)}
MIN = {'evaluations': 500, 'graphs_clean': 100, 'graphs_undefined': 50, 'graphs_cyclic': 50, 'validator_runs': 50,
       'clean_rule_evaluations': 1000, 'graphs_reference_under_not': 50, 'late_registration_verdicts': 200,
       'living_verdicts_judged': 100, 'living_file_deleted': 20, 'living_bad_to_clean': 10, 'living_clean_to_bad': 8,
       'deprecated_default_verdicts': 400, 'deprecated_default_or_merged': 150,
       'deprecated_default_bad_reference_only_in_or_merged_default': 50,
       'deprecated_default_bad_reference_in_default_not_in_effect': 40, 'deprecated_default_validator_runs': 60,
       'deprecated_default_clean_rule_evaluations': 2000,
       'unregistered_in_use_verdicts': 150, 'unregistered_every_name_referenced': 120, 'unregistered_controls': 40,
       'unregistered_referenced_under_not': 80, 'unregistered_referenced_by_several_rules': 60,
       'unregistered_referenced_by_alias': 25, 'unregistered_referenced_by_unregistered': 40,
       'unregistered_referenced_by_default_not_in_file': 50, 'unregistered_refers_to_registered': 20,
       'unregistered_default_rule_name': 30, 'unregistered_living_enforcer': 40,
       'routes_verdicts': 240, 'routes_constructor_rules': 60, 'routes_set_rules_merge': 110,
       'routes_policy_d_over_main_file': 110, 'routes_files_then_set_rules': 35,
       'routes_reference_to_registered_default_not_loaded': 50, 'routes_rule_defined_by_loaded_default_only': 90,
       'routes_cycle_across_layers': 30, 'routes_merge_brings_bad_reference': 25, 'routes_merge_replaces_bad_rule': 15,
       'routes_clean_rule_evaluations': 1000}
ANCHORS = ['oslo_policy.policy:Enforcer.check_rules', 'oslo_policy.policy:Enforcer._undefined_check',
           'oslo_policy.policy:Enforcer._cycle_check', 'oslo_policy.generator:_validate_policy']
REQUIRED_ANCHORS = ['oslo_policy.policy:Enforcer.check_rules']
N = {'quick': (10000, 600), 'thorough': (300000, 10000)}
N_LIVING = {'quick': 400, 'thorough': 6000}
N_DEPRECATED = {'quick': (1500, 300), 'thorough': (30000, 6000)}
ROLES = ['a', 'b']
SUBSETS = [[], ['a'], ['b'], ['a', 'b']]


def gen_body(rnd, depth, leaves):
    r = rnd.random()
    if depth <= 0 or r < 0.3:
        l = rnd.choice(leaves)
        return ('ref', l[5:]) if l.startswith('rule:') else ('text', l)
    if r < 0.5:
        return ('not', gen_body(rnd, depth - 1, leaves))
    return (rnd.choice(['and', 'or']), [gen_body(rnd, depth - 1, leaves) for _ in range(rnd.randint(2, 3))])


def gen_graph(rnd):
    shape = rnd.choice(['random'] * 6 + ['not-undef', 'not-cycle', 'diamond', 'long-cycle', 'acyclic'])
    rules = {}
    if shape == 'not-undef':
        rules['n0'] = rnd.choice([('not', ('ref', 'ghost')), ('and', [('text', 'role:a'), ('not', ('ref', 'ghost'))]),
                                  ('not', ('not', ('ref', 'ghost'))), ('not', ('or', [('text', 'role:a'), ('ref', 'ghost')]))])
        rules['n1'] = ('text', 'role:b')
    elif shape == 'not-cycle':
        k = rnd.randint(1, 4)
        for i in range(k):
            ref = ('ref', 'n%d' % ((i + 1) % k))
            rules['n%d' % i] = rnd.choice([('not', ref), ('not', ('and', [ref, ('text', 'role:a')])),
                                           ('or', [('text', 'role:a'), ('not', ref)])]) if (i == 0 or rnd.random() < 0.5) else ref
    elif shape == 'diamond':
        rules['n0'] = ('text', 'role:a')
        rules['n1'] = rnd.choice([('ref', 'n0'), ('not', ('ref', 'n0'))])
        rules['n2'] = rnd.choice([('ref', 'n0'), ('and', [('ref', 'n0'), ('ref', 'n0')])])
        rules['n3'] = (rnd.choice(['and', 'or']), [('ref', 'n1'), ('ref', 'n2'), ('ref', 'n1')])
        rules['n4'] = ('and', [('ref', 'n3'), ('not', ('ref', 'n3'))])
    elif shape == 'long-cycle':
        k = rnd.randint(2, 6)
        for i in range(k):
            ref = ('ref', 'n%d' % ((i + 1) % k))
            rules['n%d' % i] = rnd.choice([ref, ('or', [('text', 'role:a'), ref]), ('and', [ref, ('text', '@')])])
        if rnd.random() < 0.5:
            rules['entry'] = ('and', [('text', 'role:b'), ('ref', 'n0')])       # reaches the cycle without being on it
    elif shape == 'acyclic':
        k = rnd.randint(2, 6)
        for i in range(k):
            leaves = ['role:a', 'role:b', '@', '!'] + ['rule:n%d' % j for j in range(i)] * 3
            rules['n%d' % i] = gen_body(rnd, rnd.randint(0, 3), leaves)
    else:
        names = ['n%d' % i for i in range(rnd.randint(1, 6))]
        leaves = ['role:a', 'role:b', '@'] + ['rule:' + n for n in names] + (['rule:ghost'] if rnd.random() < 0.3 else [])
        for n in names:
            rules[n] = gen_body(rnd, rnd.randint(0, 3), leaves if rnd.random() < 0.7 else ['role:a', 'role:b'])
    if rnd.random() < 0.3:
        # a rule that carries the name of the default rule: the fallback for unknown NAMES must not hide undefined REFERENCES
        rules['default'] = rnd.choice([('text', 'role:a'), ('text', '@'), ('ref', 'ghost'), ('not', ('ref', 'n0')), ('ref', 'n0')])
    return dict(shape=shape, rules=rules)


def all_refs(ast, under_not=False, acc=None):
    acc = [] if acc is None else acc
    t = ast[0]
    if t == 'ref':
        acc.append((ast[1], under_not))
    elif t == 'not':
        all_refs(ast[1], True, acc)
    elif t in ('and', 'or'):
        for x in ast[1]:
            all_refs(x, under_not, acc)
    return acc


def analyse(rules):
    """Independent analysis: (undefined?, reaches a cycle?, some reference under not?)"""
    g = {n: [r for r, _ in all_refs(a)] for n, a in rules.items()}
    undefined = any(r not in rules for rs in g.values() for r in rs)

    def reaches_cycle(n):
        def dfs(x, path):
            if x in path:
                return True
            if x not in g:
                return False
            return any(dfs(y, path | {x}) for y in g[x])
        return dfs(n, frozenset())
    cyclic = any(reaches_cycle(n) for n in rules)
    under_not = any(u for a in rules.values() for _, u in all_refs(a))
    return undefined, cyclic, under_not


def text_of(ast, parent=0):
    t = ast[0]
    if t == 'text':
        return ast[1]
    if t == 'ref':
        return 'rule:' + ast[1]
    if t == 'not':
        return 'not ' + text_of(ast[1], 3)
    s = (' %s ' % t).join(text_of(x, expr.PREC[t] + 1) for x in ast[1])
    return '(' + s + ')' if expr.PREC[t] < parent else s


def fromjson(x):
    if isinstance(x, list) and x and x[0] in ('text', 'ref'):
        return (x[0], x[1])
    if isinstance(x, list) and x and x[0] == 'not':
        return ('not', fromjson(x[1]))
    if isinstance(x, list) and x and x[0] in ('and', 'or'):
        return (x[0], [fromjson(y) for y in x[1]])
    return x


def classify(undefined, cyclic, under_not, got, want):
    if want and not got:
        # clean graph reported
        return 'clean-graph-reported'
    if under_not:
        return 'reference-under-not'
    if undefined:
        return 'undefined-reference-missed'
    return 'cycle-missed'


def check_graph(ctx, case):
    from oslo_policy import policy
    rules = {k: fromjson(v) for k, v in case['rules'].items()}
    texts = {k: text_of(v) for k, v in rules.items()}
    undefined, cyclic, under_not = analyse(rules)
    problem = undefined or cyclic
    ctx.case(texts, nontrivial=any(all_refs(a) for a in rules.values()), stratum='G')
    ctx.count('graphs_undefined' if undefined else 'graphs_cyclic' if cyclic else 'graphs_clean')
    if under_not:
        ctx.count('graphs_reference_under_not')
    ctx.observe('shapes', case['shape'])
    enf = policy.Enforcer(env.fresh_conf(), use_conf=False)
    enf.set_rules(policy.Rules.from_dict(texts))
    try:
        got = enf.check_rules()
    except Exception as e:
        ctx.violation('check_rules-raises', case, {'rules': texts, 'observed': type(e).__name__})
        return
    if bool(got) != (not problem):
        ctx.violation(classify(undefined, cyclic, under_not, bool(got), not problem), case,
                      {'rules': texts, 'check_rules': got, 'independent_analysis': {'undefined': undefined, 'reaches_cycle': cyclic}})
        return
    try:
        enf.check_rules(raise_on_violation=True)
        raised = False
    except policy.InvalidDefinitionError:
        raised = True
    except Exception as e:
        raised = 'EXC:' + type(e).__name__
    if raised != problem:
        ctx.violation('raise_on_violation-disagrees', case, {'rules': texts, 'raised': raised, 'problem': problem})
    if not problem:
        # bounded progress: every rule of a clean graph evaluates under a low recursion ceiling
        old = sys.getrecursionlimit()
        depth = _depth()
        sys.setrecursionlimit(depth + 400)
        try:
            for n in rules:
                for roles in SUBSETS:
                    try:
                        enf.enforce(n, {}, {'roles': list(roles)})
                        ctx.count('clean_rule_evaluations')
                    except RecursionError:
                        ctx.violation('clean-graph-does-not-terminate', case, {'rules': texts, 'enforced': n})
                        return
                    except Exception as e:
                        ctx.violation('clean-graph-evaluation-raises', case,
                                      {'rules': texts, 'enforced': n, 'observed': type(e).__name__})
                        return
        finally:
            sys.setrecursionlimit(old)


_DEPTH = []


def _depth():
    """Current interpreter stack depth (measured once; the harness calls from a fixed depth)."""
    if not _DEPTH:
        f = sys._getframe()
        n = 0
        while f is not None:
            n += 1
            f = f.f_back
        _DEPTH.append(n + 5)
    return _DEPTH[0]


def check_late_registration(ctx, case):
    """check_rules must describe the CURRENT rule set: a file-backed enforcer is loaded and validated, then the service
    registers further defaults (which may introduce or repair undefined / cyclic references), loads again, and validates
    again."""
    from oslo_policy import policy
    rules = {k: fromjson(v) for k, v in case['rules'].items()}
    names = sorted(rules)
    late = set(case['late'])
    early = {k: v for k, v in rules.items() if k not in late}
    tree = files.Tree(dirs=())
    try:
        tree.write('policy.yaml', {k: text_of(v) for k, v in early.items()}, 'json')
        enf = policy.Enforcer(tree.conf(policy_dirs=[]))
        results = []
        for stage, cur in (('files only', early), ('after late registration', rules)):
            if stage != 'files only':
                for k in sorted(late):
                    enf.register_default(policy.RuleDefault(k, text_of(rules[k])))
            try:
                enf.load_rules()
                got = bool(enf.check_rules())
            except Exception as e:
                ctx.violation('check_rules-raises', case, {'stage': stage, 'observed': type(e).__name__})
                return
            undefined, cyclic, under_not = analyse(cur)
            ctx.count('late_registration_verdicts')
            if got != (not (undefined or cyclic)):
                ctx.violation('stale-verdict-after-late-registration' if stage != 'files only' else
                              classify(undefined, cyclic, under_not, got, not (undefined or cyclic)), case,
                              {'stage': stage, 'rules_now': {k: text_of(v) for k, v in cur.items()}, 'check_rules': got,
                               'independent_analysis': {'undefined': undefined, 'reaches_cycle': cyclic}})
                return
        ctx.case(['late', {k: text_of(v) for k, v in rules.items()}, sorted(late)], nontrivial=True, stratum='H')
    finally:
        tree.cleanup()


# ---------------------------------------------------------------------------
def check_validator(ctx, case):
    from oslo_config import cfg
    from oslo_policy import generator, opts, policy
    from unittest import mock
    rules = {k: fromjson(v) for k, v in case['rules'].items()}
    texts = {k: text_of(v) for k, v in rules.items()}
    undefined, cyclic, under_not = analyse(rules)
    fault = case['fault']
    registered = list(texts)
    # some names are defined by their registered default only (the file does not mention them): they belong to the rule
    # set that is validated just the same
    only_registered = set(case.get('only_registered', []))
    file_rules = {k: v for k, v in texts.items() if k not in only_registered}
    if fault == 'unregistered':
        file_rules['zz:unknown'] = 'role:a'
        expect_extra = True
    elif fault in ('unparseable', 'unparseable-nontext') and not file_rules:
        fault = 'none'
        expect_extra = False
    elif fault in ('unparseable', 'unparseable-nontext'):
        victim = sorted(file_rules)[0]
        file_rules[victim] = case.get('garbage', '(role:a))')
        rules = dict(rules)
        rules[victim] = ('text', '!')          # what an unparseable rule becomes
        undefined, cyclic, under_not = analyse(rules)
        expect_extra = True
    else:
        expect_extra = fault == 'missing-file'
    want = 1 if (undefined or cyclic or expect_extra) else 0
    tree = files.Tree(dirs=())
    conf = cfg.CONF
    try:
        conf([], default_config_files=[], default_config_dirs=[])
        opts._register(conf)
        path = tree.main if fault != 'missing-file' else tree.path('absent.yaml')
        tree.write(os.path.basename(tree.main), file_rules, case.get('fmt', 'yaml'))
        conf.set_override('policy_file', path, group='oslo_policy')
        conf.set_override('policy_dirs', [], group='oslo_policy')
        enf = policy.Enforcer(conf)
        enf.register_defaults([policy.RuleDefault(n, texts[n] if n in only_registered else 'role:a') for n in registered])
        out = io.StringIO()
        import stevedore
        ext = stevedore.extension.Extension(name='pv', entry_point=None, plugin=None, obj=enf)
        mgr = stevedore.named.NamedExtensionManager.make_test_instance([ext], namespace='pv')
        with mock.patch('stevedore.named.NamedExtensionManager', return_value=mgr):
            with contextlib.redirect_stdout(out):
                try:
                    got = generator._validate_policy('pv')          # what oslopolicy-validator runs
                except AttributeError:
                    got = 'EXC:validator-entry-moved'
                except Exception as e:
                    got = 'EXC:' + type(e).__name__
    finally:
        logging.disable(logging.CRITICAL)       # the validator re-enables logging
        conf.clear_override('policy_file', group='oslo_policy')
        conf.clear_override('policy_dirs', group='oslo_policy')
        tree.cleanup()
    ctx.case([file_rules, fault], nontrivial=True, stratum='W')
    ctx.count('validator_runs')
    ctx.observe('validator_outcomes', '%s->%s' % (fault, got))
    if got != want:
        if isinstance(got, str):
            key = 'validator-raises'
        elif want == 1 and fault == 'unparseable' and case.get('garbage', '').lower() in ('and', 'or', 'not', '(', ')'):
            key = 'lone-noncheck-token'
        elif want == 1 and fault != 'none':
            key = 'validator-misses-' + fault
        elif want == 1:
            key = 'reference-under-not' if under_not else 'validator-misses-bad-reference'
        else:
            key = 'validator-rejects-clean-file'
        ctx.violation(key, case, {'file': file_rules, 'fault': fault, 'exit_status': got, 'expected': want,
                                  'output': out.getvalue()[:300]})


# ---------------------------------------------------------------------------
# validator on a LIVING enforcer: the enforcer handed to the tool has read an earlier version of the policy file
UNPARSEABLE = ('unparseable', 'unparseable-nontext')


def expect_version(defaults, ver):
    """(file content or None, expected exit status, effective fault, reference under not?) for one version of the policy
    file - the expectation of check_validator spelled out on the effective rule set: what the file says, plus the
    registered default for every registered name the file does not mention."""
    if ver.get('absent'):
        return None, 1, 'missing-file', False
    asts = {k: fromjson(v) for k, v in ver['file'].items()}
    content = {k: text_of(v) for k, v in asts.items()}
    eff = dict(defaults)
    eff.update(asts)
    fault = ver.get('fault', 'none')
    extra = False
    if fault == 'unregistered':
        content[ver['extra_name']] = 'role:a'
        extra = True
    elif fault in UNPARSEABLE and not content:
        fault = 'none'
    elif fault in UNPARSEABLE:
        victim = sorted(content)[0]
        content[victim] = ver['garbage']
        eff[victim] = ('text', '!')             # what an unparseable rule becomes
        extra = True
    undefined, cyclic, under_not = analyse(eff)
    return content, (1 if (undefined or cyclic or extra) else 0), fault, under_not


def _run_validator(enf):
    """What oslopolicy-validator does with this enforcer: (exit status | 'EXC:<type>', died of an OSError?, output)."""
    from oslo_policy import generator
    from unittest import mock
    import stevedore
    out = io.StringIO()
    oserror = False
    ext = stevedore.extension.Extension(name='pv', entry_point=None, plugin=None, obj=enf)
    mgr = stevedore.named.NamedExtensionManager.make_test_instance([ext], namespace='pv')
    try:
        with mock.patch('stevedore.named.NamedExtensionManager', return_value=mgr):
            with contextlib.redirect_stdout(out):
                try:
                    got = generator._validate_policy('pv')
                except AttributeError:
                    got = 'EXC:validator-entry-moved'
                except Exception as e:
                    got = 'EXC:' + type(e).__name__
                    oserror = isinstance(e, OSError)
    finally:
        logging.disable(logging.CRITICAL)       # the validator re-enables logging
    return got, oserror, out.getvalue()


def check_validator_living(ctx, case):
    """The verdict of the validator must be the one for the CURRENT policy file, also when the enforcer it is given has
    loaded an earlier version of that file (valid, invalid or absent) and the file has been deleted / replaced since.
    fails = non-zero return value, or - for a file that is not there - dying of an OSError (traceback, exit status 1)."""
    from oslo_config import cfg
    from oslo_policy import opts, policy
    defaults = {k: fromjson(v) for k, v in case['defaults'].items()}
    versions = case['versions']
    name = 'policy.yaml'
    tree = files.Tree(dirs=(), main=name)
    conf = cfg.CONF
    history = []
    try:
        conf([], default_config_files=[], default_config_dirs=[])
        opts._register(conf)
        conf.set_override('policy_file', tree.main, group='oslo_policy')
        conf.set_override('policy_dirs', [], group='oslo_policy')
        enf = policy.Enforcer(conf)
        enf.register_defaults([policy.RuleDefault(n, text_of(a)) for n, a in sorted(defaults.items())])
        prev_want = None
        for step, ver in enumerate(versions):
            content, want, fault, under_not = expect_version(defaults, ver)
            if content is None:
                tree.delete(name)
            else:
                tree.write(name, content, ver.get('fmt', 'yaml'))
            history.append('absent' if content is None else content)
            first = case['first'] if step == 0 else 'validate'
            if first == 'enforce' and want == 0:
                # the service decides something (that loads the file); only on rule sets that are clean
                try:
                    enf.enforce(sorted(defaults)[0], {}, {'roles': ['a']})
                except Exception:
                    pass                                # evaluation is judged in stratum G, not here
                prev_want = want
                continue
            if first in ('load_rules', 'enforce'):
                try:
                    enf.load_rules()
                except Exception as e:
                    ctx.violation('living-load_rules-raises', case, {'history': history, 'observed': type(e).__name__})
                    return
                prev_want = want
                continue
            got, oserror, output = _run_validator(enf)
            kind = ('first-contact' if step == 0 else 'file-deleted' if content is None else
                    'file-created' if prev_want is None or history[-2] == 'absent' else
                    'bad-to-clean' if (prev_want, want) == (1, 0) else 'clean-to-bad' if (prev_want, want) == (0, 1) else
                    'bad-to-bad' if want else 'clean-to-clean')
            prev_want = want
            ctx.observe('living_validator_outcomes', '%s/%s->%s' % (kind, fault, got))
            if step:
                ctx.count('validator_living_runs')
                ctx.count('living_' + kind.replace('-', '_'))
            if step and versions[0].get('absent') and 'absent-at-first-contact' in STALE_ON_UNCHANGED_TREE:
                ctx.unconstrained('living-validator-file-absent-at-first-contact')
                continue
            if step:
                ctx.count('living_verdicts_judged')
            if fault == 'missing-file' and oserror:
                got = 1                                # a traceback out of the console script: exit status 1
            if got != want:
                if isinstance(got, str):
                    key = 'validator-raises'
                elif want == 1 and fault == 'unparseable' and str(ver.get('garbage', '')).lower() in ('and', 'or', 'not', '(', ')'):
                    key = 'lone-noncheck-token'
                elif want == 1 and fault != 'none':
                    key = 'validator-misses-' + fault
                elif want == 1:
                    key = 'reference-under-not' if under_not else 'validator-misses-bad-reference'
                else:
                    key = 'validator-rejects-clean-file'
                if step:
                    key = 'living-enforcer-' + key
                ctx.violation(key, case, {'history': history, 'step': step, 'change': kind, 'fault': fault, 'exit_status': got,
                                          'expected': want, 'output': output[:300]})
                return
        ctx.case(['living', case['first'], history], nontrivial=True, stratum='L')
    finally:
        logging.disable(logging.CRITICAL)
        conf.clear_override('policy_file', group='oslo_policy')
        conf.clear_override('policy_dirs', group='oslo_policy')
        tree.cleanup()


# histories in which the UNCHANGED validator itself answers for an earlier state of the file: generated and counted,
# not judged.  absent-at-first-contact: an enforcer that did not find the file at its first load keeps saying
# 'Configured policy file ... not found' (exit status 1) whatever is put there afterwards.
STALE_ON_UNCHANGED_TREE = ('absent-at-first-contact',)


def gen_living(rnd):
    g1 = gen_graph(rnd)
    names1 = sorted(g1['rules'])
    only_registered = rnd.sample(names1, rnd.randint(1, len(names1) - 1)) if (rnd.random() < 0.5 and len(names1) > 1) else []
    graphs = [g1] + [gen_graph(rnd) for _ in range(rnd.choice([1, 1, 2]))]
    defaults = {}
    for g in graphs:
        for n in g['rules']:
            defaults.setdefault(n, ('text', 'role:a'))
    for n in only_registered:
        defaults[n] = g1['rules'][n]
    versions = []
    for i, g in enumerate(graphs):
        r = rnd.random()
        if (i == 0 and r < 0.1) or (i > 0 and r < 0.3 and not versions[-1].get('absent')):
            versions.append({'absent': True})
            continue
        if i > 0 and r > 0.85 and not versions[-1].get('absent'):
            # the same rules again, with or without a fault: only the fault comes or goes
            body = dict(versions[-1]['file'])
        else:
            names = sorted(g['rules'])
            drop = set(only_registered if i == 0 else
                       (rnd.sample(names, rnd.randint(1, len(names) - 1)) if (rnd.random() < 0.4 and len(names) > 1) else []))
            body = {n: g['rules'][n] for n in names if n not in drop}
        ver = {'file': body, 'fmt': rnd.choice(['yaml', 'json']),
               'fault': rnd.choice(['none'] * 5 + ['unregistered', 'unregistered', 'unparseable', 'unparseable-nontext'])}
        if ver['fault'] == 'unregistered':
            ver['extra_name'] = rnd.choice(['zz:unknown', 'n9', 'svc:no_such_rule'])
        if ver['fault'] == 'unparseable-nontext':
            ver['garbage'] = rnd.choice([['bar'], [['bar']], 12, True, {'role': 'admin'}, 1.5])
        if ver['fault'] == 'unparseable':
            ver['garbage'] = rnd.choice(['(role:a))', 'role:a and', 'and', 'role:a role:b', '((role:a)', 'not', 'role:a or or role:b'])
        versions.append(ver)
    return dict(validator_living=True, defaults=defaults, versions=versions,
                first=rnd.choice(['load_rules', 'load_rules', 'enforce', 'validate']))


# ---------------------------------------------------------------------------
# stratum D: graphs in which some names are REGISTERED DEFAULTS WITH A DEPRECATED PREDECESSOR.  The rule that is in effect
# for such a name follows the documented override table (the one C11 monitors): an operator override of the new name; else
# an operator override of the old name, unless that override is just the alias `rule:<new name>`; else the new default,
# OR-ed with the deprecated default iff enforce_new_defaults is off and the two check strings differ.  The reference graph
# that validation has to judge is the graph of these EFFECTIVE rules, wherever the references came from.
PLAIN_TEXTS = ['role:a', 'role:b', '@']


def gen_deprecated(rnd, mode):
    g = gen_graph(rnd)
    names = sorted(g['rules'])
    leaves = PLAIN_TEXTS + ['rule:' + n for n in names] * 2 + (['rule:ghost'] if rnd.random() < 0.3 else [])
    plain = lambda: ('text', rnd.choice(PLAIN_TEXTS))
    other = lambda: gen_body(rnd, rnd.randint(0, 2), leaves) if rnd.random() < 0.5 else plain()
    chosen = [n for n in names if rnd.random() < 0.5] or [rnd.choice(names)]
    deps, plain_file, plain_registered = {}, {}, {}
    for nm in names:
        body = g['rules'][nm]
        if nm not in chosen:
            (plain_file if rnd.random() < 0.5 else plain_registered)[nm] = body
            continue
        where = rnd.choice(['new', 'new', 'old', 'old', 'both', 'same'])
        if where == 'new':
            new, old = body, plain()
        elif where == 'old':
            new, old = plain(), body
        elif where == 'both':
            new, old = body, gen_body(rnd, rnd.randint(0, 2), leaves)
        else:
            new = old = body
        renamed = rnd.random() < 0.5
        d = dict(where=where, new=new, old=old, oldname=('o_' + nm) if renamed else nm)
        if rnd.random() < 0.2:
            d['new_override'] = other()                  # the operator's file defines the new name
        if renamed:
            r = rnd.random()
            if r < 0.2:
                ov = other()
                # an old-name override spelled like the deprecated default is left open by the table; `rule:<new>` is the alias
                if text_of(ov) not in (text_of(old), 'rule:' + nm):
                    d['old_override'] = ov
            elif r < 0.3:
                d['old_override'] = ('ref', nm)          # the alias a generated sample file contains
            if rnd.random() < 0.3 or (mode == 'validator' and 'old_override' in d):
                # the old name is still a registered policy of its own (for the validator: a name in the file that the
                # service does not register is a fault of its own, which is not the subject here)
                d['old_registered'] = plain()
        deps[nm] = d
    return dict(deprecated=True, mode=mode, shape=g['shape'], flag=rnd.random() < 0.4, deps=deps, plain_file=plain_file,
                plain_registered=plain_registered, main_exists=rnd.random() < 0.8, fmt=rnd.choice(['yaml', 'json']))


def deprecated_effective(case):
    """(what the operator's file says, the rules in effect, did a deprecated default contribute?) - or None when the table
    leaves the case open (old-name override spelled exactly like the deprecated default)."""
    flag = bool(case['flag'])
    deps = {nm: dict(d, new=fromjson(d['new']), old=fromjson(d['old'])) for nm, d in case['deps'].items()}
    file = {nm: fromjson(a) for nm, a in case['plain_file'].items()}
    for nm, d in deps.items():
        if d.get('new_override') is not None:
            file[nm] = fromjson(d['new_override'])
        if d.get('old_override') is not None and d['oldname'] != nm:
            file[d['oldname']] = fromjson(d['old_override'])
    eff = dict(file)
    for nm, a in case['plain_registered'].items():
        eff.setdefault(nm, fromjson(a))
    merged = []
    for nm, d in sorted(deps.items()):
        old = d['oldname']
        if d.get('old_registered') is not None and old != nm:
            eff.setdefault(old, fromjson(d['old_registered']))
        if nm in file:
            continue                                                        # new-name override governs
        ov = file.get(old) if old != nm else None
        if ov is not None and text_of(ov) != 'rule:' + nm:
            if text_of(ov) == text_of(d['old']):
                return None
            eff[nm] = ov                                                    # old-name override governs
        elif not flag and text_of(d['new']) != text_of(d['old']):
            eff[nm] = ('or', [d['new'], d['old']])                          # new default OR-ed with the deprecated default
            merged.append(nm)
        else:
            eff[nm] = d['new']
    return file, eff, merged


def check_deprecated(ctx, case):
    from oslo_config import cfg
    from oslo_policy import opts, policy
    table = deprecated_effective(case)
    if table is None:
        ctx.unconstrained('old-override-equals-deprecated-default')
        return
    file, eff, merged = table
    flag = bool(case['flag'])
    deps = case['deps']
    undefined, cyclic, under_not = analyse(eff)
    problem = undefined or cyclic
    file_texts = {k: text_of(v) for k, v in file.items()}
    eff_texts = {k: text_of(v) for k, v in eff.items()}
    validator = case['mode'] == 'validator'

    def defaults():
        out = []
        for nm, a in sorted(case['plain_registered'].items()):
            out.append(policy.RuleDefault(nm, text_of(fromjson(a))))
        if validator:
            for nm in sorted(case['plain_file']):
                out.append(policy.RuleDefault(nm, 'role:a'))
        for nm, d in sorted(deps.items()):
            dep = policy.DeprecatedRule(d['oldname'], text_of(fromjson(d['old'])), deprecated_reason='changed',
                                        deprecated_since='1.0')
            out.append(policy.RuleDefault(nm, text_of(fromjson(d['new'])), deprecated_rule=dep))
            if d.get('old_registered') is not None and d['oldname'] != nm:
                out.append(policy.RuleDefault(d['oldname'], text_of(fromjson(d['old_registered']))))
        return out

    # where the decisive references sit
    with_merged_only = False
    if problem and merged:
        # would the set be clean if the merged defaults were opaque?  then the only bad references sit in merged defaults
        opaque = dict(eff)
        for nm in merged:
            opaque[nm] = ('text', 'role:a')
        u2, c2, _ = analyse(opaque)
        with_merged_only = not (u2 or c2)
    dormant = False
    if not problem:
        # would the set be bad if every deprecated / overridden default were in effect?  then bad references lie dormant
        naive = dict(eff)
        for nm, d in deps.items():
            naive[nm] = ('or', [fromjson(d['new']), fromjson(d['old'])])
        u2, c2, _ = analyse(naive)
        dormant = u2 or c2
    detail = {'file': file_texts, 'enforce_new_defaults': flag, 'rules_in_effect': eff_texts,
              'registered_with_deprecated_predecessor': {
                  nm: {'default': text_of(fromjson(d['new'])), 'deprecated_name': d['oldname'],
                       'deprecated_default': text_of(fromjson(d['old']))} for nm, d in deps.items()},
              'independent_analysis': {'undefined': undefined, 'reaches_cycle': cyclic}}
    ctx.case(['deprecated', case['mode'], flag, file_texts, detail['registered_with_deprecated_predecessor'],
              {k: text_of(fromjson(v)) for k, v in case['plain_registered'].items()}],
             nontrivial=any(all_refs(a) for a in eff.values()), stratum='D')
    ctx.observe('deprecated_shapes', case['shape'])

    def counted():
        ctx.count('deprecated_default_verdicts')
        ctx.count('deprecated_default_' + ('undefined' if undefined else 'cyclic' if cyclic else 'clean'))
        if merged:
            ctx.count('deprecated_default_or_merged')
        if with_merged_only:
            ctx.count('deprecated_default_bad_reference_only_in_or_merged_default')
        if dormant:
            ctx.count('deprecated_default_bad_reference_in_default_not_in_effect')
        for nm, d in deps.items():
            ov = d.get('old_override')
            ctx.observe('deprecated_rows', '%s/%s/flag=%s/new_ov=%s/old_ov=%s' % (
                d['where'], 'renamed' if d['oldname'] != nm else 'same-name', flag, d.get('new_override') is not None,
                'none' if ov is None else 'alias' if text_of(fromjson(ov)) == 'rule:' + nm else 'arbitrary'))

    if validator:
        tree = files.Tree(dirs=())
        conf = cfg.CONF
        try:
            conf([], default_config_files=[], default_config_dirs=[])
            opts._register(conf)
            tree.write(os.path.basename(tree.main), file_texts, case.get('fmt', 'yaml'))
            conf.set_override('policy_file', tree.main, group='oslo_policy')
            conf.set_override('policy_dirs', [], group='oslo_policy')
            conf.set_override('enforce_new_defaults', flag, group='oslo_policy')
            enf = policy.Enforcer(conf)
            enf.register_defaults(defaults())
            got, _, output = _run_validator(enf)
        finally:
            logging.disable(logging.CRITICAL)
            conf.clear_override('policy_file', group='oslo_policy')
            conf.clear_override('policy_dirs', group='oslo_policy')
            conf.clear_override('enforce_new_defaults', group='oslo_policy')
            tree.cleanup()
        counted()
        ctx.count('deprecated_default_validator_runs')
        ctx.observe('deprecated_validator_outcomes', '%s->%s' % ('bad' if problem else 'clean', got))
        want = 1 if problem else 0
        if got != want:
            key = ('validator-raises' if isinstance(got, str) else
                   'validator-rejects-clean-file' if want == 0 else
                   'validator-misses-bad-reference')
            ctx.violation('deprecated-default-' + key, case, dict(detail, exit_status=got, expected=want, output=output[:300]))
        return

    tree = files.Tree(dirs=())
    try:
        if file_texts or case.get('main_exists', True):
            tree.write('policy.yaml', file_texts, case.get('fmt', 'json'))
        enf = policy.Enforcer(tree.conf(policy_dirs=[], enforce_new_defaults=flag))
        try:
            enf.register_defaults(defaults())
            enf.load_rules()
            got = enf.check_rules()
        except Exception as e:
            ctx.violation('deprecated-default-check_rules-raises', case, dict(detail, observed=type(e).__name__))
            return
        counted()
        if bool(got) != (not problem):
            ctx.violation('deprecated-default-' + classify(undefined, cyclic, under_not, bool(got), not problem), case,
                          dict(detail, check_rules=got))
            return
        try:
            enf.check_rules(raise_on_violation=True)
            raised = False
        except policy.InvalidDefinitionError:
            raised = True
        except Exception as e:
            raised = 'EXC:' + type(e).__name__
        if raised != problem:
            ctx.violation('deprecated-default-raise_on_violation-disagrees', case, dict(detail, raised=raised, problem=problem))
            return
        if not problem:
            # bounded progress: every rule in effect of a set reported clean evaluates under a low recursion ceiling
            old = sys.getrecursionlimit()
            sys.setrecursionlimit(_depth() + 400)
            try:
                for n in sorted(eff):
                    for roles in SUBSETS:
                        try:
                            enf.enforce(n, {}, {'roles': list(roles)})
                            ctx.count('deprecated_default_clean_rule_evaluations')
                        except RecursionError:
                            ctx.violation('deprecated-default-clean-graph-does-not-terminate', case, dict(detail, enforced=n))
                            return
                        except Exception as e:
                            ctx.violation('deprecated-default-clean-graph-evaluation-raises', case,
                                          dict(detail, enforced=n, observed=type(e).__name__))
                            return
            finally:
                sys.setrecursionlimit(old)
    finally:
        tree.cleanup()


# ---------------------------------------------------------------------------
# stratum U: the validator and a rule name the service does not register THAT IS IN USE.  In the strata above the injected
# unregistered name is one that nothing refers to; here the operator's file defines one to three names the service does not
# register and other rules (file rules, registered defaults the file does not mention, defaults with a deprecated
# predecessor, further unregistered names) refer to them.  Everything else about the rule set is clean by construction
# (every reference points to a name defined earlier in a fixed order: no undefined reference, no cycle), so the unregistered
# name is the only reason to fail - and the control (the very same file, those names registered as well) must pass.
UNREG_POOL = ['helper', 'admin_or_owner', 'svc:alias', 'n8', 'zz:unknown', 'is_member', 'x', 'svc:get_thing']
EMBEDDINGS = ['alias', 'top-not', 'and', 'or', 'not-in-group', 'group-under-not', 'deep']
N_UNREGISTERED = {'quick': 600, 'thorough': 10000}


def embed(rnd, how, old, ref):
    """A body that keeps `old` (except for the two shapes that ARE the reference) and refers to `ref` in position `how`."""
    plain = ('text', rnd.choice(PLAIN_TEXTS))
    if how == 'alias':
        return ref
    if how == 'top-not':
        return ('not', ref)
    if how == 'and':
        return ('and', [old, ref])
    if how == 'or':
        return ('or', [ref, old])
    if how == 'not-in-group':
        return (rnd.choice(['and', 'or']), [old, ('not', ref)])
    if how == 'group-under-not':
        return ('not', (rnd.choice(['and', 'or']), [old, ref]))
    return ('or', [old, ('and', [plain, ('not', ('not', ref))])])


def gen_unregistered(rnd):
    k = rnd.randint(1, 4)
    m = rnd.randint(1, min(3, 6 - k))
    registered = ['n%d' % i for i in range(k)]
    extras = rnd.sample(UNREG_POOL, m)
    default_name = rnd.choice([None, None, None, 'fallback'])           # policy_default_rule, when it is not `default`
    unreferenced = []
    if rnd.random() < 0.3:
        # the unregistered name is the name of the configured default rule
        extras[0] = default_name or 'default'
        if rnd.random() < 0.4:
            unreferenced.append(extras[0])                                # nobody names it: it is the fallback only
    order = registered + extras
    rnd.shuffle(order)
    while order[-1] in extras and order[-1] not in unreferenced:
        order.insert(0, order.pop())                                     # somebody must come after a name that is referred to
    bodies = {}
    for i, n in enumerate(order):
        earlier = order[:i]
        leaves = PLAIN_TEXTS + ['rule:' + e for e in earlier] * 2
        if n in extras and any(e in registered for e in earlier) and rnd.random() < 0.5:
            # the unregistered name itself refers to rules the service registers
            leaves = PLAIN_TEXTS[:2] + ['rule:' + e for e in earlier if e in registered] * 3
        bodies[n] = (gen_body(rnd, rnd.randint(0, 2), leaves) if earlier and rnd.random() < 0.6 else
                     ('text', rnd.choice(PLAIN_TEXTS)))
    forced = {}
    for u in extras:
        if u in unreferenced:
            continue
        later = order[order.index(u) + 1:]
        for r in rnd.sample(later, rnd.randint(1, min(3, len(later)))):
            how = rnd.choice(EMBEDDINGS if r not in forced else EMBEDDINGS[2:])
            bodies[r] = embed(rnd, how, bodies[r], ('ref', u))
            forced.setdefault(r, []).append([u, how])
    only_registered = [n for n in registered if rnd.random() < 0.35]
    deprecated = {}
    for n in registered:
        if n in forced and rnd.random() < 0.2:
            # the referring rule is a registered default with a deprecated predecessor; the file does not mention it
            deprecated[n] = dict(oldname=rnd.choice([n, 'o_' + n]), body_in=rnd.choice(['new', 'old']),
                                 other=('text', rnd.choice(PLAIN_TEXTS)))
            if n not in only_registered:
                only_registered.append(n)
    return dict(unregistered=True, order=order, extras=extras, bodies=bodies, forced=forced, unreferenced=unreferenced,
                only_registered=sorted(only_registered), deprecated=deprecated, default_name=default_name,
                fmt=rnd.choice(['yaml', 'json']), control=rnd.random() < 0.25,
                history=rnd.choice(['fresh', 'fresh', 'fresh', 'loaded-earlier-version', 'validated-earlier-version']))


def check_unregistered(ctx, case):
    """Expected exit status of the validator: 1 - the file defines a rule name the service does not register (whoever
    refers to it); 0 for the control, in which the service registers those names too."""
    from oslo_config import cfg
    from oslo_policy import opts, policy
    bodies = {k: fromjson(v) for k, v in case['bodies'].items()}
    extras = list(case['extras'])
    only_registered = set(case['only_registered'])
    deprecated = case['deprecated']
    control = bool(case['control'])
    registered = [n for n in case['order'] if n not in extras]
    # every edge that can be in effect: the set must be clean whichever default governs
    eff = dict(bodies)
    for n, d in deprecated.items():
        eff[n] = ('or', [bodies[n], fromjson(d['other'])])
    undefined, cyclic, _ = analyse(eff)
    if undefined or cyclic:
        ctx.count('unregistered_case_not_clean')          # not generated; a hand-written replay file could be
        return
    refs_to = {u: [(n, under) for n, a in bodies.items() for r, under in all_refs(a) if r == u] for u in extras}
    file_rules = {n: text_of(bodies[n]) for n in case['order'] if n not in only_registered}
    defaults = []
    for n in registered:
        d = deprecated.get(n)
        if d is not None:
            body, other = text_of(bodies[n]), text_of(fromjson(d['other']))
            new, old = (body, other) if d['body_in'] == 'new' else (other, body)
            dep = policy.DeprecatedRule(d['oldname'], old, deprecated_reason='changed', deprecated_since='1.0')
            defaults.append(policy.RuleDefault(n, new, deprecated_rule=dep))
        else:
            defaults.append(policy.RuleDefault(n, text_of(bodies[n]) if n in only_registered else 'role:a'))
    if control:
        defaults += [policy.RuleDefault(u, 'role:a') for u in extras]
    want = 0 if control else 1
    history = case['history']
    tree = files.Tree(dirs=())
    conf = cfg.CONF
    try:
        conf([], default_config_files=[], default_config_dirs=[])
        opts._register(conf)
        name = os.path.basename(tree.main)
        if history != 'fresh':
            # an earlier version of the file: the registered names only, nothing refers to the names to come
            tree.write(name, {n: 'role:a' for n in registered if n not in only_registered}, case.get('fmt', 'yaml'))
        else:
            tree.write(name, file_rules, case.get('fmt', 'yaml'))
        conf.set_override('policy_file', tree.main, group='oslo_policy')
        conf.set_override('policy_dirs', [], group='oslo_policy')
        conf.set_override('enforce_new_defaults', False, group='oslo_policy')
        if case.get('default_name'):
            conf.set_override('policy_default_rule', case['default_name'], group='oslo_policy')
        enf = policy.Enforcer(conf)
        enf.register_defaults(defaults)
        if history != 'fresh':
            if history == 'loaded-earlier-version':
                try:
                    enf.load_rules()
                except Exception as e:
                    ctx.violation('living-load_rules-raises', case, {'observed': type(e).__name__})
                    return
            else:
                _run_validator(enf)                          # judged in stratum L
            tree.write(name, file_rules, case.get('fmt', 'yaml'))
        got, _, output = _run_validator(enf)
    finally:
        logging.disable(logging.CRITICAL)
        for opt in ('policy_file', 'policy_dirs', 'enforce_new_defaults', 'policy_default_rule'):
            conf.clear_override(opt, group='oslo_policy')
        tree.cleanup()
    default_rule = case.get('default_name') or 'default'
    ctx.case(['unregistered', file_rules, sorted(only_registered), control, history, case.get('default_name'),
              {n: [d['oldname'], d['body_in']] for n, d in deprecated.items()}], nontrivial=True, stratum='U')
    ctx.observe('unregistered_validator_outcomes', '%s/%s->%s' % ('control' if control else 'unregistered', history, got))
    for hows in case['forced'].values():
        for _, how in hows:
            ctx.observe('unregistered_reference_positions', how)
    if control:
        ctx.count('unregistered_controls')
    else:
        ctx.count('unregistered_in_use_verdicts')
        if all(refs_to[u] for u in extras):
            ctx.count('unregistered_every_name_referenced')
        if any(len({n for n, _ in refs_to[u]}) > 1 for u in extras):
            ctx.count('unregistered_referenced_by_several_rules')
        if any(under for u in extras for _, under in refs_to[u]):
            ctx.count('unregistered_referenced_under_not')
        if any(n in extras for u in extras for n, _ in refs_to[u]):
            ctx.count('unregistered_referenced_by_unregistered')
        if any(text_of(bodies[n]) == 'rule:' + u for u in extras for n, _ in refs_to[u]):
            ctx.count('unregistered_referenced_by_alias')
        if any(n in only_registered for u in extras for n, _ in refs_to[u]):
            ctx.count('unregistered_referenced_by_default_not_in_file')
        if any(r in registered for u in extras for r, _ in all_refs(bodies[u])):
            ctx.count('unregistered_refers_to_registered')
        if default_rule in extras:
            ctx.count('unregistered_default_rule_name')
        if deprecated:
            ctx.count('unregistered_referenced_by_deprecated_default')
        if history != 'fresh':
            ctx.count('unregistered_living_enforcer')
    if got != want:
        if isinstance(got, str):
            key = 'validator-raises'
        elif want == 0:
            key = 'validator-rejects-clean-file'
        elif any(refs_to[u] for u in extras):
            key = 'validator-misses-unregistered-referenced'
        else:
            key = 'validator-misses-unregistered'
        if history != 'fresh':
            key = 'living-enforcer-' + key
        ctx.violation(key, case, {'file': file_rules, 'registered': registered + (extras if control else []),
                                  'not_registered': [] if control else extras, 'default_rule': default_rule,
                                  'referred_to_by': {u: sorted({n for n, _ in refs_to[u]}) for u in extras},
                                  'history': history, 'exit_status': got, 'expected': want, 'output': output[:300]})


# ---------------------------------------------------------------------------
# stratum R: the rule set reaches the enforcer by every public ROUTE, in LAYERS.  Enforcer(rules=...), set_rules() called
# several times (overwrite=True replaces, overwrite=False merges), a main policy file with one to three policy.d files applied
# over it (each a merge), registered defaults that are loaded (use_conf=True: they define the names no layer defines) or are
# NOT loaded (use_conf=False: the enforcer holds what set_rules() gave it and nothing else, a registered name that is not in
# the set is not a rule of the set).  The report is judged against the graph of the EFFECTIVE rule set - the fold of the
# layers - wherever its rules came from: a rule that a later layer replaced does not count, a rule that a merge brought does.
ROUTES = ['ctor', 'set_rules', 'set_rules', 'files', 'files', 'files+set_rules', 'ctor+files']
REG_ONLY = ['r0', 'r1', 'svc:base', 'admin_required']
DIR_FILES = ['10-a.yaml', '20-b.json', '30-c.yaml']
N_ROUTES = {'quick': 1200, 'thorough': 30000}


def gen_routes(rnd):
    g = gen_graph(rnd)
    rules = dict(g['rules'])
    names = sorted(rules)
    route = rnd.choice(ROUTES)
    loaded = 'files' in route
    refnames = names + ['ghost']

    def stray():
        """a definition that a later layer replaces, or a registered default that is not in effect"""
        r = rnd.random()
        if r < 0.3:
            return ('text', rnd.choice(PLAIN_TEXTS))
        if r < 0.6:
            return embed(rnd, rnd.choice(EMBEDDINGS), ('text', rnd.choice(PLAIN_TEXTS)), ('ref', rnd.choice(refnames)))
        return gen_body(rnd, rnd.randint(0, 2), PLAIN_TEXTS + ['rule:' + x for x in refnames])

    registered = {}
    only_default = set()
    if loaded:
        for n in names:
            r = rnd.random()
            if r < 0.2:
                only_default.add(n)                     # no layer defines it: the registered default is the rule
                registered[n] = rules[n]
            elif r < 0.45:
                registered[n] = stray()                 # a layer defines it: this default is not in effect
        if rnd.random() < 0.3:
            x = rnd.choice(REG_ONLY)
            registered[x] = stray()                     # loaded: a rule of the set like any other
            refnames.append(x)
            n = rnd.choice(names)
            if rnd.random() < 0.6:
                rules[n] = embed(rnd, rnd.choice(EMBEDDINGS), rules[n], ('ref', x))
                if n in only_default:
                    registered[n] = rules[n]
    elif rnd.random() < 0.7:
        extra = rnd.sample(REG_ONLY, rnd.randint(1, 2))
        for x in extra:
            # registered, never loaded; it may refer back into the set
            registered[x] = rnd.choice([('text', 'role:a'), ('ref', rnd.choice(names)), ('ref', rnd.choice(extra)),
                                        embed(rnd, rnd.choice(EMBEDDINGS), ('text', 'role:b'), ('ref', rnd.choice(names)))])
        if rnd.random() < 0.75:
            for n in rnd.sample(names, rnd.randint(1, min(2, len(names)))):
                rules[n] = embed(rnd, rnd.choice(EMBEDDINGS), rules[n], ('ref', rnd.choice(extra)))
        for n in names:
            if rnd.random() < 0.25:
                registered[n] = stray()
    nlayers = rnd.randint(1, 4) if not loaded else rnd.randint(2, 4)
    layers = [{} for _ in range(nlayers)]
    for n in names:
        if n in only_default:
            continue
        home = rnd.randrange(nlayers)
        layers[home][n] = rules[n]
        for j in range(home):
            if rnd.random() < 0.35:
                layers[j][n] = stray()
    case = dict(routes=True, route=route, shape=g['shape'], registered=registered, use_conf=loaded, enforcer_overwrite=True,
                ctor=None, main=None, dirs=[], calls=[], plain_dict=rnd.random() < 0.3)

    def junk():
        return [dict(rules=gen_graph(rnd)['rules'], overwrite=rnd.random() < 0.5) for _ in range(rnd.randint(0, 2))]

    def files_from(ls):
        if not ls:
            return
        if rnd.random() < 0.85:
            case['main'] = dict(rules=ls[0], fmt=rnd.choice(['yaml', 'json']))
            ls = ls[1:]
        ls = ls[:3]
        k = rnd.randint(0, len(ls))
        case['dirs'] = [[[DIR_FILES[i], l] for i, l in enumerate(ls[:k])], [[DIR_FILES[i], l] for i, l in enumerate(ls[k:])]]

    if route == 'set_rules':
        case['calls'] = junk()
        first_overwrite = True if case['calls'] else rnd.random() < 0.7
        case['calls'] += [dict(rules=layers[0], overwrite=first_overwrite)] + [dict(rules=l, overwrite=False) for l in layers[1:]]
    elif route == 'ctor':
        if rnd.random() < 0.3:
            case['ctor'] = gen_graph(rnd)['rules']
            case['calls'] = junk() + [dict(rules=layers[0], overwrite=True)]
        else:
            case['ctor'] = layers[0]
        case['calls'] += [dict(rules=l, overwrite=False) for l in layers[1:]]
    elif route == 'files':
        files_from(layers)
    elif route == 'files+set_rules':
        files_from(layers[:-1])
        case['calls'] = [dict(rules=layers[-1], overwrite=False)]
    else:
        case['ctor'] = layers[0]
        case['enforcer_overwrite'] = False              # the files are merged over what the constructor was given
        files_from(layers[1:])
    return case


def routes_stages(case):
    """The fold of the layers: [(what happened, 'replace' | 'merge' | 'defaults', rule set after it)]."""
    J = lambda d: {k: fromjson(v) for k, v in d.items()}
    stages = []
    eff = {}
    if case.get('ctor') is not None:
        eff = J(case['ctor'])
        stages.append(('Enforcer(rules=...)', 'replace', dict(eff)))
    if case['use_conf']:
        keep = not case.get('enforcer_overwrite', True)
        if case.get('main') is not None:
            eff = dict(eff, **J(case['main']['rules'])) if keep else J(case['main']['rules'])
            stages.append(('main policy file', 'merge' if keep else 'replace', dict(eff)))
        elif not keep:
            eff = {}
        for d in case.get('dirs', []):
            for fname, l in sorted(d):
                eff = dict(eff, **J(l))
                stages.append(('policy.d file ' + fname, 'merge', dict(eff)))
        for n, a in J(case['registered']).items():
            eff.setdefault(n, a)
        stages.append(('registered defaults', 'defaults', dict(eff)))
    for c in case.get('calls', []):
        eff = J(c['rules']) if c['overwrite'] else dict(eff, **J(c['rules']))
        stages.append(('set_rules(overwrite=%s)' % bool(c['overwrite']), 'replace' if c['overwrite'] else 'merge', dict(eff)))
    return stages, eff


def _recursion_in(exc):
    seen = 0
    while exc is not None and seen < 50:
        if isinstance(exc, RecursionError):
            return True
        exc = exc.__cause__ or exc.__context__
        seen += 1
    return False


def check_routes(ctx, case):
    from oslo_policy import policy
    stages, eff = routes_stages(case)
    registered = {k: fromjson(v) for k, v in case['registered'].items()}
    texts = {k: text_of(v) for k, v in eff.items()}
    undefined, cyclic, under_not = analyse(eff)
    problem = undefined or cyclic
    T = lambda d: {k: text_of(fromjson(v)) for k, v in d.items()}
    as_rules = lambda d: (dict(policy.Rules.from_dict(T(d))) if case.get('plain_dict') else policy.Rules.from_dict(T(d)))
    detail = {'route': case['route'], 'layers': [[what, kind] for what, kind, _ in stages], 'rules_in_effect': texts,
              'registered_defaults': T(case['registered']), 'registered_defaults_loaded': bool(case['use_conf']),
              'independent_analysis': {'undefined': undefined, 'reaches_cycle': cyclic}}
    # (no sandbox tree for the routes that never look at a file: use_conf=False)
    tree = files.Tree(dirs=()) if case['use_conf'] else None
    try:
        if case.get('main') is not None:
            tree.write(os.path.basename(tree.main), T(case['main']['rules']), case['main'].get('fmt', 'yaml'))
        for dname, d in zip(('d1', 'd2'), case.get('dirs', [])):
            if d:
                tree.mkdir(dname)
            for fname, l in d:
                tree.write(dname + '/' + fname, T(l), 'json' if fname.endswith('.json') else 'yaml')
        try:
            kw = {}
            if case.get('ctor') is not None:
                kw['rules'] = as_rules(case['ctor'])
            enf = policy.Enforcer(tree.conf() if tree else env.fresh_conf(), use_conf=bool(case['use_conf']),
                                  overwrite=bool(case.get('enforcer_overwrite', True)), **kw)
            enf.register_defaults([policy.RuleDefault(n, text_of(a)) for n, a in sorted(registered.items())])
            if case['use_conf']:
                enf.load_rules()
            for c in case.get('calls', []):
                enf.set_rules(as_rules(c['rules']), overwrite=bool(c['overwrite']))
            held = set(enf.rules)
            got = enf.check_rules()
        except Exception as e:
            ctx.violation('routes-check_rules-raises', case, dict(detail, observed=type(e).__name__))
            return
        ctx.case(['routes', case['route'], [[w, T_(s)] for w, _, s in stages], T(case['registered'])],
                 nontrivial=any(all_refs(a) for a in eff.values()), stratum='R')
        if held != set(eff):
            # which names the enforcer holds after these steps is the subject of other properties (C09, C12): not judged here
            ctx.unconstrained('routes-rule-set-differs-from-the-fold-of-the-layers')
            return
        ctx.count('routes_verdicts')
        ctx.count('routes_' + ('undefined' if undefined else 'cyclic' if cyclic else 'clean'))
        ctx.observe('routes_shapes', '%s/%s' % (case['route'], case['shape']))
        merges = [i for i, (_, kind, _) in enumerate(stages) if kind == 'merge' and i > 0]
        if case.get('ctor') is not None:
            ctx.count('routes_constructor_rules')
        if any(i for i in merges if stages[i][0].startswith('set_rules')):
            ctx.count('routes_set_rules_merge')
        if any(i for i in merges if stages[i][0].startswith('policy.d')):
            ctx.count('routes_policy_d_over_main_file')
        if case['use_conf'] and case.get('calls'):
            ctx.count('routes_files_then_set_rules')
        if merges:
            before = analyse(stages[merges[-1] - 1][2])
            after = analyse(stages[merges[-1]][2])
            if not (before[0] or before[1]) and (after[0] or after[1]):
                ctx.count('routes_merge_brings_bad_reference')
            if (before[0] or before[1]) and not (after[0] or after[1]):
                ctx.count('routes_merge_replaces_bad_rule')
        sources = [s for s in ([case.get('ctor')] + [(case.get('main') or {}).get('rules')] +
                               [l for d in case.get('dirs', []) for _, l in d] + [c['rules'] for c in case.get('calls', [])])
                   if s]
        if cyclic and not any(analyse({k: fromjson(v) for k, v in s.items()})[1] for s in sources):
            ctx.count('routes_cycle_across_layers')
        if not case['use_conf'] and any(r in registered and r not in eff for a in eff.values() for r, _ in all_refs(a)):
            ctx.count('routes_reference_to_registered_default_not_loaded')
        if case['use_conf'] and any(n in registered and not any(n in s for s in sources) for n in eff):
            ctx.count('routes_rule_defined_by_loaded_default_only')
        old = sys.getrecursionlimit()

        def evaluate(key_hang, key_raises):
            """bounded progress: every rule of a set reported clean evaluates under a low recursion ceiling"""
            sys.setrecursionlimit(_depth() + 400)
            try:
                for n in sorted(eff):
                    for roles in SUBSETS:
                        try:
                            enf.enforce(n, {}, {'roles': list(roles)})
                            ctx.count('routes_clean_rule_evaluations')
                        except Exception as e:
                            if _recursion_in(e):
                                ctx.violation(key_hang, case, dict(detail, check_rules=got, enforced=n))
                            else:
                                ctx.violation(key_raises, case, dict(detail, enforced=n, observed=type(e).__name__))
                            return
            finally:
                sys.setrecursionlimit(old)

        if bool(got) != (not problem):
            ctx.violation('routes-' + classify(undefined, cyclic, under_not, bool(got), not problem), case,
                          dict(detail, check_rules=got))
            if got:
                # nothing was reported: then evaluating any rule must terminate, whatever the analysis says
                evaluate('routes-nothing-reported-does-not-terminate', 'routes-nothing-reported-evaluation-raises')
            return
        try:
            enf.check_rules(raise_on_violation=True)
            raised = False
        except policy.InvalidDefinitionError:
            raised = True
        except Exception as e:
            raised = 'EXC:' + type(e).__name__
        if raised != problem:
            ctx.violation('routes-raise_on_violation-disagrees', case, dict(detail, raised=raised, problem=problem))
            return
        if not problem:
            evaluate('routes-clean-set-does-not-terminate', 'routes-clean-set-evaluation-raises')
    finally:
        if tree:
            tree.cleanup()


def T_(d):
    return {k: text_of(v) for k, v in d.items()}


def run(ctx):
    # stratum R first (own random stream; a bounded share of the budget, so that it is not the one lost under load)
    rnd = ctx.sub_rnd('routes', ctx.tier, ctx.shard, ctx.nshards)
    ctx.reserve(0.2)
    for i in range(N_ROUTES[ctx.tier] // ctx.nshards + 1):
        if (i & 0xf) == 0 and ctx.expired():
            break
        case = gen_routes(rnd)
        check_routes(ctx, case)
        if i % 100 == 0:
            ctx.sample({'route': case['route'], 'layers': [[w, T_(s)] for w, _, s in routes_stages(case)[0]],
                        'registered': {k: text_of(fromjson(v)) for k, v in case['registered'].items()}}, 'R')
    # every later stratum keeps a share too: the shares are cumulative fractions of the wall budget (a loaded machine cut
    # strata D and U, which come last, to nothing: exit 2 on a behaviour-preserving refactoring, see DESIGN section 10)
    ctx.reserve(0.5)
    ng, nw = N[ctx.tier]
    for i in range(ng // ctx.nshards + 1):
        if (i & 0x3f) == 0 and ctx.expired():
            break
        case = gen_graph(ctx.rnd)
        check_graph(ctx, case)
        if i % 4 == 0 and len(case['rules']) > 1:
            names = sorted(case['rules'])
            late = ctx.rnd.sample(names, ctx.rnd.randint(1, len(names) - 1))
            check_late_registration(ctx, dict(case, late_registration=True, late=late))
        if i % 500 == 0:
            ctx.sample({'rules': {k: text_of(fromjson(v)) for k, v in case['rules'].items()}, 'shape': case['shape']}, 'G')
    ctx.reserve(0.65)
    for i in range(nw // ctx.nshards + 1):
        if (i & 0xf) == 0 and ctx.expired():
            break
        case = gen_graph(ctx.rnd)
        case['validator'] = True
        case['fault'] = ctx.rnd.choice(['none'] * 5 + ['missing-file', 'unregistered', 'unparseable', 'unparseable-nontext'])
        if ctx.rnd.random() < 0.5 and len(case['rules']) > 1:
            names = sorted(case['rules'])
            case['only_registered'] = ctx.rnd.sample(names, ctx.rnd.randint(1, len(names) - 1))
        case['fmt'] = ctx.rnd.choice(['yaml', 'json'])
        if case['fault'] == 'unparseable-nontext':
            # a wholly unparseable rule need not be text
            case['garbage'] = ctx.rnd.choice([['bar'], [['bar']], 12, True, {'role': 'admin'}, 1.5])
        if case['fault'] == 'unparseable':
            case['garbage'] = ctx.rnd.choice(['(role:a))', 'role:a and', 'and', 'role:a role:b', '((role:a)', 'not', 'role:a or or role:b'])
        check_validator(ctx, case)
        if i % 60 == 0:
            ctx.sample({'file': {k: text_of(fromjson(v)) for k, v in case['rules'].items()}, 'fault': case['fault']}, 'W')
    ctx.reserve(0.75)
    for i in range(N_LIVING[ctx.tier] // ctx.nshards + 1):
        if (i & 0xf) == 0 and ctx.expired():
            break
        case = gen_living(ctx.rnd)
        check_validator_living(ctx, case)
        if i % 40 == 0:
            ctx.sample({'first': case['first'], 'versions': [expect_version(case['defaults'], v)[0] or 'absent'
                                                              for v in case['versions']]}, 'L')
    # stratum D has its own random stream: what it draws does not depend on how far the strata above got
    rnd = ctx.sub_rnd('deprecated', ctx.tier, ctx.shard, ctx.nshards)
    ctx.reserve(0.9)
    nd, ndw = N_DEPRECATED[ctx.tier]
    for i in range((nd + ndw) // ctx.nshards + 1):
        if (i & 0xf) == 0 and ctx.expired():
            break
        case = gen_deprecated(rnd, 'validator' if i % 6 == 5 else 'check_rules')      # 5 : 1, like nd : ndw
        check_deprecated(ctx, case)
        if i % 100 == 0:
            t = deprecated_effective(case)
            if t:
                ctx.sample({'mode': case['mode'], 'enforce_new_defaults': case['flag'],
                            'file': {k: text_of(v) for k, v in t[0].items()},
                            'in_effect': {k: text_of(v) for k, v in t[1].items()}}, 'D')
    # stratum U has its own random stream too
    rnd = ctx.sub_rnd('unregistered', ctx.tier, ctx.shard, ctx.nshards)
    ctx.release()
    for i in range(N_UNREGISTERED[ctx.tier] // ctx.nshards + 1):
        if (i & 0xf) == 0 and ctx.expired():
            break
        case = gen_unregistered(rnd)
        check_unregistered(ctx, case)
        if i % 60 == 0:
            ctx.sample({'file': {n: text_of(fromjson(a)) for n, a in case['bodies'].items() if n not in case['only_registered']},
                        'defaults_not_in_file': {n: text_of(fromjson(case['bodies'][n])) for n in case['only_registered']},
                        'not_registered': [] if case['control'] else case['extras'], 'history': case['history']}, 'U')
    ctx.stratum('random', exhaustive=False)


def replay(ctx, case):
    if case.get('routes'):
        check_routes(ctx, case)
    elif case.get('unregistered'):
        check_unregistered(ctx, case)
    elif case.get('deprecated'):
        check_deprecated(ctx, case)
    elif case.get('validator_living'):
        check_validator_living(ctx, case)
    elif case.get('late_registration'):
        check_late_registration(ctx, case)
    elif case.get('validator'):
        check_validator(ctx, case)
    else:
        check_graph(ctx, case)
