"""C17 - a generated sample policy file overrides nothing and states every default.

Monitor: the real sample generator (oslopolicy-sample-generator's
console entry generate_sample, fed through a stevedore test manager) is run on generated
lists of defaults; its output is re-read with independent parsers (PyYAML,
json) and with the library's own Rules.load."""
import json
import os
import re
import tempfile
from unittest import mock

import yaml

from pv.core import env

ID = 'C17'
LEVEL = 'exploration'
TECHNIQUE = ('runtime monitor on the real sample generator: generated RuleDefault lists with hostile descriptions; output '
             're-read with PyYAML / json / Rules.load and compared with the registered defaults; two overlapping generations under a '
             'deterministic two-thread scheduler')
RULE = ('cases = lists of 1-6 RuleDefault / DocumentedRuleDefault objects (plain, documented with operations and scope '
        'types, deprecated for removal, renamed, changed default under the same name); names and check strings over the '
        'rule alphabet incl. single-quoted literals, %(key)s, #, colons, non-ASCII (printable, no double quote / backslash); '
        'descriptions and reasons from printable Unicode plus newlines (LF, CRLF, bare CR, NEL, LS, PS), tabs, #, quotes, colons, ---, list markers, '
        'leading whitespace (literal blocks), >70-column words, emoji; YAML and JSON output; with and without '
        'exclude-deprecated; defaults spread over 1-4 namespaces some of which register nothing; output written to a fresh path or '
        'over an existing longer file of an earlier run. Non-trivial = some description/reason contains a line break, a YAML-significant character or '
        'an over-long word; distinct = distinct (defaults, options). Stratum `overlap`: two generations with different sets of defaults '
        '(yaml / json, file + file, file + standard output) run at the same time in one process as two threads under the deterministic scheduler, the first '
        'pre-empted at sampled library line boundaries while the second runs to completion or up to one of its own boundaries (both in flight): each '
        'sample must be byte for byte what the same generation yields when run alone, and that one is judged by the oracles above.')
ASSUMPTIONS = ['rule lines are recognised by ^#" (pinned literally by the repository\'s GenerateSampleYAMLTestCase)',
               'operation paths, methods, scope types and deprecated_since are single-line printable strings (quantifier)',
               'the sample generator is driven with include_help on, as the console script does']
LEVEL_TEXT = ('Seeded sampling of default lists with an adversarial text generator; every output is parsed by two independent '
              'parsers and by the library loader. The description space is unbounded text, so adversarial sampling is the level.')
LEVEL_NOTE = 'trusted: PyYAML and json as independent readers of the generated text'
PLAN = {'quick': dict(shards=4, wall=120), 'thorough': dict(shards=16, wall=400)}
MIN = {'evaluations': 1000, 'yaml_samples': 500, 'json_samples': 300, 'hostile_descriptions': 500, 'deprecated_entries': 300, 'multi_namespace_samples': 100, 'regenerated_over_existing_file': 100,
       'overlapping_generations': 60, 'overlapping_generations.both_in_flight': 30}
ANCHORS = ['oslo_policy.generator:_format_help_text', 'oslo_policy.generator:_format_rule_default_yaml',
           'oslo_policy.generator:_format_rule_default_json', 'oslo_policy.generator:_generate_sample',
           'oslo_policy.generator:_sort_and_format_by_section', 'oslo_policy.generator:generate_sample']
REQUIRED_ANCHORS = ['oslo_policy.generator:generate_sample']
N = {'quick': 4000, 'thorough': 400000}

TEXT = ['a', 'b', 'Z', ' ', '  ', '\n', '\n\n', '\t', '#', ':', '"', "'", '-', '|', '>', '%', '{', '}', '[', ']', ',', '&',
        '*', '!', '@', '`', '\r\n', 'é', 'ß', '日', '😀', ' ', 'x' * 80, '\\', '?', '- ', ': ', ' #', '---', '...',
        '　', 'word', 'Create a server.', '\n    indented literal', '\n\n  * bullet', '%(x)s', '"name": "rule"', '\n"x": "@"',
        '\n#"x": "@"', "\n'", '\n- a', '\n? q', '\n!!python/object', '{{', '}}', '\n...\n', '\n---\n', 'y' * 71, ' ' * 75,
        '\n \n', '\n\t\n', 'k: v\n', '\r', '\r', '\n  lit\rx: y', '\x85', '\u2028', '\u2029', '\n  a\u2028"k": "@"', '\n: ', '<<', '&a', '*a', '%TAG']
NAMECH = list('abcxyz019') + [':', ':', '_', '-', '.', '/', 'é', 'ü', '*', '+', '\U0001F600', '\U00010348', '\U00020BB7', '\U0002A6A5', '\U00030000']     # incl. printable characters outside the basic plane (planes 1, 2 and 3)
CHECKS = ['role:a', "'x':%(y)s or role:b", '', '@', '!', 'rule:z and not role:q', "(role:a or 'Member':%(role.name)s) and not rule:r",
          'project_id:%(project_id)s', 'role:a#b', 'http://h/%(n)s', 'is_admin:True or (role:é and k:v)', "role:it's", 'a:b,c', 'x:{y}',
          'tenant:%(tenant_id)s  or   role:spaced', 'rule:admin_required', 'user_id:%(user.id)s', '[role:a]', 'not @', 'role:  a',
          ' or '.join('role:member_of_group_%d' % i for i in range(9)),
          '(role:admin and project_id:%(project_id)s) or (role:member and user_id:%(user_id)s) or rule:a_rather_long_rule_name_here',
          'x:' + 'y' * 90 + ' or role:z', 'role:' + 'a' * 120,
          # printable characters outside the basic multilingual plane (a JSON escape spells them as a surrogate pair)
          'role:\U0001F600', "'\U0001D518':%(k)s or role:\U00010348x", 'rule:\U0001F680_team and not role:a', 'role:\U00020BB7', "'\U0002A6A5x':%(k)s or role:\U00030000"]


def gen_text(rnd, n):
    return ''.join(rnd.choice(TEXT) for _ in range(rnd.randint(0, n)))


def gen_name(rnd, i):
    n = 'svc%d:' % i + ''.join(rnd.choice(NAMECH) for _ in range(rnd.randint(1, 8)))
    if rnd.random() < 0.1:
        n += ':' + 'long_policy_name_segment_' * 3 + 'x'          # a name that pushes the rule line past 80 columns
    return n


def gen_default_spec(rnd, i):
    kind = rnd.choice(['plain', 'documented', 'removal', 'renamed', 'changed'])
    spec = dict(kind=kind, name=gen_name(rnd, i), check=rnd.choice(CHECKS), desc=gen_text(rnd, 10),
                reason=gen_text(rnd, 8), since=rnd.choice(['1.0 (x)', 'Train', '2024.1: "q"', "S'", '#5']))
    if kind == 'documented':
        spec['ops'] = [{'path': rnd.choice(['/p/{id}#x', '/v2/servers', '/a b', '/é', '/%(x)s']), 'method': rnd.choice(['GET', 'POST', 'get '])}
                       for _ in range(rnd.randint(1, 3))]
        spec['scope'] = rnd.choice([None, ['system'], ['system', 'project'], ['domain']])
    if kind in ('renamed', 'changed'):
        spec['old_check'] = rnd.choice(CHECKS)
        spec['old_name'] = gen_name(rnd, 100 + i) if kind == 'renamed' else spec['name']
    return spec


def build_default(policy, spec):
    k = spec['kind']
    if k == 'plain':
        return policy.RuleDefault(spec['name'], spec['check'], description=spec['desc'] or None)
    if k == 'documented':
        return policy.DocumentedRuleDefault(spec['name'], spec['check'], spec['desc'] or 'd', spec['ops'], scope_types=spec['scope'])
    if k == 'removal':
        return policy.RuleDefault(spec['name'], spec['check'], description=spec['desc'], deprecated_for_removal=True,
                                  deprecated_reason=spec['reason'], deprecated_since=spec['since'])
    dep = policy.DeprecatedRule(spec['old_name'], spec['old_check'], deprecated_reason=spec['reason'] or 'r', deprecated_since=spec['since'])
    return policy.RuleDefault(spec['name'], spec['check'], description=spec['desc'], deprecated_rule=dep)


def hostile(s):
    return bool(s) and (('\n' in s) or ('\r' in s) or any(c in s for c in '#:"\'-|>%{}[]&*!@`') or any(len(w) > 70 for w in s.split()))


def check_case(ctx, case):
    import stevedore
    from oslo_policy import generator, policy
    try:
        defaults = [build_default(policy, s) for s in case['specs']]
    except Exception:
        ctx.count('invalid_default_specs')
        return
    names = [d.name for d in defaults]
    if len(set(names)) != len(names):
        return
    expected = {d.name: d.check_str for d in defaults}
    # the defaults are spread over several namespaces; some namespaces register nothing
    split = case.get('namespaces') or [len(defaults)]
    exts, pos = [], 0
    for i, n in enumerate(split):
        exts.append(stevedore.extension.Extension(name='pv%d' % i, entry_point=None, plugin=None, obj=defaults[pos:pos + n]))
        pos += n
    exts[-1].obj.extend(defaults[pos:])
    mgr = stevedore.named.NamedExtensionManager.make_test_instance(exts, namespace=[e.name for e in exts])
    tmp = tempfile.mkdtemp(prefix='pvsample-')
    out = os.path.join(tmp, 'sample.' + case['fmt'])
    if case.get('stale_output'):
        # the tool is re-run over an existing, longer file from an earlier run
        with open(out, 'w') as f:
            f.write(('"zz:stale": "@"\n# old comment line that is fairly long\n' * 400) if case['fmt'] == 'yaml' else ('{"zz:stale": "@"}' + ' ' * 60000))
        ctx.count('regenerated_over_existing_file')
    if len(split) > 1:
        ctx.count('multi_namespace_samples')
    try:
        try:
            with mock.patch('stevedore.named.NamedExtensionManager', return_value=mgr):
                from oslo_config import cfg
                args = ['--output-file', out, '--format', case['fmt']]
                for e in exts:
                    args += ['--namespace', e.name]
                if case['exclude']:
                    args.append('--exclude-deprecated')
                generator.generate_sample(args, conf=cfg.ConfigOpts())        # oslopolicy-sample-generator
            with open(out, encoding='utf-8') as f:
                text = f.read()
        except Exception as e:
            ctx.violation('sample-generator-raises', case, {'observed': type(e).__name__ + ': ' + str(e)[:120]})
            return
    finally:
        import shutil
        shutil.rmtree(tmp, ignore_errors=True)
    is_hostile = any(hostile(s.get('desc')) or hostile(s.get('reason')) for s in case['specs'])
    ctx.case(case, nontrivial=is_hostile, stratum=case['fmt'])
    if is_hostile:
        ctx.count('hostile_descriptions')
    ctx.count('deprecated_entries', sum(1 for s in case['specs'] if s['kind'] in ('removal', 'renamed', 'changed')))
    ctx.count('json_samples' if case['fmt'] == 'json' else 'yaml_samples')
    judge(ctx, case, case, text, expected)


def judge(ctx, case, gen, text, expected):
    """The statement's oracles on one generated text.  gen = the generation (specs, fmt) that produced it, case = the
    replayable case the finding is reported under (the same thing for a single generation)."""
    from oslo_policy import policy
    if gen['fmt'] == 'json':
        try:
            got = json.loads(text)
        except Exception as e:
            ctx.violation('json-sample-not-valid-json', case, {'error': str(e)[:100], 'text': text[:300]})
            return
        if got != expected:
            ctx.violation('json-sample-not-the-default-mapping', case, {'expected': expected, 'observed': got})
        return
    lines = text.split('\n')
    for ln in lines:
        if ln.strip() and not ln.startswith('#'):
            ctx.violation('yaml-sample-has-active-line', case, {'line': ln[:200]})
            return
    try:
        loaded = yaml.safe_load(text)
    except Exception as e:
        ctx.violation('yaml-sample-not-valid-yaml', case, {'error': str(e)[:150]})
        return
    if loaded is not None:
        ctx.violation('yaml-sample-overrides-something', case, {'loaded': repr(loaded)[:200]})
        return
    try:
        rules = policy.Rules.load(text)
    except Exception as e:
        ctx.violation('yaml-sample-not-a-valid-policy-file', case, {'error': type(e).__name__ + ': ' + str(e)[:100]})
        return
    if len(rules) != 0:
        ctx.violation('yaml-sample-overrides-something', case, {'rules': sorted(rules)})
        return
    un = '\n'.join(l[1:] if l.startswith('#"') else l for l in lines)
    try:
        mapping = yaml.safe_load(un)
    except Exception as e:
        ctx.violation('uncommented-sample-not-valid-yaml', case, {'error': str(e)[:150], 'specs': gen['specs']})
        return
    if mapping != expected:
        ctx.violation('uncommented-sample-not-the-default-mapping', case, {'expected': expected, 'observed': mapping})


OVERLAPS = {'quick': 4, 'thorough': 60}          # pairs of generations per shard
OVERLAP_KS = {'quick': 10, 'thorough': 40}       # sampled pre-emption points of the first generation per pair
OUTS = [('file', 'file'), ('file', 'stdout'), ('stdout', 'file')]
KEY_OVERLAP = 'sample-depends-on-a-concurrent-generation'


def gen_generation(rnd):
    specs = [gen_default_spec(rnd, j) for j in range(rnd.randint(1, 4))]
    g = dict(specs=specs, fmt='yaml' if rnd.random() < 0.6 else 'json', exclude=rnd.random() < 0.3)
    if rnd.random() < 0.3:
        take = rnd.randint(0, len(specs))
        g['namespaces'] = [take, len(specs) - take]
    return g


def run_pair(case, plan, tmp, n):
    """One execution of the two generations a / b of `case` (each the console entry generate_sample with its own defaults,
    namespaces, options, ConfigOpts and output) as threads A / B under the scheduler.  The process's standard output is a
    recorder for the duration; files go to fresh paths (number n) in the directory tmp.  -> ([sample a, sample b], [how a ended, how b ended], Run)"""
    import io
    import sys
    import stevedore
    from oslo_config import cfg
    from oslo_policy import generator, policy
    from pv.mon import sched
    mgrs, funcs, paths = {}, {}, {}
    for tag in ('a', 'b'):
        g = case[tag]
        defaults = [build_default(policy, s) for s in g['specs']]
        split = g.get('namespaces') or [len(defaults)]
        exts, pos = [], 0
        for i, n in enumerate(split):
            exts.append(stevedore.extension.Extension(name='pv%s%d' % (tag, i), entry_point=None, plugin=None, obj=defaults[pos:pos + n]))
            pos += n
        exts[-1].obj.extend(defaults[pos:])
        names = [e.name for e in exts]
        mgrs[tuple(names)] = stevedore.named.NamedExtensionManager.make_test_instance(exts, namespace=names)
        args = ['--format', g['fmt']]
        if g['out'] == 'file':
            paths[tag] = os.path.join(tmp, 'sample-%d-%s.%s' % (n, tag, g['fmt']))
            args += ['--output-file', paths[tag]]
        for nm in names:
            args += ['--namespace', nm]
        if g['exclude']:
            args.append('--exclude-deprecated')

        def call(args=args):
            try:
                generator.generate_sample(args, conf=cfg.ConfigOpts())
            except Exception as e:
                return ['raised', type(e).__name__, str(e)[:120]]
            return ['returned']
        funcs[tag.upper()] = call
    real_out, rec = sys.stdout, io.StringIO()
    with mock.patch('stevedore.named.NamedExtensionManager', side_effect=lambda ns, names=(), **kw: mgrs[tuple(names)]):
        sys.stdout = rec
        try:
            r = sched.Run(funcs, plan, lambda: None)
            res = r.run()
        finally:
            sys.stdout = real_out
    texts = []
    for tag in ('a', 'b'):
        if case[tag]['out'] == 'stdout':
            texts.append(rec.getvalue())
        else:
            try:
                with open(paths[tag], encoding='utf-8') as f:
                    texts.append(f.read())
            except Exception as e:
                texts.append('<unreadable: %s>' % type(e).__name__)
    return texts, [res.get('A'), res.get('B')], r


def check_overlap(ctx, case):
    """Two sample generations in one process at the same time: each sample is what the same generation yields alone."""
    import shutil
    from oslo_policy import policy
    try:
        expected = []
        for tag in ('a', 'b'):
            ds = [build_default(policy, s) for s in case[tag]['specs']]
            if len({d.name for d in ds}) != len(ds):
                return
            expected.append({d.name: d.check_str for d in ds})
    except Exception:
        ctx.count('invalid_default_specs')
        return
    tmp = tempfile.mkdtemp(prefix='pvsample2-')
    try:
        _check_overlap(ctx, case, expected, tmp)
    finally:
        shutil.rmtree(tmp, ignore_errors=True)


def _check_overlap(ctx, case, expected, tmp):
    from pv.mon import overlap
    seq = [['A', None], ['B', None]]
    alone, how, r = run_pair(case, seq, tmp, 0)
    ctx.case(['overlap', case['a'], case['b']], True, 'overlap')
    ctx.count('overlapping_generations')
    info = {'a': {k: v for k, v in case['a'].items() if k != 'specs'}, 'b': {k: v for k, v in case['b'].items() if k != 'specs'}}
    for i, tag in enumerate(('a', 'b')):
        if how[i] != ['returned']:
            ctx.violation('sample-generator-raises', dict(case, plan=seq), dict(info, generation=tag, observed=how[i]))
            return
        before = sum(v[0] for v in ctx.violations.values())
        judge(ctx, dict(case, plan=seq), case[tag], alone[i], expected[i])
        if sum(v[0] for v in ctx.violations.values()) != before:
            return
    if case.get('plan'):
        plans = [case['plan']]                      # a replay file names the one schedule that failed
    else:
        rnd = ctx.sub_rnd('Og', case['rseed'])
        na, nb = r.counts['A'], r.counts['B']
        ctx.observe('overlap_boundaries_of_first_generation', na)
        plans = []
        for k in overlap.boundaries(na, OVERLAP_KS[ctx.tier], rnd):
            j = rnd.randint(1, nb) if nb else None
            plans.append([['A', k], ['B', None], ['A', None]])
            if j:
                plans.append([['A', k], ['B', j], ['A', None], ['B', None]])
    for n, plan in enumerate(plans):
        got, how2, r = run_pair(case, plan, tmp, n + 1)
        ctx.count('overlapping_generations')
        if len(plan) == 4:
            ctx.count('overlapping_generations.both_in_flight')
        if got != alone or how2 != how:
            bad = [t for i, t in enumerate(('a', 'b')) if got[i] != alone[i] or how2[i] != how[i]]
            where = r.stopped_at.get('A')
            ctx.violation(KEY_OVERLAP, dict(case, plan=plan),
                          dict(info, plan=plan, differing=bad, ended=how2, a_preempted_at=list(where) if where else None,
                               alone=[t[:400] for t in alone], overlapping=[t[:400] for t in got],
                               registered=[sorted(e) for e in expected]))
            return


def run_overlap(ctx):
    from pv.mon import sched
    ctx.stratum('overlap', exhaustive=False)
    try:
        for i in range(OVERLAPS[ctx.tier]):
            if ctx.expired():
                break
            rnd = ctx.sub_rnd('OV', ctx.tier, ctx.shard, i)
            a, b = gen_generation(rnd), gen_generation(rnd)
            a['out'], b['out'] = OUTS[(i + ctx.shard) % len(OUTS)]
            check_overlap(ctx, dict(overlap=True, a=a, b=b, rseed='%s.%d.%d' % (ctx.tier, ctx.shard, i)))
    finally:
        sched.uninstall()


def run(ctx):
    ctx.reserve(0.3)          # the overlap stratum comes first and has its own share of the wall budget
    run_overlap(ctx)
    ctx.release()
    rnd = ctx.rnd
    for i in range(N[ctx.tier] // ctx.nshards + 1):
        if (i & 0x3f) == 0 and ctx.expired():
            break
        specs = [gen_default_spec(rnd, j) for j in range(rnd.randint(1, 6))]
        for sp in list(specs):
            if sp['kind'] == 'renamed' and rnd.random() < 0.4:
                # the old name is itself still a registered policy, listed after the renamed one
                specs.append(dict(kind='plain', name=sp['old_name'], check=rnd.choice(CHECKS), desc=gen_text(rnd, 4), reason='', since=''))
        case = dict(specs=specs, fmt='yaml' if rnd.random() < 0.65 else 'json', exclude=rnd.random() < 0.4)
        if rnd.random() < 0.4:
            n, parts = len(specs), []
            for _ in range(rnd.randint(2, 4)):
                take = rnd.randint(0, n)
                parts.append(take)
                n -= take
            case['namespaces'] = parts
        case['stale_output'] = rnd.random() < 0.25
        check_case(ctx, case)
        if i % 500 == 0:
            ctx.sample(case, case['fmt'])
    ctx.stratum('random', exhaustive=False)


def replay(ctx, case):
    if case.get('overlap'):
        from pv.mon import sched
        try:
            return check_overlap(ctx, case)
        finally:
            sched.uninstall()
    check_case(ctx, case)
