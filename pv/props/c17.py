"""C17 - a generated sample policy file overrides nothing and states every default.

Monitor: the real sample generator (oslopolicy-sample-generator's
console entry generate_sample, fed through a stevedore test manager) is run on generated
lists of defaults; its output is re-read with independent parsers (PyYAML,
json) and with the library's own Rules.load."""
import json
import os
import re
import tempfile
from unittest import mock

import yaml

from pv.core import env

ID = 'C17'
LEVEL = 'exploration'
TECHNIQUE = ('runtime monitor on the real sample generator: generated RuleDefault lists with hostile descriptions; output '
             're-read with PyYAML / json / Rules.load and compared with the registered defaults')
RULE = ('cases = lists of 1-6 RuleDefault / DocumentedRuleDefault objects (plain, documented with operations and scope '
        'types, deprecated for removal, renamed, changed default under the same name); names and check strings over the '
        'rule alphabet incl. single-quoted literals, %(key)s, #, colons, non-ASCII (printable, no double quote / backslash); '
        'descriptions and reasons from printable Unicode plus newlines (LF, CRLF, bare CR, NEL, LS, PS), tabs, #, quotes, colons, ---, list markers, '
        'leading whitespace (literal blocks), >70-column words, emoji; YAML and JSON output; with and without '
        'exclude-deprecated; defaults spread over 1-4 namespaces some of which register nothing; output written to a fresh path or '
        'over an existing longer file of an earlier run. Non-trivial = some description/reason contains a line break, a YAML-significant character or '
        'an over-long word; distinct = distinct (defaults, options).')
ASSUMPTIONS = ['rule lines are recognised by ^#" (pinned literally by the repository\'s GenerateSampleYAMLTestCase)',
               'operation paths, methods, scope types and deprecated_since are single-line printable strings (quantifier)',
               'the sample generator is driven with include_help on, as the console script does']
LEVEL_TEXT = ('Seeded sampling of default lists with an adversarial text generator; every output is parsed by two independent '
              'parsers and by the library loader. The description space is unbounded text, so adversarial sampling is the level.')
LEVEL_NOTE = 'trusted: PyYAML and json as independent readers of the generated text'
PLAN = {'quick': dict(shards=4, wall=120), 'thorough': dict(shards=16, wall=400)}
MIN = {'evaluations': 1000, 'yaml_samples': 500, 'json_samples': 300, 'hostile_descriptions': 500, 'deprecated_entries': 300, 'multi_namespace_samples': 100, 'regenerated_over_existing_file': 100}
ANCHORS = ['oslo_policy.generator:_format_help_text', 'oslo_policy.generator:_format_rule_default_yaml',
           'oslo_policy.generator:_format_rule_default_json', 'oslo_policy.generator:_generate_sample',
           'oslo_policy.generator:_sort_and_format_by_section', 'oslo_policy.generator:generate_sample']
REQUIRED_ANCHORS = ['oslo_policy.generator:generate_sample']
N = {'quick': 4000, 'thorough': 400000}

TEXT = ['a', 'b', 'Z', ' ', '  ', '\n', '\n\n', '\t', '#', ':', '"', "'", '-', '|', '>', '%', '{', '}', '[', ']', ',', '&',
        '*', '!', '@', '`', '\r\n', 'é', 'ß', '日', '😀', ' ', 'x' * 80, '\\', '?', '- ', ': ', ' #', '---', '...',
        '　', 'word', 'Create a server.', '\n    indented literal', '\n\n  * bullet', '%(x)s', '"name": "rule"', '\n"x": "@"',
        '\n#"x": "@"', "\n'", '\n- a', '\n? q', '\n!!python/object', '{{', '}}', '\n...\n', '\n---\n', 'y' * 71, ' ' * 75,
        '\n \n', '\n\t\n', 'k: v\n', '\r', '\r', '\n  lit\rx: y', '\x85', '\u2028', '\u2029', '\n  a\u2028"k": "@"', '\n: ', '<<', '&a', '*a', '%TAG']
NAMECH = list('abcxyz019') + [':', ':', '_', '-', '.', '/', 'é', 'ü', '*', '+', '\U0001F600', '\U00010348', '\U00020BB7', '\U0002A6A5', '\U00030000']     # incl. printable characters outside the basic plane (planes 1, 2 and 3)
CHECKS = ['role:a', "'x':%(y)s or role:b", '', '@', '!', 'rule:z and not role:q', "(role:a or 'Member':%(role.name)s) and not rule:r",
          'project_id:%(project_id)s', 'role:a#b', 'http://h/%(n)s', 'is_admin:True or (role:é and k:v)', "role:it's", 'a:b,c', 'x:{y}',
          'tenant:%(tenant_id)s  or   role:spaced', 'rule:admin_required', 'user_id:%(user.id)s', '[role:a]', 'not @', 'role:  a',
          ' or '.join('role:member_of_group_%d' % i for i in range(9)),
          '(role:admin and project_id:%(project_id)s) or (role:member and user_id:%(user_id)s) or rule:a_rather_long_rule_name_here',
          'x:' + 'y' * 90 + ' or role:z', 'role:' + 'a' * 120,
          # printable characters outside the basic multilingual plane (a JSON escape spells them as a surrogate pair)
          'role:\U0001F600', "'\U0001D518':%(k)s or role:\U00010348x", 'rule:\U0001F680_team and not role:a', 'role:\U00020BB7', "'\U0002A6A5x':%(k)s or role:\U00030000"]


def gen_text(rnd, n):
    return ''.join(rnd.choice(TEXT) for _ in range(rnd.randint(0, n)))


def gen_name(rnd, i):
    n = 'svc%d:' % i + ''.join(rnd.choice(NAMECH) for _ in range(rnd.randint(1, 8)))
    if rnd.random() < 0.1:
        n += ':' + 'long_policy_name_segment_' * 3 + 'x'          # a name that pushes the rule line past 80 columns
    return n


def gen_default_spec(rnd, i):
    kind = rnd.choice(['plain', 'documented', 'removal', 'renamed', 'changed'])
    spec = dict(kind=kind, name=gen_name(rnd, i), check=rnd.choice(CHECKS), desc=gen_text(rnd, 10),
                reason=gen_text(rnd, 8), since=rnd.choice(['1.0 (x)', 'Train', '2024.1: "q"', "S'", '#5']))
    if kind == 'documented':
        spec['ops'] = [{'path': rnd.choice(['/p/{id}#x', '/v2/servers', '/a b', '/é', '/%(x)s']), 'method': rnd.choice(['GET', 'POST', 'get '])}
                       for _ in range(rnd.randint(1, 3))]
        spec['scope'] = rnd.choice([None, ['system'], ['system', 'project'], ['domain']])
    if kind in ('renamed', 'changed'):
        spec['old_check'] = rnd.choice(CHECKS)
        spec['old_name'] = gen_name(rnd, 100 + i) if kind == 'renamed' else spec['name']
    return spec


def build_default(policy, spec):
    k = spec['kind']
    if k == 'plain':
        return policy.RuleDefault(spec['name'], spec['check'], description=spec['desc'] or None)
    if k == 'documented':
        return policy.DocumentedRuleDefault(spec['name'], spec['check'], spec['desc'] or 'd', spec['ops'], scope_types=spec['scope'])
    if k == 'removal':
        return policy.RuleDefault(spec['name'], spec['check'], description=spec['desc'], deprecated_for_removal=True,
                                  deprecated_reason=spec['reason'], deprecated_since=spec['since'])
    dep = policy.DeprecatedRule(spec['old_name'], spec['old_check'], deprecated_reason=spec['reason'] or 'r', deprecated_since=spec['since'])
    return policy.RuleDefault(spec['name'], spec['check'], description=spec['desc'], deprecated_rule=dep)


def hostile(s):
    return bool(s) and (('\n' in s) or ('\r' in s) or any(c in s for c in '#:"\'-|>%{}[]&*!@`') or any(len(w) > 70 for w in s.split()))


def check_case(ctx, case):
    import stevedore
    from oslo_policy import generator, policy
    try:
        defaults = [build_default(policy, s) for s in case['specs']]
    except Exception:
        ctx.count('invalid_default_specs')
        return
    names = [d.name for d in defaults]
    if len(set(names)) != len(names):
        return
    expected = {d.name: d.check_str for d in defaults}
    # the defaults are spread over several namespaces; some namespaces register nothing
    split = case.get('namespaces') or [len(defaults)]
    exts, pos = [], 0
    for i, n in enumerate(split):
        exts.append(stevedore.extension.Extension(name='pv%d' % i, entry_point=None, plugin=None, obj=defaults[pos:pos + n]))
        pos += n
    exts[-1].obj.extend(defaults[pos:])
    mgr = stevedore.named.NamedExtensionManager.make_test_instance(exts, namespace=[e.name for e in exts])
    tmp = tempfile.mkdtemp(prefix='pvsample-')
    out = os.path.join(tmp, 'sample.' + case['fmt'])
    if case.get('stale_output'):
        # the tool is re-run over an existing, longer file from an earlier run
        with open(out, 'w') as f:
            f.write(('"zz:stale": "@"\n# old comment line that is fairly long\n' * 400) if case['fmt'] == 'yaml' else ('{"zz:stale": "@"}' + ' ' * 60000))
        ctx.count('regenerated_over_existing_file')
    if len(split) > 1:
        ctx.count('multi_namespace_samples')
    try:
        try:
            with mock.patch('stevedore.named.NamedExtensionManager', return_value=mgr):
                from oslo_config import cfg
                args = ['--output-file', out, '--format', case['fmt']]
                for e in exts:
                    args += ['--namespace', e.name]
                if case['exclude']:
                    args.append('--exclude-deprecated')
                generator.generate_sample(args, conf=cfg.ConfigOpts())        # oslopolicy-sample-generator
            with open(out, encoding='utf-8') as f:
                text = f.read()
        except Exception as e:
            ctx.violation('sample-generator-raises', case, {'observed': type(e).__name__ + ': ' + str(e)[:120]})
            return
    finally:
        import shutil
        shutil.rmtree(tmp, ignore_errors=True)
    is_hostile = any(hostile(s.get('desc')) or hostile(s.get('reason')) for s in case['specs'])
    ctx.case(case, nontrivial=is_hostile, stratum=case['fmt'])
    if is_hostile:
        ctx.count('hostile_descriptions')
    ctx.count('deprecated_entries', sum(1 for s in case['specs'] if s['kind'] in ('removal', 'renamed', 'changed')))
    if case['fmt'] == 'json':
        ctx.count('json_samples')
        try:
            got = json.loads(text)
        except Exception as e:
            ctx.violation('json-sample-not-valid-json', case, {'error': str(e)[:100], 'text': text[:300]})
            return
        if got != expected:
            ctx.violation('json-sample-not-the-default-mapping', case, {'expected': expected, 'observed': got})
        return
    ctx.count('yaml_samples')
    lines = text.split('\n')
    for ln in lines:
        if ln.strip() and not ln.startswith('#'):
            ctx.violation('yaml-sample-has-active-line', case, {'line': ln[:200]})
            return
    try:
        loaded = yaml.safe_load(text)
    except Exception as e:
        ctx.violation('yaml-sample-not-valid-yaml', case, {'error': str(e)[:150]})
        return
    if loaded is not None:
        ctx.violation('yaml-sample-overrides-something', case, {'loaded': repr(loaded)[:200]})
        return
    try:
        rules = policy.Rules.load(text)
    except Exception as e:
        ctx.violation('yaml-sample-not-a-valid-policy-file', case, {'error': type(e).__name__ + ': ' + str(e)[:100]})
        return
    if len(rules) != 0:
        ctx.violation('yaml-sample-overrides-something', case, {'rules': sorted(rules)})
        return
    un = '\n'.join(l[1:] if l.startswith('#"') else l for l in lines)
    try:
        mapping = yaml.safe_load(un)
    except Exception as e:
        ctx.violation('uncommented-sample-not-valid-yaml', case, {'error': str(e)[:150], 'specs': case['specs']})
        return
    if mapping != expected:
        ctx.violation('uncommented-sample-not-the-default-mapping', case, {'expected': expected, 'observed': mapping})


def run(ctx):
    rnd = ctx.rnd
    for i in range(N[ctx.tier] // ctx.nshards + 1):
        if (i & 0x3f) == 0 and ctx.expired():
            break
        specs = [gen_default_spec(rnd, j) for j in range(rnd.randint(1, 6))]
        for sp in list(specs):
            if sp['kind'] == 'renamed' and rnd.random() < 0.4:
                # the old name is itself still a registered policy, listed after the renamed one
                specs.append(dict(kind='plain', name=sp['old_name'], check=rnd.choice(CHECKS), desc=gen_text(rnd, 4), reason='', since=''))
        case = dict(specs=specs, fmt='yaml' if rnd.random() < 0.65 else 'json', exclude=rnd.random() < 0.4)
        if rnd.random() < 0.4:
            n, parts = len(specs), []
            for _ in range(rnd.randint(2, 4)):
                take = rnd.randint(0, n)
                parts.append(take)
                n -= take
            case['namespaces'] = parts
        case['stale_output'] = rnd.random() < 0.25
        check_case(ctx, case)
        if i % 500 == 0:
            ctx.sample(case, case['fmt'])
    ctx.stratum('random', exhaustive=False)


def replay(ctx, case):
    check_case(ctx, case)
