"""C18 - policy-file rewriting tools and advice preserve every decision.

Differential monitor between two real Enforcers: one on the policy the tool was
given, one on the tool's output (default configuration, same registered
defaults), for every surviving name x role subset x target.  The tools are the
real console entry points (convert_policy_json_to_yaml, upgrade_policy,
generate_policy, list_redundant) fed through a stevedore test manager."""
import contextlib
import io
import json
import os
from unittest import mock

import yaml

from pv.core import env
from pv.gen import files

ID = 'C18'
LEVEL = 'exploration'
TECHNIQUE = ('differential runtime monitor: decisions of a real Enforcer on the input policy vs on the output of the real '
             'tool entry points, all names x role subsets; deletion test for every rule reported redundant')
RULE = ('cases = default sets (plain, renamed one-to-one, one deprecated name split into 2-3 new names, changed default '
        'under the same name, rule: references) x operator files (string and list-of-lists values; double quotes, '
        'backslashes, non-ASCII in values; registered / deprecated / unknown names; alias entries old: rule:new; excluded: '
        'files defining both a deprecated name and a successor, or referencing a deprecated name via rule:) x tool '
        '(upgrade YAML/JSON in and out; convert JSON->YAML; policy-generator and list-redundant with a main file plus '
        'directory overrides, each name in at most one file, file rules spelled as textual variants of the default, as near misses (one operand of the top-level and/or dropped or '
        'added), as always-allow ("", "@", []) or as different rules, no override under a deprecated name; in 40 % of these cases the files are rewritten after the first load and the tools then run on the living enforcer; namespaces hand their defaults over as a list or as a one-shot iterable). Stratum "repeat" (same input again): ONE input policy text (YAML as dumped, YAML one rule per line, or JSON) is handed to several tools and enforcers back to back in one process - upgrade under two different default sets in both orders (renaming set, the same names all ordinary, the old names renamed to other successors, a fresh renaming set), convert then upgrade, generator / list-redundant / a fresh enforcer on the INPUT file right after a tool ran on it; the decisions of the input under each default set are measured first thing in the case, before any tool has seen the text, and every later output (and every later enforcer on the untouched input) is compared with them. Stratum "long" (rule texts and names far longer than one line of a generated file): default sets (plain, renamed one-to-one, changed default under the same name, a shared rule: target) whose check strings are or/and chains of 60-450 characters over role:a..d padded with clauses that are neutral for the 16 role subsets (blanks at many positions), single tokens of 80-300 characters without any blank (some with quotes, backslashes, non-ASCII), long list-of-lists rules, and names of 6-200 characters (a few with blanks); file rules that equal the registered default textually or as a textual variant, near misses, different long rules, overrides and aliases under the deprecated name, unknown names; convert (JSON in), upgrade (JSON / YAML as dumped / YAML one rule per line in, YAML / JSON out), generator + list-redundant (main file + policy.d in the three input styles); extra credentials hold the long role names so that a mangled long leaf changes a decision. Stratum "place" (where the output goes, relative to what the tool reads): upgrade, convert and policy-generator run with --output-file naming a new file, an EXISTING file that holds another, longer policy which decides otherwise (must be replaced, not appended to or merged), the SAME file as the input (in place: the same path, a path with . and .. segments, a path relative to the working directory, a symbolic link to the input, the input given as a link to the output, a hard link; for the generator the main policy file or the policy.d file of the enforcer it merges from, loaded already or not), a new file inside the policy directory the generator read from (sorted before or after the other file), or stdout; the decisions of the input are measured BEFORE the run, and the produced file (beside the defaults; generator also on its own), the configuration as it stands after the run, and - where the output is another file - the untouched input are compared with them. Decisions compared under all 16 subsets of 4 roles and 2 '
        'targets. Non-trivial = the file overrides at least one registered or deprecated name; distinct = distinct (defaults, files, tool).')
ASSUMPTIONS = ['default configuration (enforce_new_defaults and enforce_scope at their defaults), no scope types: "request scope matching"',
               'redundant rules are read from list-redundant output lines of the form "name": ... (pinned by the repository\'s ListRedundantTestCase)',
               'the generator output is judged both as a policy file beside the registered defaults and on its own']
LEVEL_TEXT = ('Seeded sampling of (defaults, operator files) with targeted shapes for each tool; every output is loaded by a real '
              'enforcer and its decisions compared with the input\'s. The suite only compares text on one small file per tool.')
LEVEL_NOTE = 'trusted: a real Enforcer on the unmodified input as the oracle; the stevedore test manager stands for entry points'
PLAN = {'quick': dict(shards=8, wall=150), 'thorough': dict(shards=16, wall=500)}
MIN = {'evaluations': 400, 'upgrade_runs': 100, 'convert_runs': 100, 'generator_runs': 100, 'redundant_reports': 30, 'tools_on_living_enforcer': 30,
       'decisions_compared': 20000, 'same_input_repeats': 30, 'same_input_steps': 80, 'same_input_decisions_compared': 10000,
       'long_text_cases': 40, 'long_text_cases.convert': 10, 'long_text_cases.upgrade': 8, 'long_text_cases.generator': 10,
       'long_text_equal_default_rules': 40, 'long_text_decisions_compared': 25000,
       'output_place_cases': 30, 'output_place_cases.in-place': 20, 'output_place_cases.over-existing-file': 4, 'output_place_decisions_compared': 35000}
ANCHORS = ['oslo_policy.generator:_convert_policy_json_to_yaml', 'oslo_policy.generator:_upgrade_policies',
           'oslo_policy.generator:_generate_policy', 'oslo_policy.generator:_list_redundant',
           'oslo_policy.generator:upgrade_policy', 'oslo_policy.generator:convert_policy_json_to_yaml',
           'oslo_policy.generator:generate_policy', 'oslo_policy.generator:list_redundant']
# only the public console entry points are REQUIRED (a refactoring may keep a private helper's name and route around it)
REQUIRED_ANCHORS = ['oslo_policy.generator:upgrade_policy', 'oslo_policy.generator:convert_policy_json_to_yaml',
                    'oslo_policy.generator:generate_policy', 'oslo_policy.generator:list_redundant']
N = {'quick': 600, 'thorough': 60000}

ROLES = ['a', 'b', 'c', 'd']
SUBS = [[r for i, r in enumerate(ROLES) if m >> i & 1] for m in range(16)]
LEAVES = ['role:a', 'role:b', 'role:c', 'role:d', '@', '!', "'x':%(k)s", 'rule:base', 'role:a', 'role:b']
ODD_LEAVES = ['"x":%(k)s', 'role:é', 'role:a\\b', 'k:%(k)s"', "'y':%(k)s", 'role:"q"x',
              # characters outside the basic multilingual plane (a JSON escape writes them as a surrogate pair)
              'role:\U0001F600', 'role:\U0001D518x', "'\U00010348':%(k)s", 'role:\U00020BB7', 'role:\U00030000z']
# credentials that hold the odd role names, so that an odd leaf mangled by a tool changes a decision
ODD_CREDS = [['é'], ['a\\b'], ['"q"x'], ['\U0001F600'], ['\U0001D518x', 'a'], ['\U0001F600', 'b', 'é'], ['\U00020BB7'], ['\U00030000z', 'c'],
             ['\U00010BB7'], ['\U00020000z']]      # the last two: what a plane-2/3 character becomes when its surrogates are put together wrongly
ALIAS_SPELLINGS = ['rule:%s', 'rule:%s', '(rule:%s)', ' rule:%s ', '((rule:%s))', [['rule:%s']], ['rule:%s']]


def alias_of(rnd, name):
    """`old: rule:<new>` in one of the spellings that parse to exactly that reference."""
    sp = rnd.choice(ALIAS_SPELLINGS)
    if isinstance(sp, str):
        return sp % name
    return [[x % name for x in sp[0]]] if isinstance(sp[0], list) else [sp[0] % name]


def is_alias(v):
    """Does the file value parse to a bare reference to a new:* policy? (judged on the text, without the library)"""
    while isinstance(v, list) and len(v) == 1:
        v = v[0]
    if not isinstance(v, str):
        return False
    v = v.strip()
    while v.startswith('(') and v.endswith(')'):
        v = v[1:-1].strip()
    return v.startswith('rule:new:') and ' ' not in v


def gen_rule(rnd, depth, odd=0.0):
    r = rnd.random()
    if depth <= 0 or r < 0.4:
        return rnd.choice(ODD_LEAVES) if rnd.random() < odd else rnd.choice(LEAVES)
    if r < 0.5:
        return 'not ' + gen_rule(rnd, depth - 1, odd)
    return '(' + (' %s ' % rnd.choice(['and', 'or'])).join(gen_rule(rnd, depth - 1, odd) for _ in range(2)) + ')'


# entries of a list rule are NOT tokenized: these are single checks in a list, but would be several tokens (or a different
# token) inside a check string - a tool that spells a list rule as text changes what they mean
LIST_ONLY_LEAVES = ['role:project admin', 'role:a )', 'role:(b', 'role:x  y', "'x y':%(k)s", 'role:and a', 'role:not', 'role:a or role:b']
LIST_ONLY_CREDS = [['project admin'], ['a )'], ['(b'], ['x  y'], ['and a'], ['not'], ['a or role:b'], ['project admin', 'a']]


def gen_list(rnd):
    """A legacy list-of-lists rule: inner lists (possibly empty), bare strings, the empty list."""
    out = []
    odd = rnd.random() < 0.35
    for _ in range(rnd.randint(0, 3)):
        r = rnd.random()
        if r < 0.2:
            out.append([])
        elif r < 0.35:
            out.append(rnd.choice(['role:a', 'role:b', '@', '!', 'rule:base'] + (LIST_ONLY_LEAVES if odd else [])))
        else:
            out.append([rnd.choice(['role:a', 'role:b', 'role:c', '@', '!', "'x':%(k)s"] + (LIST_ONLY_LEAVES if odd else []))
                        for _ in range(rnd.randint(1, 3))])
    return out


def near_miss(rnd, text):
    """A DIFFERENT rule that looks almost like the default: one operand of the top-level and/or dropped or added."""
    t = text.strip()
    if t.startswith('(') and t.endswith(')'):
        t = t[1:-1]
    for op in (' or ', ' and '):
        depth, parts, cur = 0, [], ''
        i = 0
        while i < len(t):
            if t[i] == '(':
                depth += 1
            elif t[i] == ')':
                depth -= 1
            if depth == 0 and t.startswith(op, i):
                parts.append(cur)
                cur = ''
                i += len(op)
                continue
            cur += t[i]
            i += 1
        parts.append(cur)
        if len(parts) > 1:
            if rnd.random() < 0.5:
                parts = parts[:-1]
            else:
                parts = parts + [rnd.choice(['role:d', 'role:c', '!'])]
            return op.join(parts) if len(parts) > 1 else parts[0]
    return '%s or role:d' % text if text else 'role:d'


def variant(rnd, text):
    """A textual variant of a rule that parses to the same tree."""
    r = rnd.random()
    if r < 0.3:
        return text
    if r < 0.5:
        return text.replace(' and ', ' AND ').replace(' or ', ' Or ')
    if r < 0.7:
        return text.replace(' ', '  ')
    if r < 0.85 and text and not text.startswith('('):
        return '(' + text + ')' if ' ' not in text else text
    return ' ' + text + ' '


def gen_defaults(rnd):
    nsplit = rnd.randint(2, 3)
    return dict(base='role:a or role:b',
                one=dict(new=gen_rule(rnd, 1), old=gen_rule(rnd, 1)),
                split=dict(old=gen_rule(rnd, 1), new=[gen_rule(rnd, 1) for _ in range(nsplit)]),
                same=dict(new=gen_rule(rnd, 1), old=gen_rule(rnd, 1)),
                plain=gen_rule(rnd, 2))


def build_defaults(policy, spec):
    ds = [policy.RuleDefault('base', spec['base'])]
    dep1 = policy.DeprecatedRule('old:one', spec['one']['old'], deprecated_reason='r', deprecated_since='s')
    ds.append(policy.DocumentedRuleDefault('new:one', spec['one']['new'], 'd', [{'path': '/', 'method': 'GET'}], deprecated_rule=dep1))
    dep2 = policy.DeprecatedRule('old:split', spec['split']['old'], deprecated_reason='r', deprecated_since='s')
    for i, cs in enumerate(spec['split']['new']):
        ds.append(policy.RuleDefault('new:split%d' % i, cs, deprecated_rule=dep2))
    dep3 = policy.DeprecatedRule('same:x', spec['same']['old'], deprecated_reason='r', deprecated_since='s')
    ds.append(policy.RuleDefault('same:x', spec['same']['new'], deprecated_rule=dep3))
    ds.append(policy.RuleDefault('plain:x', spec['plain']))
    return ds


def default_text(spec, name):
    if name == 'base':
        return spec['base']
    if name == 'new:one':
        return spec['one']['new']
    if name.startswith('new:split'):
        return spec['split']['new'][int(name[9:])]
    if name == 'same:x':
        return spec['same']['new']
    if name == 'plain:x':
        return spec['plain']
    return None


def gen_file(rnd, spec, allow_deprecated=True, allow_lists=True, odd=0.15, variants=0.0):
    f = {}
    nsplit = len(spec['split']['new'])
    succ = {'old:one': ['new:one'], 'old:split': ['new:split%d' % i for i in range(nsplit)]}
    names = ['new:one', 'new:split0', 'new:split1', 'same:x', 'plain:x', 'unknown:x', 'base']
    if allow_deprecated:
        names = ['old:one', 'old:split'] + names
    for nme in names:
        if rnd.random() < 0.45:
            r = rnd.random()
            dt = default_text(spec, nme)
            if dt is not None and rnd.random() < variants:
                f[nme] = variant(rnd, dt) if rnd.random() < 0.6 else near_miss(rnd, dt)
            elif r > 0.92:
                f[nme] = rnd.choice(['', '@', '!', []])
            elif allow_lists and r < 0.25:
                f[nme] = gen_list(rnd)
            else:
                f[nme] = gen_rule(rnd, 2, odd)
    if 'old:one' in f and rnd.random() < 0.35:
        f['old:one'] = alias_of(rnd, 'new:one')
    if 'old:split' in f and rnd.random() < 0.25:
        f['old:split'] = alias_of(rnd, 'new:split0')
    for o, ss in succ.items():
        if o in f and any(s in f for s in ss):
            for s in ss:
                f.pop(s, None)
    return f


def one_shot(ds, how):
    """The object an `oslo.policy.policies` entry point returns: a list, or a one-shot iterable."""
    import itertools
    if how == 'chain':
        return itertools.chain(ds[:2], ds[2:])
    if how == 'generator':
        return (d for d in ds)
    return ds


def mgr_for(objs):
    import stevedore
    exts = [stevedore.extension.Extension(name=n, entry_point=None, plugin=None, obj=v) for n, v in objs.items()]
    return stevedore.named.NamedExtensionManager.make_test_instance(extensions=exts, namespace=list(objs))


def table(enf, names, more_creds=()):
    out = {}
    for n in names:
        for roles in SUBS + ODD_CREDS + [list(c) for c in more_creds]:
            for k in ('x', 'y', '\U00010348'):
                try:
                    out['%s|%s|%s' % (n, ''.join(roles), k)] = bool(enf.enforce(n, {'k': k}, {'roles': list(roles)}))
                except Exception as e:
                    out['%s|%s|%s' % (n, ''.join(roles), k)] = 'EXC:' + type(e).__name__
    return out


def has_odd(v):
    s = json.dumps(v, ensure_ascii=False)
    inner = v if isinstance(v, str) else ''
    return ('"' in inner) or ('\\' in inner)


def mechanism(tool, files_in, diff_names, exc=None):
    """Mechanism key from the tool and the features of the rules involved (never from random values)."""
    vals = [files_in.get(n) for n in diff_names if n in files_in] or list(files_in.values())
    if tool == 'upgrade':
        if exc == 'KeyError' and 'old:split' in files_in:
            return 'upgrade-split-keyerror'
        if any(is_alias(v) for k, v in files_in.items() if k.startswith('old:')):
            return 'upgrade-alias-self-reference'
        return 'upgrade-changes-decisions' if not exc else 'upgrade-crashes-' + exc
    if any(isinstance(v, str) and any(ord(c) > 0xFFFF for c in v) for v in vals):
        return 'rewrite-astral-character'
    if any(isinstance(v, list) for v in vals):
        return 'rewrite-list-rule'
    if any(has_odd(v) for v in vals):
        return 'rewrite-unescaped-quote'
    return ('%s-changes-decisions' % tool) if not exc else ('%s-crashes-%s' % (tool, exc))


def enforcer_on(policy, tree, ds, main_rel, dirs=()):
    enf = policy.Enforcer(tree.conf(policy_file=tree.path(main_rel), policy_dirs=[tree.path(d) for d in dirs]))
    enf.register_defaults(ds)
    return enf


def compare(ctx, case, tool, t_in, t_out, files_in, extra):
    ctx.count('decisions_compared', len(t_in))
    if t_in != t_out:
        diff = [k for k in t_in if t_in[k] != t_out.get(k)]
        names = sorted({k.split('|')[0] for k in diff})
        excs = sorted({str(t_out[k]) for k in diff if isinstance(t_out.get(k), str)})
        ctx.violation(mechanism(tool, files_in, names, excs[0][4:] if excs else None), case,
                      dict(extra, tool=tool, differing_names=names,
                           examples={k: [t_in[k], t_out.get(k)] for k in diff[:4]}))
        return False
    return True


def check_case(ctx, case):
    from oslo_config import cfg
    from oslo_policy import generator, policy
    if case['tool'] == 'repeat':
        return check_repeat(ctx, case)
    if case['tool'] == 'long':
        return check_long(ctx, case)
    if case['tool'] == 'place':
        return check_place(ctx, case)
    spec = case['defaults']
    ds = build_defaults(policy, spec)
    regnames = [d.name for d in ds]
    tool = case['tool']
    tree = files.Tree(dirs=('pd',))
    try:
        f = case['file']
        overrides = any(n in f for n in regnames + ['old:one', 'old:split'])
        ctx.case(case, nontrivial=overrides, stratum=tool)
        if tool == 'upgrade':
            ctx.count('upgrade_runs')
            tree.write('in.' + case['in_fmt'], f, 'json' if case['in_fmt'] == 'json' else 'yaml')
            names = regnames + ['unknown:x']
            t_in = table(enforcer_on(policy, tree, ds, 'in.' + case['in_fmt']), names)
            out = tree.path('up.' + case['out_fmt'])
            try:
                with mock.patch('stevedore.named.NamedExtensionManager', return_value=mgr_for({'ns': one_shot(ds, case.get('ns_obj'))})):
                    generator.upgrade_policy(['--policy', tree.path('in.' + case['in_fmt']), '--namespace', 'ns',
                                              '--output-file', out, '--format', case['out_fmt']], conf=cfg.ConfigOpts())
            except BaseException as e:
                if isinstance(e, KeyboardInterrupt):
                    raise
                ctx.violation(mechanism('upgrade', f, [], type(e).__name__), case,
                              {'tool': 'upgrade', 'file': f, 'observed': '%s: %s' % (type(e).__name__, str(e)[:100])})
                return
            tree.stamp(out)
            t_out = table(enforcer_on(policy, tree, ds, 'up.' + case['out_fmt']), names)
            compare(ctx, case, 'upgrade', t_in, t_out, f, {'file': f, 'output': open(out).read()[:600]})
        elif tool == 'convert':
            ctx.count('convert_runs')
            tree.write('in.json', f, 'json')
            names = regnames + ['unknown:x', 'old:one', 'old:split']
            t_in = table(enforcer_on(policy, tree, ds, 'in.json'), names)
            out = tree.path('conv.yaml')
            try:
                with mock.patch('stevedore.named.NamedExtensionManager', return_value=mgr_for({'ns': one_shot(ds, case.get('ns_obj'))})):
                    generator.convert_policy_json_to_yaml(['--policy-file', tree.path('in.json'), '--namespace', 'ns',
                                                           '--output-file', out], conf=cfg.ConfigOpts())
            except BaseException as e:
                if isinstance(e, KeyboardInterrupt):
                    raise
                ctx.violation(mechanism('convert', f, [], type(e).__name__), case,
                              {'tool': 'convert', 'file': f, 'observed': '%s: %s' % (type(e).__name__, str(e)[:100])})
                return
            tree.stamp(out)
            try:
                enf_out = enforcer_on(policy, tree, ds, 'conv.yaml')
                enf_out.load_rules()
            except Exception as e:
                ctx.violation(mechanism('convert', f, [], 'output-not-loadable'), case,
                              {'tool': 'convert', 'file': f, 'output': open(out).read()[:600], 'observed': type(e).__name__ + ': ' + str(e)[:100]})
                return
            t_out = table(enf_out, names)
            compare(ctx, case, 'convert', t_in, t_out, f, {'file': f, 'output': open(out).read()[:600]})
        else:
            # generator and list-redundant: main file + directory overrides, each name in at most one file
            ctx.count('generator_runs')
            main = {k: v for k, v in f.items() if k in case['in_main']}
            dirf = {k: v for k, v in f.items() if k not in case['in_main']}
            tree.write('policy.yaml', main, 'json')
            if dirf:
                tree.write('pd/over.yaml', dirf, 'json')
            names = regnames + ['unknown:x']
            enf_in = enforcer_on(policy, tree, ds, 'policy.yaml', dirs=('pd',))
            t_in = table(enf_in, names)
            allfiles = dict(f)
            if case.get('then_file') is not None:
                # the service has been running: the operator rewrites the files (overrides withdrawn / changed / moved
                # between the main file and policy.d), and only then the tools are run against the living enforcer
                f2 = case['then_file']
                main = {k: v for k, v in f2.items() if k in case['then_in_main']}
                dirf = {k: v for k, v in f2.items() if k not in case['then_in_main']}
                if case.get('then_touch_main', True):
                    tree.write('policy.yaml', main, 'json')
                else:
                    main = {k: v for k, v in f.items() if k in case['in_main']}
                    dirf = {k: v for k, v in f2.items() if k not in main}
                tree.write('pd/over.yaml', dirf, 'json')
                allfiles = dict(main)
                allfiles.update(dirf)
                t_in = table(enforcer_on(policy, tree, ds, 'policy.yaml', dirs=('pd',)), names)      # what the files mean now
                ctx.count('tools_on_living_enforcer')
            buf = io.StringIO()
            try:
                with mock.patch('stevedore.named.NamedExtensionManager', return_value=mgr_for({'ns': enf_in})), \
                        contextlib.redirect_stdout(buf):
                    cfg.CONF.reset()
                    generator.generate_policy(['--namespace', 'ns'])
            except BaseException as e:
                if isinstance(e, KeyboardInterrupt):
                    raise
                ctx.violation(mechanism('generator', allfiles, [], type(e).__name__), case,
                              {'tool': 'generator', 'files': allfiles, 'observed': '%s: %s' % (type(e).__name__, str(e)[:100])})
                return
            finally:
                cfg.CONF.reset()
            text = buf.getvalue()
            tree.write_text('gen_out.yaml', text)
            for label, with_defaults in (('beside-defaults', True), ('alone', False)):
                try:
                    enf_out = enforcer_on(policy, tree, ds if with_defaults else [], 'gen_out.yaml')
                    enf_out.load_rules()
                except Exception as e:
                    ctx.violation(mechanism('generator', allfiles, [], 'output-not-loadable'), case,
                                  {'tool': 'generator', 'files': allfiles, 'output': text[:600], 'observed': type(e).__name__ + ': ' + str(e)[:100]})
                    return
                if not compare(ctx, case, 'generator', t_in, table(enf_out, names), allfiles,
                               {'files': allfiles, 'output': text[:600], 'judged': label}):
                    return
            # list-redundant
            buf = io.StringIO()
            try:
                with mock.patch('stevedore.named.NamedExtensionManager', return_value=mgr_for({'ns': enf_in})), \
                        contextlib.redirect_stdout(buf):
                    cfg.CONF.reset()
                    generator.list_redundant(['--namespace', 'ns'])
            except BaseException as e:
                if isinstance(e, KeyboardInterrupt):
                    raise
                ctx.violation('list-redundant-crashes-' + type(e).__name__, case, {'files': allfiles, 'observed': str(e)[:100]})
                return
            finally:
                cfg.CONF.reset()
            red = [n for n in allfiles if any(l.startswith('"%s": ' % n) for l in buf.getvalue().splitlines())]
            if red:
                ctx.count('redundant_reports', len(red))
                tree.write('policy.yaml', {k: v for k, v in main.items() if k not in red}, 'json')
                if dirf:
                    tree.write('pd/over.yaml', {k: v for k, v in dirf.items() if k not in red}, 'json')
                t_red = table(enforcer_on(policy, tree, ds, 'policy.yaml', dirs=('pd',)), names)
                if t_red != t_in:
                    diff = [k for k in t_in if t_in[k] != t_red[k]]
                    ctx.violation('redundant-rule-not-deletable', case,
                                  {'reported': red, 'files': allfiles, 'examples': {k: [t_in[k], t_red[k]] for k in diff[:4]}})
    finally:
        tree.cleanup()


# ---- stratum 'repeat': the same input policy text handed to tools and enforcers several times in one process ----------

OLD_NAMES = ['old:one', 'old:split']


def build_set(policy, s):
    """One default set of a repeat case.  'renamed' = build_defaults; 'plain' = the same names and the old names, all
    ordinary registered policies; 'alt' = the old names renamed to OTHER successors (alt:...), the new: names ordinary."""
    spec, shape = s['spec'], s['shape']
    if shape == 'renamed':
        return build_defaults(policy, spec)
    ds = [policy.RuleDefault('base', spec['base'])]
    if shape == 'plain':
        ds.append(policy.RuleDefault('old:one', spec['one']['old']))
        ds.append(policy.RuleDefault('new:one', spec['one']['new']))
        ds.append(policy.RuleDefault('old:split', spec['split']['old']))
        for i, cs in enumerate(spec['split']['new']):
            ds.append(policy.RuleDefault('new:split%d' % i, cs))
    elif shape == 'alt':
        dep1 = policy.DeprecatedRule('old:one', spec['one']['old'], deprecated_reason='r', deprecated_since='s')
        ds.append(policy.RuleDefault('alt:one', spec['one']['new'], deprecated_rule=dep1))
        ds.append(policy.RuleDefault('new:one', spec['one']['old']))
        dep2 = policy.DeprecatedRule('old:split', spec['split']['old'], deprecated_reason='r', deprecated_since='s')
        for i, cs in enumerate(spec['split']['new']):
            ds.append(policy.RuleDefault('alt:split%d' % i, cs, deprecated_rule=dep2))
        for i, cs in enumerate(spec['split']['new']):
            ds.append(policy.RuleDefault('new:split%d' % i, cs))
    else:
        raise ValueError(shape)
    ds.append(policy.RuleDefault('same:x', spec['same']['new']))
    ds.append(policy.RuleDefault('plain:x', spec['plain']))
    return ds


def renames_old(shape):
    return shape in ('renamed', 'alt')


def pick(t, names):
    ns = set(names)
    return {k: v for k, v in t.items() if k.split('|')[0] in ns}


def compare_repeat(ctx, case, j, tool, t_ref, t_out, extra):
    """Step j's output against the decisions measured before any tool saw the text."""
    ctx.count('same_input_decisions_compared', len(t_ref))
    if t_ref == t_out:
        return True
    diff = [k for k in t_ref if t_ref[k] != t_out.get(k)]
    names = sorted({k.split('|')[0] for k in diff})
    excs = sorted({str(t_out[k]) for k in diff if isinstance(t_out.get(k), str)})
    if tool == 'enforcer':
        key = 'input-policy-decides-differently-after-tool'
    elif j == 0:
        key = mechanism(tool, case['file'], names, excs[0][4:] if excs else None)       # a plain single run of the tool
    else:
        key = 'same-input-again-%s-changes-decisions' % tool
    ctx.violation(key, case, dict(extra, tool=tool, step=j, steps_before=case['steps'][:j], file=case['file'], differing_names=names,
                                  examples={k: [t_ref[k], t_out.get(k)] for k in diff[:4]}))
    return False


def check_repeat(ctx, case):
    from oslo_config import cfg
    from oslo_policy import generator, policy
    f = case['file']
    sets = [build_set(policy, s) for s in case['sets']]
    tree = files.Tree(dirs=())
    try:
        registered = {d.name for ds in sets for d in ds}
        ctx.case(case, nontrivial=any(n in f for n in registered), stratum='repeat')
        ctx.count('same_input_repeats')
        in_rel = 'in.json' if case['in_fmt'] == 'json' else 'in.yaml'
        tree.write(in_rel, f, case['in_fmt'])
        in_path = tree.path(in_rel)
        # FIRST: what the policy the tools are given decides under each default set, before any tool has seen the text
        allnames, ref = [], []
        for ds in sets:
            names = []
            for n in [d.name for d in ds] + ['unknown:x'] + OLD_NAMES:
                if n not in names:
                    names.append(n)
            allnames.append(names)
            ref.append(table(enforcer_on(policy, tree, ds, in_rel), names))
        for j, st in enumerate(case['steps']):
            op, si = st['op'], st['set']
            ds, names = sets[si], allnames[si]
            surviving = [d.name for d in ds] + ['unknown:x']
            ctx.count('same_input_steps')
            ctx.count('same_input_steps.' + op)
            again = 'same-input-again-' if j else ''
            if op == 'enforcer':
                # an enforcer that reads the (untouched) input file right after a tool ran on it
                if not compare_repeat(ctx, case, j, 'enforcer', ref[si], table(enforcer_on(policy, tree, ds, in_rel), names), {}):
                    return
            elif op in ('upgrade', 'convert'):
                out_rel = 'out%d.%s' % (j, st.get('out_fmt', 'yaml'))
                out = tree.path(out_rel)
                try:
                    with mock.patch('stevedore.named.NamedExtensionManager', return_value=mgr_for({'ns': one_shot(ds, st.get('ns_obj'))})):
                        if op == 'upgrade':
                            generator.upgrade_policy(['--policy', in_path, '--namespace', 'ns', '--output-file', out,
                                                      '--format', st['out_fmt']], conf=cfg.ConfigOpts())
                        else:
                            generator.convert_policy_json_to_yaml(['--policy-file', in_path, '--namespace', 'ns',
                                                                   '--output-file', out], conf=cfg.ConfigOpts())
                except BaseException as e:
                    if isinstance(e, KeyboardInterrupt):
                        raise
                    key = mechanism(op, f, [], type(e).__name__) if j == 0 else '%s%s-crashes-%s' % (again, op, type(e).__name__)
                    ctx.violation(key, case, {'tool': op, 'step': j, 'file': f, 'observed': '%s: %s' % (type(e).__name__, str(e)[:100])})
                    return
                tree.stamp(out)
                try:
                    enf_out = enforcer_on(policy, tree, ds, out_rel)
                    enf_out.load_rules()
                except Exception as e:
                    key = mechanism(op, f, [], 'output-not-loadable') if j == 0 else '%s%s-crashes-output-not-loadable' % (again, op)
                    ctx.violation(key, case, {'tool': op, 'step': j, 'file': f, 'output': open(out).read()[:600],
                                              'observed': type(e).__name__ + ': ' + str(e)[:100]})
                    return
                cmp_names = surviving if op == 'upgrade' else names       # the deprecated names do not survive an upgrade
                if not compare_repeat(ctx, case, j, op, pick(ref[si], cmp_names), table(enf_out, cmp_names),
                                      {'output': open(out).read()[:600]}):
                    return
            else:
                # generator / list-redundant on a fresh enforcer whose policy file is the input file
                enf_in = enforcer_on(policy, tree, ds, in_rel)
                buf = io.StringIO()
                try:
                    with mock.patch('stevedore.named.NamedExtensionManager', return_value=mgr_for({'ns': enf_in})), \
                            contextlib.redirect_stdout(buf):
                        cfg.CONF.reset()
                        if op == 'generator':
                            generator.generate_policy(['--namespace', 'ns'])
                        else:
                            generator.list_redundant(['--namespace', 'ns'])
                except BaseException as e:
                    if isinstance(e, KeyboardInterrupt):
                        raise
                    if op == 'generator':
                        key = mechanism('generator', f, [], type(e).__name__) if j == 0 else '%sgenerator-crashes-%s' % (again, type(e).__name__)
                    else:
                        key = '%slist-redundant-crashes-%s' % (again, type(e).__name__)
                    ctx.violation(key, case, {'tool': op, 'step': j, 'file': f, 'observed': '%s: %s' % (type(e).__name__, str(e)[:100])})
                    return
                finally:
                    cfg.CONF.reset()
                text = buf.getvalue()
                if op == 'generator':
                    out_rel = 'out%d.yaml' % j
                    tree.write_text(out_rel, text)
                    for label, with_defaults in (('beside-defaults', True), ('alone', False)):
                        try:
                            enf_out = enforcer_on(policy, tree, ds if with_defaults else [], out_rel)
                            enf_out.load_rules()
                        except Exception as e:
                            key = (mechanism('generator', f, [], 'output-not-loadable') if j == 0
                                   else '%sgenerator-crashes-output-not-loadable' % again)
                            ctx.violation(key, case, {'tool': op, 'step': j, 'file': f, 'output': text[:600],
                                                      'observed': type(e).__name__ + ': ' + str(e)[:100]})
                            return
                        if not compare_repeat(ctx, case, j, 'generator', pick(ref[si], surviving), table(enf_out, surviving),
                                              {'output': text[:600], 'judged': label}):
                            return
                else:
                    red = [n for n in f if any(l.startswith('"%s": ' % n) for l in text.splitlines())]
                    if red:
                        ctx.count('same_input_redundant_reports', len(red))
                        red_rel = 'red%d.yaml' % j
                        tree.write(red_rel, {k: v for k, v in f.items() if k not in red}, 'json')
                        t_red = table(enforcer_on(policy, tree, ds, red_rel), names)
                        ctx.count('same_input_decisions_compared', len(t_red))
                        if t_red != ref[si]:
                            diff = [k for k in ref[si] if ref[si][k] != t_red.get(k)]
                            ctx.violation('%sredundant-rule-not-deletable' % again, case,
                                          {'reported': red, 'step': j, 'steps_before': case['steps'][:j], 'file': f,
                                           'examples': {k: [ref[si][k], t_red.get(k)] for k in diff[:4]}})
                            return
    finally:
        tree.cleanup()


def gen_repeat_case(rnd):
    spec_a, spec_b = gen_defaults(rnd), gen_defaults(rnd)
    shape_b = rnd.choice(['plain', 'plain', 'alt', 'renamed'])
    sets = [dict(shape='renamed', spec=spec_a),
            dict(shape=shape_b, spec=spec_b if (shape_b == 'renamed' or rnd.random() < 0.5) else spec_a)]
    if rnd.random() < 0.5:
        sets.reverse()
    f = gen_file(rnd, spec_a, variants=0.3)
    in_fmt = rnd.choice(['yaml', 'yaml', 'yaml-lines', 'json'])
    steps = []
    for j in range(rnd.randint(2, 4)):
        si = j % 2 if rnd.random() < 0.7 else rnd.randrange(2)
        ops = ['upgrade', 'upgrade', 'upgrade']
        if j:
            ops.append('enforcer')
        if in_fmt == 'json':
            ops += ['convert', 'convert']
        if not (renames_old(sets[si]['shape']) and any(n in f for n in OLD_NAMES)):
            ops += ['generator', 'generator', 'redundant']          # the quantifier: no operator override under a deprecated name
        op = rnd.choice(ops)
        st = dict(op=op, set=si)
        if op in ('upgrade', 'convert'):
            st['ns_obj'] = rnd.choice(['list', 'list', 'chain', 'generator'])
        if op == 'upgrade':
            st['out_fmt'] = rnd.choice(['yaml', 'json'])
        steps.append(st)
    return dict(tool='repeat', sets=sets, file=f, in_fmt=in_fmt, steps=steps)


# ---- stratum 'long': rule texts and names far longer than one line of a generated file ---------------------------------
# (the module's other rules are a few dozen characters; real policy files carry or/and chains of several hundred)

LONG_WORD_ALPHA = 'abcdefghijklmnopqrstuvwxyz0123456789_-.'
LONG_ODD_CHARS = ['\\', '"', 'é', '\U0001F600']
LONG_NAME_HEADS = ['os_compute_api', 'identity', 'volume_extension', 'network', 'image', 'share', 'x']


def long_word(rnd, n, odd=False):
    """One token of n characters without a blank (optionally with characters that a quoting helper has to escape)."""
    az = 'abcdefghijklmnopqrstuvwxyz'
    cs = [rnd.choice(az)] + [rnd.choice(LONG_WORD_ALPHA) for _ in range(max(n - 2, 0))] + [rnd.choice(az)]
    if odd and len(cs) > 4:
        for _ in range(rnd.randint(1, 4)):
            cs[rnd.randrange(1, len(cs) - 1)] = rnd.choice(LONG_ODD_CHARS)
    return ''.join(cs)


def long_len(rnd):
    r = rnd.random()
    if r < 0.1:
        return rnd.randint(60, 79)          # below 80 on its own, beyond it once the name stands in front
    if r < 0.4:
        return rnd.randint(80, 120)
    if r < 0.7:
        return rnd.randint(120, 200)
    return rnd.randint(200, 400)


def long_name(rnd, n, spaces=False, taken=()):
    while True:
        segs = [rnd.choice(LONG_NAME_HEADS)]
        while len(':'.join(segs)) < n:
            segs.append(long_word(rnd, rnd.randint(3, 16)))
        name = segs[0]
        for s in segs[1:]:
            name += (' ' if spaces and rnd.random() < 0.5 else ':') + s
        if name not in taken:
            return name


def long_render(node, paren=True, top=True):
    if isinstance(node, str):
        return node
    if node[0] == 'not':
        return 'not ' + long_render(node[1], paren, False)
    parts = []
    for kid in node[1]:
        t = long_render(kid, paren, False)
        if not isinstance(kid, str) and kid[0] in ('and', 'or') and (paren or not (node[0] == 'or' and kid[0] == 'and')):
            t = '(' + t + ')'
        parts.append(t)
    return (' %s ' % node[0]).join(parts)


def long_eval(node, roles, k):
    """Reference value of a generated chain (only used to reject chains that decide the same for every role subset)."""
    if isinstance(node, str):
        if node == '@':
            return True
        if node.startswith('role:'):
            return node[5:].lower() in [r.lower() for r in roles]
        if node.endswith(':%(k)s'):
            return node[1:-7] == k
        return False                         # '!', rule: references
    if node[0] == 'not':
        return not long_eval(node[1], roles, k)
    vals = [long_eval(kid, roles, k) for kid in node[1]]
    return all(vals) if node[0] == 'and' else any(vals)


def long_chain(rnd, target, absent, shared):
    """A long or/and chain over the role universe: 1-3 live clauses over role:a..d (so that the decision still depends on
    the roles) padded with clauses that are neutral for the 16 role subsets (they mention roles only the extra
    credentials hold, or constants); blanks fall wherever the clause lengths put them."""
    def live():
        r = rnd.random()
        if r < 0.12:
            return "'y':%(k)s"
        if r < 0.22 and shared:
            return 'rule:' + shared
        leaf = 'role:' + rnd.choice(ROLES)
        return ('not', leaf) if r > 0.8 else leaf

    def neutral(false):
        r = rnd.random()
        if r < 0.15:
            leaf = '!' if false else '@'
        elif r < 0.3:
            return "'zz':%(k)s" if false else ('not', "'zz':%(k)s")
        else:
            leaf = 'role:' + rnd.choice(absent)
            if not false:
                return ('not', leaf)
        return leaf

    for _ in range(6):
        shape = rnd.choice(['dnf', 'dnf', 'cnf', 'or', 'and'])
        top = 'or' if shape in ('dnf', 'or') else 'and'
        inner = 'and' if top == 'or' else 'or'
        kids = []
        for _ in range(rnd.randint(1, 3)):
            n = 1 if shape in ('or', 'and') else rnd.randint(1, 3)
            kids.append((inner, [live() for _ in range(n)]) if n > 1 else live())
        paren = shape != 'dnf' or rnd.random() < 0.6
        while len(long_render((top, kids), paren)) < target:
            if shape in ('or', 'and'):
                kids.append(neutral(top == 'or'))
            else:
                cl = [live() for _ in range(rnd.randint(0, 2))] + [neutral(top == 'or')]
                rnd.shuffle(cl)
                kids.append((inner, cl) if len(cl) > 1 else cl[0])
        rnd.shuffle(kids)
        node = (top, kids) if len(kids) > 1 else kids[0]
        seen = {long_eval(node, roles, k) for roles in SUBS for k in ('x', 'y')}
        if len(seen) == 2:
            break
    return long_render(node, paren)


def long_list(rnd, target, absent):
    """A long rule in the legacy list-of-lists syntax."""
    out = []
    while len(json.dumps(out)) < target:
        inner = []
        for _ in range(rnd.randint(1, 3)):
            r = rnd.random()
            inner.append('role:' + rnd.choice(ROLES) if r < 0.5 else 'role:' + rnd.choice(absent) if r < 0.9 else rnd.choice(['!', "'y':%(k)s"]))
        out.append(inner if rnd.random() < 0.85 else inner[0])
    return out


def long_text(rnd, absent, tokens, shared, lists=False):
    """One long rule value: a chain with blanks at many positions, or a single token without any blank."""
    r = rnd.random()
    if lists and r < 0.15:
        return long_list(rnd, long_len(rnd), absent)
    if r < 0.3:
        tok = 'role:' + rnd.choice(tokens)
        r2 = rnd.random()
        if r2 < 0.5:
            return tok                                              # no blank at all
        if r2 < 0.75:
            return '%s %s %s' % (rnd.choice(['role:a', 'role:b', 'not role:c']), rnd.choice(['or', 'and']), tok)   # blanks only at the start
        return '%s %s %s' % (tok, rnd.choice(['or', 'and']), rnd.choice(['role:a', 'role:d', "'y':%(k)s"]))      # blanks only at the end
    return long_chain(rnd, long_len(rnd), absent, shared)


def gen_long_case(rnd):
    op = rnd.choice(['convert', 'convert', 'convert', 'upgrade', 'upgrade', 'generator', 'generator', 'generator'])
    # roles that none of the 16 subsets holds (the extra credentials of the case hold them): medium words and long tokens
    absent = [long_word(rnd, rnd.randint(6, 40), odd=rnd.random() < 0.15) for _ in range(rnd.randint(3, 5))]
    tokens = [long_word(rnd, rnd.randint(80, 300), odd=rnd.random() < 0.4) for _ in range(2)]
    creds = [[absent[0]], [absent[1], 'b'], [tokens[0]], [tokens[1], 'a'], [tokens[0], absent[2], 'c', 'd']]
    taken = []

    def name(long_p=0.5, spaces_p=0.12):
        r = rnd.random()
        n = rnd.randint(80, 200) if r < long_p else rnd.randint(30, 79) if r < long_p + 0.25 else rnd.randint(6, 29)
        nm = long_name(rnd, n, spaces=rnd.random() < spaces_p, taken=taken)
        taken.append(nm)
        return nm

    shared = 'base' if rnd.random() < 0.5 else name(0.4, 0.0)

    def check(long_p=0.75, refs=True):
        if rnd.random() < long_p:
            return long_text(rnd, absent, tokens, shared if refs else None)
        return gen_rule(rnd, 1).replace('rule:base', 'rule:' + shared if refs else 'role:b')

    entries = [dict(name=shared, check=check(0.4, refs=False))]
    for _ in range(rnd.randint(2, 4)):
        e = dict(name=name(), check=check())
        if rnd.random() < 0.4:
            e.update(doc=True, desc=rnd.choice(['d', 'Show the details of one %s.' % long_word(rnd, rnd.randint(5, 90)),
                                                ' '.join(long_word(rnd, rnd.randint(2, 12)) for _ in range(rnd.randint(5, 40)))]))
        entries.append(e)
    entries.append(dict(name=name(), check=check(), old=dict(name=name(), check=check(0.5))))           # renamed one-to-one
    if rnd.random() < 0.5:
        nm = name()
        entries.append(dict(name=nm, check=check(), old=dict(name=nm, check=check(0.5))))               # changed default, same name
    f = {}
    for e in entries:
        old = e.get('old')
        if old and old['name'] != e['name'] and op != 'generator' and rnd.random() < 0.4:
            # an override under the deprecated name (never beside its successor; the generator sees none)
            r = rnd.random()
            f[old['name']] = alias_of(rnd, e['name']) if r < 0.25 else long_text(rnd, absent, tokens, shared, lists=True) if r < 0.85 else gen_rule(rnd, 1, 0.15).replace('rule:base', 'rule:' + shared)
            continue
        if rnd.random() < 0.7:
            r = rnd.random()
            dt = e['check']
            if r < 0.3:
                f[e['name']] = dt                                   # textually the registered default
            elif r < 0.5:
                f[e['name']] = variant(rnd, dt)                     # the default, spelled differently
            elif r < 0.63:
                f[e['name']] = near_miss(rnd, dt)
            elif r < 0.9:
                f[e['name']] = long_text(rnd, absent, tokens, shared if e['name'] != shared else None, lists=True)
            else:
                f[e['name']] = gen_rule(rnd, 2, 0.15).replace('rule:base', 'rule:' + shared if e['name'] != shared else 'role:c')
    for _ in range(rnd.randint(0, 2)):
        f[name(0.5, 0.2)] = long_text(rnd, absent, tokens, shared, lists=True) if rnd.random() < 0.8 else gen_rule(rnd, 2, 0.15).replace('rule:base', 'rule:' + shared)
    if rnd.random() < 0.5:
        ks = list(f)
        rnd.shuffle(ks)
        f = {k: f[k] for k in ks}
    case = dict(tool='long', op=op, defaults=entries, file=f, creds=creds, ns_obj=rnd.choice(['list', 'list', 'chain', 'generator']))
    if op == 'upgrade':
        case.update(in_fmt=rnd.choice(['json', 'yaml', 'yaml-lines']), out_fmt=rnd.choice(['yaml', 'yaml', 'json']))
    elif op == 'generator':
        case.update(in_fmt=rnd.choice(['json', 'yaml', 'yaml-lines']), in_main=[k for k in f if rnd.random() < 0.6])
    return case


def build_long_defaults(policy, entries):
    ds = []
    for e in entries:
        dep = None
        if e.get('old'):
            dep = policy.DeprecatedRule(e['old']['name'], e['old']['check'], deprecated_reason='r', deprecated_since='s')
        if e.get('doc'):
            ds.append(policy.DocumentedRuleDefault(e['name'], e['check'], e.get('desc') or 'd', [{'path': '/', 'method': 'GET'}],
                                                   deprecated_rule=dep))
        else:
            ds.append(policy.RuleDefault(e['name'], e['check'], deprecated_rule=dep))
    return ds


def squeeze(v):
    return ' '.join(v.lower().split()) if isinstance(v, str) else None


def blank_in_list_leaf(v):
    if isinstance(v, list):
        return any(isinstance(x, list) and blank_in_list_leaf(x) or isinstance(x, str) and len(x.split()) > 1 for x in v)
    return False


def compare_long(ctx, case, op, t_in, t_out, extra):
    ctx.count('long_text_decisions_compared', len(t_in))
    if t_in == t_out:
        return True
    diff = [k for k in t_in if t_in[k] != t_out.get(k)]
    names = sorted({k.split('|')[0] for k in diff})
    key = '%s-long-text-changes-decisions' % op
    if op != 'upgrade' and any(blank_in_list_leaf(case['file'].get(n)) for n in names):
        # not a matter of length: the rule of a differing name is a list-of-lists rule with a leaf that contains a blank
        # (one check in the list syntax, several tokens once the tool has written the rule as a check string)
        key = 'rewrite-list-leaf-with-blank'
    ctx.violation(key, case,
                  dict(extra, tool=op, file=case['file'], differing_names=names,
                       examples={k[:160]: [t_in[k], t_out.get(k)] for k in diff[:4]}))
    return False


def check_long(ctx, case):
    from oslo_config import cfg
    from oslo_policy import generator, policy
    op, f, entries, creds = case['op'], case['file'], case['defaults'], case['creds']
    ds = build_long_defaults(policy, entries)
    regnames = [d.name for d in ds]
    oldnames = [e['old']['name'] for e in entries if e.get('old') and e['old']['name'] != e['name']]
    unknown = [n for n in f if n not in regnames and n not in oldnames] + ['unknown:x']
    tree = files.Tree(dirs=('pd',))
    try:
        ctx.case(case, nontrivial=any(n in f for n in regnames + oldnames), stratum='long')
        ctx.count('long_text_cases')
        ctx.count('long_text_cases.' + op)
        ctx.count('long_text_items_over_80', sum(1 for k, v in f.items() for t in (k, v if isinstance(v, str) else json.dumps(v)) if len(t) > 80))
        ctx.count('long_text_equal_default_rules',
                  sum(1 for e in entries if len(e['check']) > 80 and e['name'] in f and squeeze(f[e['name']]) == squeeze(e['check'])))

        def fail(what, detail):
            ctx.violation('%s-long-text-%s' % (op, what), case, dict(detail, tool=op, file=f))

        def ns(obj):
            return mock.patch('stevedore.named.NamedExtensionManager', return_value=mgr_for({'ns': obj}))

        if op in ('convert', 'upgrade'):
            in_fmt = 'json' if op == 'convert' else case['in_fmt']
            in_rel = 'in.json' if in_fmt == 'json' else 'in.yaml'
            tree.write(in_rel, f, in_fmt)
            # convert keeps the deprecated names (as extra rules); they do not survive an upgrade
            names = regnames + unknown + (oldnames if op == 'convert' else [])
            t_in = table(enforcer_on(policy, tree, ds, in_rel), names, creds)
            out_rel = 'out.' + (case['out_fmt'] if op == 'upgrade' else 'yaml')
            out = tree.path(out_rel)
            try:
                with ns(one_shot(ds, case.get('ns_obj'))):
                    if op == 'convert':
                        generator.convert_policy_json_to_yaml(['--policy-file', tree.path(in_rel), '--namespace', 'ns',
                                                               '--output-file', out], conf=cfg.ConfigOpts())
                    else:
                        generator.upgrade_policy(['--policy', tree.path(in_rel), '--namespace', 'ns', '--output-file', out,
                                                  '--format', case['out_fmt']], conf=cfg.ConfigOpts())
            except BaseException as e:
                if isinstance(e, KeyboardInterrupt):
                    raise
                return fail('crashes-' + type(e).__name__, {'observed': '%s: %s' % (type(e).__name__, str(e)[:100])})
            tree.stamp(out)
            try:
                enf_out = enforcer_on(policy, tree, ds, out_rel)
                enf_out.load_rules()
            except Exception as e:
                return fail('output-not-loadable', {'output': open(out).read()[:1500], 'observed': type(e).__name__ + ': ' + str(e)[:200]})
            compare_long(ctx, case, op, t_in, table(enf_out, names, creds), {'output': open(out).read()[:1500]})
            return
        # generator and list-redundant: main file + directory overrides, each name in at most one file
        main = {k: v for k, v in f.items() if k in case['in_main']}
        dirf = {k: v for k, v in f.items() if k not in case['in_main']}
        tree.write('policy.yaml', main, case['in_fmt'])
        if dirf:
            tree.write('pd/over.yaml', dirf, case['in_fmt'])
        names = regnames + unknown
        enf_in = enforcer_on(policy, tree, ds, 'policy.yaml', dirs=('pd',))
        t_in = table(enf_in, names, creds)
        texts = {}
        for tool in ('generator', 'redundant'):
            buf = io.StringIO()
            try:
                with ns(enf_in), contextlib.redirect_stdout(buf):
                    cfg.CONF.reset()
                    if tool == 'generator':
                        generator.generate_policy(['--namespace', 'ns'])
                    else:
                        generator.list_redundant(['--namespace', 'ns'])
            except BaseException as e:
                if isinstance(e, KeyboardInterrupt):
                    raise
                ctx.violation('%s-long-text-crashes-%s' % (tool if tool == 'generator' else 'list-redundant', type(e).__name__), case,
                              {'tool': tool, 'file': f, 'observed': '%s: %s' % (type(e).__name__, str(e)[:100])})
                return
            finally:
                cfg.CONF.reset()
            texts[tool] = buf.getvalue()
            if tool == 'generator':
                tree.write_text('gen_out.yaml', texts[tool])
                for label, with_defaults in (('beside-defaults', True), ('alone', False)):
                    try:
                        enf_out = enforcer_on(policy, tree, ds if with_defaults else [], 'gen_out.yaml')
                        enf_out.load_rules()
                    except Exception as e:
                        return fail('output-not-loadable', {'output': texts[tool][:1500], 'observed': type(e).__name__ + ': ' + str(e)[:200]})
                    if not compare_long(ctx, case, 'generator', t_in, table(enf_out, names, creds),
                                        {'output': texts[tool][:1500], 'judged': label}):
                        return
        # a reported rule is recognised by its "name": prefix at the start of a line (as in the other strata)
        red = [n for n in f if any(l.startswith('%s: ' % json.dumps(n)) for l in texts['redundant'].splitlines())]
        if red:
            ctx.count('long_text_redundant_reports', len(red))
            tree.write('policy.yaml', {k: v for k, v in main.items() if k not in red}, case['in_fmt'])
            if dirf:
                tree.write('pd/over.yaml', {k: v for k, v in dirf.items() if k not in red}, case['in_fmt'])
            t_red = table(enforcer_on(policy, tree, ds, 'policy.yaml', dirs=('pd',)), names, creds)
            if t_red != t_in:
                diff = [k for k in t_in if t_in[k] != t_red[k]]
                ctx.violation('long-text-redundant-rule-not-deletable', case,
                              {'reported': red, 'file': f, 'examples': {k[:160]: [t_in[k], t_red[k]] for k in diff[:4]}})
    finally:
        tree.cleanup()


# ---- stratum 'place': where the tool's output goes, relative to what it reads ------------------------------------------
# (the other strata always write to a fresh file or to stdout; operators upgrade / convert / regenerate IN PLACE)

PLACE_SAME = ['same', 'same', 'same-dotted', 'same-relative', 'same-symlink-out', 'same-symlink-in', 'same-hardlink']
PLACE_WHERE = {'upgrade': ['new', 'stdout', 'existing', 'existing'] + PLACE_SAME,
               'convert': ['new', 'stdout', 'existing', 'existing'] + PLACE_SAME,
               'generator': ['new', 'existing', 'existing', 'in-dir', 'in-dir', 'same-dir-file', 'same-dir-file'] + PLACE_SAME}


def place_class(where):
    if where.startswith('same'):
        return 'in-place'
    return {'existing': 'over-existing-file', 'in-dir': 'into-policy-dir'}.get(where)


def gen_place_case(rnd):
    spec = gen_defaults(rnd)
    op = rnd.choice(['upgrade', 'upgrade', 'convert', 'generator', 'generator'])
    case = dict(tool='place', op=op, defaults=spec, where=rnd.choice(PLACE_WHERE[op]),
                ns_obj=rnd.choice(['list', 'list', 'chain', 'generator']))
    if op == 'upgrade':
        case.update(file=gen_file(rnd, spec), in_fmt=rnd.choice(['json', 'yaml', 'yaml-lines']), out_fmt=rnd.choice(['yaml', 'yaml', 'json']),
                    in_rel=rnd.choice(['policy.yaml', 'policy.yaml', 'pd/over.yaml']))
    elif op == 'convert':
        case.update(file=gen_file(rnd, spec), in_fmt='json', in_rel=rnd.choice(['policy.json', 'policy.json', 'pd/over.json']))
    else:
        f = gen_file(rnd, spec, allow_deprecated=False, variants=0.5)
        case.update(file=f, in_fmt=rnd.choice(['json', 'yaml', 'yaml-lines']), in_rel='policy.yaml', in_main=[k for k in f if rnd.random() < 0.6],
                    out_name=rnd.choice(['00-merged.yaml', 'zz-merged.yaml']), living=rnd.random() < 0.5)
    # what an EXISTING output file holds before the run: another policy, longer than any output, that decides otherwise
    case['other'] = dict(fmt=rnd.choice(['yaml-lines', 'yaml-lines', 'json']), pad=rnd.randint(40, 120),
                         rules=[rnd.choice(['!', '@', 'role:d', 'not role:a']) for _ in range(12)])
    return case


def other_content(case, names):
    o = case['other']
    m = {'zz:pad%03d' % i: 'role:pad%d or role:a' % i for i in range(o['pad'])}
    for i, n in enumerate(names):            # the compared names come LAST: what is left of this text behind a shorter output still speaks about them
        m[n] = o['rules'][i % len(o['rules'])]
    return files.render(m, o['fmt'])


def check_place(ctx, case):
    import sys
    from oslo_config import cfg
    from oslo_policy import generator, policy
    op, f, where = case['op'], case['file'], case['where']
    ds = build_defaults(policy, case['defaults'])
    regnames = [d.name for d in ds]
    cls = place_class(where)
    tree = files.Tree(dirs=('pd',))
    cwd = None
    try:
        ctx.case(case, nontrivial=any(n in f for n in regnames + OLD_NAMES), stratum='place')
        ctx.count('output_place_cases')
        ctx.count('output_place_cases.' + op)
        ctx.count('output_place_cases.' + (cls or 'fresh'))
        in_rel = case['in_rel']
        names = regnames + ['unknown:x'] + (OLD_NAMES if op == 'convert' else [])
        dirs = ()
        if op == 'generator':
            main = {k: v for k, v in f.items() if k in case['in_main']}
            dirf = {k: v for k, v in f.items() if k not in case['in_main']}
            tree.write('policy.yaml', main, case['in_fmt'])
            if dirf or where == 'same-dir-file':
                tree.write('pd/over.yaml', dirf, case['in_fmt'])
            dirs = ('pd',)
        else:
            tree.write(in_rel, f, case['in_fmt'])
        # FIRST: what the policy the tool is given decides (the input may be gone afterwards)
        enf_in = enforcer_on(policy, tree, ds, in_rel, dirs=dirs)
        t_in = table(enf_in, names)
        text_in = open(tree.path(in_rel)).read()
        ext = os.path.splitext(in_rel)[1]
        target_rel = 'pd/over.yaml' if where == 'same-dir-file' else in_rel       # the input file that is written over
        in_arg, out, judge_rel = tree.path(in_rel), None, target_rel
        if where == 'new':
            judge_rel = 'out' + ext
            out = tree.path(judge_rel)
        elif where == 'existing':
            judge_rel = 'out' + ext
            out = tree.write_text(judge_rel, other_content(case, names))
        elif where == 'in-dir':
            judge_rel = 'pd/' + case['out_name']
            out = tree.path(judge_rel)
        elif where == 'stdout':
            judge_rel = 'out' + ext
        elif where in ('same', 'same-dir-file'):
            out = tree.path(target_rel)
        elif where == 'same-dotted':
            out = os.path.join(tree.root, 'pd', '..', '.', target_rel)
        elif where == 'same-relative':
            cwd = os.getcwd()
            os.chdir(tree.root)
            out = target_rel
        elif where == 'same-symlink-out':
            out = tree.symlink('link' + ext, target_rel)
        elif where == 'same-symlink-in':
            out = tree.path(target_rel)
            link = tree.symlink('link' + ext, target_rel)
            if op == 'generator':
                enf_in = enforcer_on(policy, tree, ds, 'link' + ext, dirs=dirs)     # the service's policy_file is the link
            else:
                in_arg = link
        elif where == 'same-hardlink':
            out = tree.path('hard' + ext)
            os.link(tree.path(target_rel), out)
            tree.stamp(out)
        else:
            raise ValueError(where)
        if op == 'generator' and not case.get('living') and where != 'same-symlink-in':
            enf_in = enforcer_on(policy, tree, ds, in_rel, dirs=dirs)         # as the entry point hands it over: nothing loaded yet
        tail = ['--output-file', out] if out else []

        def key(what, names_=(), exc=None):
            if cls is None:
                return mechanism(op, f, list(names_), exc)                     # a plain single run of the tool
            return '%s-output-%s-%s' % (op, cls, what)

        buf = io.StringIO()
        try:
            if op == 'generator':
                with mock.patch('stevedore.named.NamedExtensionManager', return_value=mgr_for({'ns': enf_in})), contextlib.redirect_stdout(buf):
                    cfg.CONF.reset()
                    try:
                        generator.generate_policy(['--namespace', 'ns'] + tail)
                    finally:
                        cfg.CONF.reset()
            else:
                with mock.patch('stevedore.named.NamedExtensionManager', return_value=mgr_for({'ns': one_shot(ds, case.get('ns_obj'))})), \
                        contextlib.redirect_stdout(buf):
                    if op == 'upgrade':
                        generator.upgrade_policy(['--policy', in_arg, '--namespace', 'ns', '--format', case['out_fmt']] + tail,
                                                 conf=cfg.ConfigOpts())
                    else:
                        generator.convert_policy_json_to_yaml(['--policy-file', in_arg, '--namespace', 'ns'] + tail, conf=cfg.ConfigOpts())
        except BaseException as e:
            if isinstance(e, KeyboardInterrupt):
                raise
            ctx.violation(key('crashes-' + type(e).__name__, exc=type(e).__name__), case,
                          {'tool': op, 'where': where, 'file': f, 'observed': '%s: %s' % (type(e).__name__, str(e)[:100])})
            return
        finally:
            if cwd is not None:
                os.chdir(cwd)
                cwd = None
        if out is None:
            tree.write_text(judge_rel, buf.getvalue())
        else:
            tree.stamp(tree.path(judge_rel))
        text_out = open(tree.path(judge_rel)).read()
        detail = {'where': where, 'file': f, 'input_text': text_in[:600], 'output': text_out[:600]}
        # the produced file as a policy file: beside the registered defaults and (generator) on its own; then the operator's
        # configuration as it stands after the run (produced file + the files the tool had no business changing)
        judges = [('beside-defaults', judge_rel, (), True)]
        if op == 'generator':
            judges += [('alone', judge_rel, (), False), ('configuration-after-run', in_rel, dirs, True)]
        elif cls != 'in-place':
            judges += [('input-after-run', in_rel, (), True)]
        for label, rel, jdirs, with_defaults in judges:
            try:
                enf_out = enforcer_on(policy, tree, ds if with_defaults else [], rel, dirs=jdirs)
                enf_out.load_rules()
            except Exception as e:
                ctx.violation(key('output-not-loadable', exc='output-not-loadable'), case,
                              dict(detail, tool=op, judged=label, observed=type(e).__name__ + ': ' + str(e)[:100]))
                return
            t_out = table(enf_out, names)
            ctx.count('decisions_compared', len(t_in))
            ctx.count('output_place_decisions_compared', len(t_in))
            if t_out != t_in:
                diff = [k for k in t_in if t_in[k] != t_out.get(k)]
                dn = sorted({k.split('|')[0] for k in diff})
                excs = sorted({str(t_out[k]) for k in diff if isinstance(t_out.get(k), str)})
                k_ = ('input-policy-decides-differently-after-tool' if label == 'input-after-run'
                      else key('changes-decisions', dn, excs[0][4:] if excs else None))
                ctx.violation(k_, case, dict(detail, tool=op, judged=label, differing_names=dn,
                                             examples={k: [t_in[k], t_out.get(k)] for k in diff[:4]}))
                return
    finally:
        if cwd is not None:
            os.chdir(cwd)
        tree.cleanup()


def gen_case(rnd):
    spec = gen_defaults(rnd)
    tool = rnd.choice(['upgrade', 'upgrade', 'convert', 'convert', 'generator', 'generator', 'generator'])
    if tool == 'upgrade':
        return dict(tool=tool, defaults=spec, file=gen_file(rnd, spec), in_fmt=rnd.choice(['json', 'yaml']),
                    out_fmt=rnd.choice(['yaml', 'json']), ns_obj=rnd.choice(['list', 'list', 'chain', 'generator']))
    if tool == 'convert':
        return dict(tool=tool, defaults=spec, file=gen_file(rnd, spec), ns_obj=rnd.choice(['list', 'list', 'chain', 'generator']))
    f = gen_file(rnd, spec, allow_deprecated=False, variants=0.6)
    case = dict(tool=tool, defaults=spec, file=f, in_main=[k for k in f if rnd.random() < 0.6])
    if rnd.random() < 0.4:
        f2 = {k: v for k, v in f.items() if rnd.random() < 0.6}             # some overrides withdrawn
        f2.update({k: v for k, v in gen_file(rnd, spec, allow_deprecated=False, variants=0.3).items() if rnd.random() < 0.4})
        case.update(then_file=f2, then_in_main=[k for k in f2 if rnd.random() < 0.5], then_touch_main=rnd.random() < 0.5)
    return case


def run(ctx):
    rnd = ctx.rnd
    rrnd = ctx.sub_rnd('repeat', ctx.tier, ctx.shard)
    lrnd = ctx.sub_rnd('long', ctx.tier, ctx.shard)
    prnd = ctx.sub_rnd('place', ctx.tier, ctx.shard)
    for i in range(N[ctx.tier] // ctx.nshards + 1):
        if ctx.expired():
            break
        case = gen_case(rnd)
        check_case(ctx, case)
        if i % 40 == 0:
            ctx.sample(case, case['tool'])
        if i % 6 == 0:
            # interleaved (own random stream, so the cases above stay what they were): the same input text again and again
            rcase = gen_repeat_case(rrnd)
            check_case(ctx, rcase)
            if i % 36 == 0:
                ctx.sample(rcase, 'repeat')
        if i % 5 == 2:
            # interleaved, own random stream again: rule texts and names of 80-400 characters
            lcase = gen_long_case(lrnd)
            check_case(ctx, lcase)
            if i % 35 == 2:
                ctx.sample(lcase, 'long')
        if i % 4 == 1:
            # interleaved, own random stream: the output goes over an existing file, over the input itself, into the policy directory
            pcase = gen_place_case(prnd)
            check_case(ctx, pcase)
            if i % 32 == 1:
                ctx.sample(pcase, 'place')
    ctx.stratum('random', exhaustive=False)
    ctx.stratum('repeat', exhaustive=False)
    ctx.stratum('long', exhaustive=False)
    ctx.stratum('place', exhaustive=False)


def replay(ctx, case):
    check_case(ctx, case)
