"""C12 - loading is idempotent and never mutates what the service registered.

History monitor: 1-3 real Enforcers with their own options and files share one
list of RuleDefault / DeprecatedRule objects.  After every step of an
interleaving of {load, forced load, enforce, edit file}:
 (i)   each enforcer's effective policy (decisions + printed rule store) equals that of a fresh enforcer built from
       pristine, re-constructed defaults;
 (ii)  a deep attribute snapshot of the caller-owned objects equals the initial snapshot;
 (iii) printed rules never grow between two steps that do not edit that enforcer's files.
Strata D0 / D: policy directories with several files defining the same names, enforcers built with overwrite=False or the
default, touches (same bytes, newer mtime) and edits of single files."""
import itertools

from pv.core import env
from pv.gen import files
from pv.mon import contracts

ID = 'C12'
LEVEL = 'exploration'
TECHNIQUE = ('history monitor: interleavings of load / forced load / enforce / edit over several real Enforcers sharing '
             'caller-owned defaults; per-step differential against a fresh Enforcer and deep attribute snapshots of the shared objects; two enforcers loading at the same time under a deterministic line-level thread scheduler (sys.monitoring)')
RULE = ('histories over {load, forced load, enforce, edit file} x enforcer index; H = every interleaving up to the length '
        'bound for two enforcers (one with enforce_new_defaults off, one on); R = random interleavings of 5-30 steps over '
        '1-3 enforcers with random option values and file contents, with or without a policy directory (edited too) and with or without a main file (which may be deleted); shared defaults with and without deprecated '
        'predecessors (renamed, same-name with changed default, plain). Non-trivial = the history has at least two loads '
        'of one enforcer or involves two enforcers; distinct = distinct (configuration, history). Stratum `overlap`: two new enforcers registered with the SAME default objects (own files, opposite enforce_new_defaults) perform their first load at the same time, each on its own thread (second one runs at sampled line boundaries of the first, and both in flight): each decides as after a single load, the shared objects are unchanged. Stratum `H1` (faults, exhaustive): ONE enforcer, every history up to the length bound over {load, forced load, enforce, edit, remove the main file, write unparseable content to the main file} that contains a removal or an unparseable write and ends with parseable files (a later edit re-creates / repairs the file); the comparison with a fresh enforcer happens only after the last step, so that the enforcement calls of the comparison itself do not load in between (every prefix is a history of its own). Stratum `F` (faults, random): 1-2 enforcers, random histories over the same operations plus policy-directory edits / unparseable policy-directory files, with fault-then-load-then-repair sequences inserted, every unparseable write repaired later in the history, compared after every step or only after a random subset of steps. While the current files of an enforcer are unparseable (a fresh enforcer raises too) nothing is judged for it (counted as unconstrained.policy-file-unparseable; the statement does not say what a long-lived enforcer does meanwhile); as soon as they are valid again the implicit, explicit and forced loads must all agree with a fresh enforcer. Strata `D0` (systematic) and `D` (random): enforcers constructed with overwrite=False as well as with the default / an explicit overwrite=True (one more option value of the generated worlds; the fresh enforcer of the comparison is built with the same options), a main file or none and a policy directory of two or three files that define overlapping names with different values (the sorted file order decides), and the operations touch (newer modification time, identical bytes) and edit on each single file of the directory and on the main file, a directory file appearing later, and for overwriting enforcers the removal of one directory file; D0 = one enforcer, load, then ONE touch / value edit of ONE file, then load / enforce / forced load, compared after every step or only at the end. An enforcer that does not overwrite merges what it reads into the living store and never removes or recomputes an entry, so it is judged (against a fresh enforcer with the same options that loads the CURRENT files once) only while every definition (file, name) made so far is still made by that file and the file values feeding a default-derived entry are as at construction; otherwise the step is counted as unconstrained.non-overwrite-enforcer-keeps-removed-names / unconstrained.non-overwrite-enforcer-keeps-entry-derived-from-default. Stratum `M` (systematic + random): the objects the service owns in every spelling the library accepts - reason and release on the DeprecatedRule (modern), on the new default only (legacy), one on each, ONE DeprecatedRule object handed to two defaults (legacy with different reasons, or modern), DocumentedRuleDefaults sharing one operations list, a default deprecated for removal, one or two scope types - registered in 1-3 enforcers (own options, files defining nothing / unrelated names / the deprecated name / the new name, with or without policy directories of one to three files); after EVERY step of every stratum each public attribute of each default and of each DeprecatedRule object the service constructed (values, printed check and tree shape) and the identity of the object, of its deprecated rule, of the nodes and operand lists of its check tree and of its list attributes equal the snapshot taken before registration.')
ASSUMPTIONS = ['sharing of sub-objects between registered copies is not alteration: the statement is behavioural, so only '
               'observable attributes (names, check strings, printed checks, tree shape, deprecated fields, scope types) are snapshotted',
               'identity is part of the snapshot only for what the service can reach through the public attributes of ITS objects (the object, its check tree, its deprecated rule, its lists): loading replacing or writing one of these is alteration; what the enforcer does to its registered copies is not looked at',
               'logical clock on every edit (file and directory)',
               '"loading once" for an enforcer built with overwrite=False = a fresh enforcer with the same options loading the current files once; '
               'judged only while no definition was taken out of its files (such an enforcer keeps entries by design)']
LEVEL_TEXT = ('All interleavings up to length 3 (thorough: 4) for two enforcers plus seeded random longer ones over up to '
              'three; comparisons after every step. Interleavings are unbounded, so bounded-exhaustive plus sampling is the level. '
              'Histories with faults (main file removed / momentarily unparseable): all of them up to length 4 (thorough: 5) for one enforcer, compared after '
              'the last step, plus random ones over one or two enforcers compared after every step or after a random subset of steps. '
              'Policy directories with two or three files and enforcers with / without overwrite: every (file, touch or value edit, following load flavour) '
              'combination for one enforcer (480 histories) plus random histories of 4-12 steps over one or two enforcers (quick 160, thorough 6000). '
              'Spellings of the deprecation metadata / shared objects (M): 6 spellings x 6 main files x 1-2 enforcers x 3 flavours of the first load (216 histories) plus random '
              'histories of 3-10 steps over 1-3 enforcers (quick 64, thorough 4000).')
LEVEL_NOTE = 'trusted: a fresh Enforcer with re-constructed defaults as the oracle of "loaded once"; the attribute snapshot function'
PLAN = {'quick': dict(shards=8, wall=150), 'thorough': dict(shards=16, wall=500)}
MIN = {'overlapping_evaluations': 200, 'evaluations': 300, 'steps_compared': 1500, 'snapshots_compared': 1500, 'forced_reloads': 200, 'merged_or_checks_seen': 100,
       'cases.H1': 300, 'cases.F': 30, 'forced_reloads_after_removal': 60, 'loads_raising_while_unparseable': 100, 'recoveries_judged': 100,
       'cases.D0': 150, 'cases.D': 50, 'nonoverwrite_steps_compared_after_touch_or_edit': 200, 'multi_file_directory_steps_compared': 600,
       'touches_one_directory_file': 150, 'edits_one_directory_file': 100,
       'cases.M': 55, 'attribute_snapshots_compared': 1500, 'legacy_metadata_snapshots_compared': 140, 'shared_deprecated_rule_snapshots_compared': 70}
ANCHORS = ['oslo_policy.policy:Enforcer.register_default', 'oslo_policy.policy:Enforcer._handle_deprecated_rule',
           'oslo_policy.policy:Enforcer.load_rules', 'oslo_policy.policy:Enforcer.enforce']
REQUIRED_ANCHORS = ['oslo_policy.policy:Enforcer.load_rules']
BOUNDS = {'quick': dict(L=3, nR=200, L1=4, nF=96), 'thorough': dict(L=4, nR=30000, L1=5, nF=5000)}

NAMES = ['new', 'old', 'same', 'plain', 'zz', 'helper']
ROLES = ['x', 'y', 'z', 'n', 'o', 'p', 'q', 'm']
ROLESETS = [[r] for r in ROLES] + [['n', 'p'], ['o', 'm'], ['p', 'q'], []]
OPS = ['load', 'force', 'enforce', 'edit']
OPS_R = ['load', 'force', 'enforce', 'edit', 'editdir', 'editdir', 'rmmain']
# fault strata: removal of the main file and unparseable content (every one of these makes a fresh enforcer's load raise)
OPS_H1 = ['load', 'force', 'enforce', 'edit', 'rmmain', 'break']
OPS_F = ['load', 'load', 'force', 'force', 'force', 'enforce', 'enforce', 'edit', 'edit', 'editdir', 'rmmain', 'rmmain', 'break', 'break', 'breakdir']
BROKEN = ['{"a": [', ': : :', '- just\n- a list\n', 'just text', '\tnew: role:x\n', '{"new": "role:x"', 'new: role:x\n  old: role:y\n', '42']
# a fault, then some flavour of load while it lasts, then (mostly) the repair
MOTIFS = [['rmmain', 'force'], ['rmmain', 'force', 'load'], ['rmmain', 'force', 'edit'], ['rmmain', 'enforce', 'force'], ['break', 'enforce', 'edit'],
          ['break', 'load', 'edit'], ['break', 'force', 'edit', 'enforce'], ['break', 'enforce', 'rmmain', 'force'], ['breakdir', 'enforce', 'editdir'],
          ['breakdir', 'force', 'editdir'], ['break', 'enforce', 'enforce', 'edit', 'enforce']]
CONTENTS = [{}, {'new': 'role:x'}, {'old': 'role:y'}, {'same': 'role:z', 'plain': 'role:x'}, {'old': 'rule:new'},
            {'extra': 'role:x', 'old': 'role:z', 'new': 'role:y'}, {'helper': 'role:x'}, {'helper': 'role:y', 'new': 'role:z'},
            {'helper': 'role:z'}]


# Strata D0 / D: policy directories with SEVERAL files, enforcers built with or without `overwrite`.
# Families of file contents: the three variants of a family define the same names with different values (so that an edit from
# one variant to another changes values only), and the families overlap in the names they define (sorted file order decides).
DFAMILIES = [
    [{'new': 'role:x', 'helper': 'role:y'}, {'new': 'role:y', 'helper': 'role:z'}, {'new': 'role:z', 'helper': 'role:x'}],
    [{'old': 'role:y', 'plain': 'role:x'}, {'old': 'role:z', 'plain': 'role:q'}, {'old': 'rule:helper', 'plain': 'role:m'}],
    [{'same': 'role:z', 'new': 'role:x', 'old': 'role:y'}, {'same': 'role:x', 'new': 'role:q', 'old': 'role:z'},
     {'same': 'role:n or role:m', 'new': 'rule:helper', 'old': 'role:x'}],
    [{'helper': 'role:x', 'old': 'role:o', 'zz': 'role:x'}, {'helper': 'role:z', 'old': 'role:m', 'zz': 'role:y'},
     {'helper': 'role:p', 'old': 'rule:zz', 'zz': 'role:z'}],
    [{'old': 'role:x'}, {'old': 'role:y'}, {'old': 'role:q'}],
    [{'new': 'role:p', 'same': 'role:q', 'plain': 'role:x', 'helper': 'role:m'}, {'new': 'role:y', 'same': 'role:z', 'plain': 'role:n', 'helper': 'role:q'},
     {'new': 'role:m and role:o', 'same': 'role:x', 'plain': 'rule:helper', 'helper': 'role:y'}],
    [{}, {}, {}],
]
NVAR = 3
DCONTENTS = [v for fam in DFAMILIES for v in fam]
DFILES = ['00-base.yaml', '10-a.json', '50-mid.yaml', '90-site.yaml', 'A.yaml', 'o.yaml', 'z.yaml', 'Z-last.json']
DFORMATS = ['json', 'yaml-lines', 'yaml']
BOUNDS_D = {'quick': dict(nD=160), 'thorough': dict(nD=6000)}


def enforcer_kwargs(ow):
    """Constructor options of a world's enforcers: `overwrite` is only passed when the case names a value (None: the default)."""
    return {} if ow is None else {'overwrite': bool(ow)}


NEW_SHAPES = ['role:n', 'role:n or role:q', 'role:n and role:p', 'not role:z', '(role:n or role:x) or role:q', 'role:n or (role:p and role:q)']
SAME_SHAPES = ['role:n and role:p', 'role:n or role:p', 'role:p', '(role:n and role:p) or role:q']
OLD_SHAPES = ['role:o', 'role:o or role:m', 'role:o and role:m', 'role:n']


class Owned(list):
    """The service's list of defaults plus (`deps`) the DeprecatedRule objects it constructed and handed to them."""
    deps = ()


# stratum M: where the deprecation metadata is spelled and which objects are shared (the `meta` field of a case; 0 = as in the other strata)
META = 6
META_LEGACY = (1, 2, 3, 5)         # forms in which some DeprecatedRule lacks a reason / release that the new default supplies
META_SHARED = (3, 4)               # forms in which ONE DeprecatedRule object is handed to two defaults


def make_defaults(policy, with_dep, dshape=0, meta=0):
    """Caller-owned defaults; `dshape` selects the shapes of the check strings (leaf / or / and / not at the top), `meta` the
    spelling of the deprecation metadata: 0 modern (reason and release on the DeprecatedRule), 1 legacy (both on the NEW default, the
    DeprecatedRule has none: accepted with a DeprecationWarning), 2 split (one on each), 3 ONE legacy DeprecatedRule object handed to
    two defaults that give different reasons, 4 ONE modern DeprecatedRule handed to a DocumentedRuleDefault and a RuleDefault,
    5 DocumentedRuleDefaults sharing one operations list, a default deprecated for removal, two scope types."""
    new_cs = NEW_SHAPES[dshape % len(NEW_SHAPES)]
    same_cs = SAME_SHAPES[(dshape // 2) % len(SAME_SHAPES)]
    old_cs = OLD_SHAPES[(dshape // 3) % len(OLD_SHAPES)]
    m = meta % META
    if m:
        return make_defaults_meta(policy, with_dep, m, new_cs, same_cs, old_cs)
    if with_dep:
        dep = policy.DeprecatedRule('old', old_cs, deprecated_reason='r', deprecated_since='s')
        dep2 = policy.DeprecatedRule('same', 'role:o or role:m', deprecated_reason='r', deprecated_since='s')
        out = Owned([policy.RuleDefault('new', new_cs, deprecated_rule=dep),
                     policy.RuleDefault('same', same_cs, deprecated_rule=dep2, scope_types=['project']),
                     policy.RuleDefault('plain', 'role:p or rule:helper', description='d')])
        out.deps = [dep, dep2]
        return out
    return Owned([policy.RuleDefault('new', new_cs), policy.RuleDefault('same', same_cs),
                  policy.RuleDefault('plain', 'role:p or rule:helper', description='d')])


def make_defaults_meta(policy, with_dep, m, new_cs, same_cs, old_cs):
    R, D = policy.RuleDefault, policy.DocumentedRuleDefault
    deps = []

    def dr(name, cs, reason=None, since=None):
        kw = {}
        if reason:
            kw['deprecated_reason'] = reason
        if since:
            kw['deprecated_since'] = since
        deps.append(policy.DeprecatedRule(name, cs, **kw))
        return deps[-1]

    def kw(dep=None, reason=None, since=None, **more):
        if with_dep and dep is not None:
            more['deprecated_rule'] = dep
            if reason:
                more['deprecated_reason'] = reason
            if since:
                more['deprecated_since'] = since
        return more
    ops = [{'path': '/v1/things', 'method': 'GET'}, {'path': '/v1/things/{id}', 'method': 'POST'}]
    same_old = 'role:o or role:m'
    if m == 1:
        dep, dep2 = (dr('old', old_cs), dr('same', same_old)) if with_dep else (None, None)
        out = [R('new', new_cs, **kw(dep, 'renamed', 'N')), R('same', same_cs, scope_types=['project'], **kw(dep2, 'tightened', 'O')),
               R('plain', 'role:p or rule:helper', description='d')]
    elif m == 2:
        dep, dep2 = (dr('old', old_cs, reason='on the old one'), dr('same', same_old, since='M')) if with_dep else (None, None)
        out = [R('new', new_cs, **kw(dep, None, 'N')), R('same', same_cs, scope_types=['project'], **kw(dep2, 'on the new one', None)),
               R('plain', 'role:p or rule:helper', description='d')]
    elif m == 3:
        dep, dep2 = (dr('old', old_cs), dr('same', same_old, 'r', 's')) if with_dep else (None, None)
        out = [R('new', new_cs, **kw(dep, 'create is split out', 'N')), R('same', same_cs, scope_types=['project'], **kw(dep2)),
               R('plain', 'role:p or rule:helper', description='d'), R('zz', 'role:q or role:x', **kw(dep, 'list is split out', 'O'))]
    elif m == 4:
        dep, dep2 = (dr('old', old_cs, 'split', 'N'), dr('same', same_old)) if with_dep else (None, None)
        out = [D('new', new_cs, 'creates', ops, **kw(dep)), R('same', same_cs, scope_types=['project'], **kw(dep2, 'tightened', 'O')),
               R('plain', 'role:p or rule:helper', description='d'), R('zz', 'role:q or role:x', description='lists', **kw(dep))]
    else:
        dep, dep2 = (dr('old', old_cs), dr('same', same_old)) if with_dep else (None, None)
        out = [D('new', new_cs, 'creates', ops, **kw(dep, 'renamed', 'N')),
               R('same', same_cs, scope_types=['system', 'project'], **kw(dep2, 'tightened', 'O')),
               D('plain', 'role:p or rule:helper', 'going away', ops, deprecated_for_removal=True, deprecated_reason='unused', deprecated_since='P')]
    out = Owned(out)
    out.deps = deps
    return out


def shape(check):
    """Tree shape of a check: class names and leaf texts."""
    rules = getattr(check, 'rules', None)
    if rules is not None:
        return (type(check).__name__, tuple(shape(r) for r in rules))
    inner = getattr(check, 'rule', None)
    if inner is not None:
        return (type(check).__name__, shape(inner))
    return (type(check).__name__, str(check))


def snap(ds):
    out = []
    for d in ds:
        dr = d.deprecated_rule
        out.append((d.name, d.check_str, str(d.check), shape(d.check), d.description, tuple(d.scope_types or ()),
                    d.deprecated_for_removal, d.deprecated_reason, d.deprecated_since,
                    (dr.name, dr.check_str, str(dr.check), shape(dr.check), dr.deprecated_reason, dr.deprecated_since) if dr else None))
    return out


def freeze(v):
    if isinstance(v, dict):
        return ('dict', tuple(sorted((repr(k), freeze(x)) for k, x in v.items())))
    if isinstance(v, (list, tuple)):
        return (type(v).__name__, tuple(freeze(x) for x in v))
    return repr(v)


def tree_ids(check, keep):
    """Identity of the nodes of a check tree and of their operand lists."""
    keep.append(check)
    out = [id(check)]
    rules = getattr(check, 'rules', None)
    if isinstance(rules, (list, tuple)):
        keep.append(rules)
        out.append(id(rules))
        for r in rules:
            out.extend(tree_ids(r, keep))
    inner = getattr(check, 'rule', None)
    if inner is not None and not isinstance(inner, str):
        out.extend(tree_ids(inner, keep))
    return tuple(out)


_CLASS_NAMES = {}


def public_names(obj):
    """Public data attributes: properties / class attributes of the type (per type, computed once) and instance attributes (every time)."""
    t = type(obj)
    names = _CLASS_NAMES.get(t)
    if names is None:
        import inspect
        names = _CLASS_NAMES[t] = frozenset(n for n in dir(t) if not n.startswith('_') and not inspect.isroutine(getattr(t, n, None)))
    return sorted(names | {n for n in vars(obj) if not n.startswith('_')})


def snap_obj(obj, keep):
    """EVERY public attribute of one rule object: values (printed check and tree shape, nested deprecated rule, containers by value) and
    identities (the object, the nodes and operand lists of its check tree, its deprecated rule, its container attributes)."""
    keep.append(obj)
    vals, ids = [('class', type(obj).__name__)], [('self', id(obj))]
    for n in public_names(obj):
        v = getattr(obj, n, '<absent>')
        if n == 'check':
            vals.append((n, str(v), shape(v)))
            ids.append((n, tree_ids(v, keep)))
        elif n == 'deprecated_rule' and v and not isinstance(v, (list, tuple, dict, str)):
            sv, si = snap_obj(v, keep)
            vals.append((n, sv))
            ids.append((n, si))
        else:
            vals.append((n, freeze(v)))
            if isinstance(v, (list, dict)):
                keep.append(v)
                ids.append((n, id(v), tuple(id(x) for x in v if isinstance(x, (list, dict)))))
    return tuple(vals), tuple(ids)


def snap_all(ds):
    """Snapshot of everything the service owns: the defaults AND the DeprecatedRule objects it constructed (`ds.deps`), plus which
    default holds which object.  Returns (per object: label, values, identities) and keeps the objects alive (stable ids)."""
    keep, out = [], []
    for i, d in enumerate(ds):
        out.append(('default %d %s' % (i, getattr(d, 'name', '?')),) + snap_obj(d, keep))
    for i, dep in enumerate(getattr(ds, 'deps', ())):
        out.append(('deprecated-rule %d %s' % (i, getattr(dep, 'name', '?')),) + snap_obj(dep, keep))
    return out, keep


def altered(a0, ds):
    """None, or (mechanism key, detail): what differs between the initial snapshot `a0` and the objects now."""
    before, now = a0[0], snap_all(ds)[0]
    for (label, v0, i0), (_, v1, i1) in zip(before, now):
        if v0 != v1:
            names = [x[0] for x, y in zip(v0, v1) if x != y] or ['attributes']
            key = 'caller-owned-deprecated-rule-mutated' if label.startswith('deprecated-rule') else 'caller-owned-default-mutated'
            return key, {'object': label, 'attributes': names[:4],
                         'before': [repr(x)[:120] for x, y in zip(v0, v1) if x != y][:2], 'now': [repr(y)[:120] for x, y in zip(v0, v1) if x != y][:2]}
    for (label, v0, i0), (_, v1, i1) in zip(before, now):
        if i0 != i1:
            return 'caller-owned-object-part-replaced', {'object': label, 'attributes': [x[0] for x, y in zip(i0, i1) if x != y][:4]}
    if len(before) != len(now):
        return 'caller-owned-default-mutated', {'objects_before': len(before), 'objects_now': len(now)}
    return None


def decisions(enf):
    out = {}
    for n in NAMES:
        for rs in ROLESETS:
            try:
                out[n + '/' + '+'.join(rs)] = bool(enf.enforce(n, {}, {'roles': list(rs), 'project_id': 'p'}))
            except Exception as e:
                out[n + '/' + '+'.join(rs)] = 'EXC:' + type(e).__name__
    return out


def printed(enf):
    return {k: str(v) for k, v in enf.rules.items()}


def note_files(w):
    """Book-keeping for enforcers that do not overwrite: every definition (file, name) made so far, and whether the values the
    files give to the deprecated predecessor `old` have changed since the enforcer was built."""
    for rel, m in w['content'].items():
        w['ever'].update((rel, n) for n in m)
    dep = tuple(sorted((rel, m.get('old')) for rel, m in w['content'].items()))
    if w['dep0'] is None:
        w['dep0'] = dep
    elif dep != w['dep0']:
        w['dep_changed'] = True


def keeps_entries(w, with_dep):
    """Why a fresh enforcer loading the current files once is NOT the yardstick for this non-overwriting enforcer right now (None: it is).
    Entries of the living store are only ever replaced by what a file that is read again defines now, so (1) a definition taken out of
    a file (a name dropped by an edit, a file deleted) stays in force - also when another file still defines the name with another
    value, because the main file is not read again when only the directory changed - and (2) the entry that was derived for `new` from
    the registered default and the file value of its deprecated predecessor `old` (defaults are only consulted for names absent from
    the store) stays as derived at the first load.  Judged: histories in which every definition made so far is still made by the same
    file (values may have changed, definitions and files may have been added)."""
    now = {(rel, n) for rel, m in w['content'].items() for n in m}
    if w['ever'] - now:
        return 'non-overwrite-enforcer-keeps-removed-names'
    if with_dep and w['dep_changed'] and not any(n == 'new' for _, n in now):
        return 'non-overwrite-enforcer-keeps-entry-derived-from-default'
    return None


def run_history(ctx, case):
    from oslo_policy import policy
    shared = make_defaults(policy, case['with_dep'], case.get('dshape', 0), case.get('meta', 0))
    s0 = snap(shared)
    a0 = snap_all(shared)
    meta = case.get('meta', 0) % META
    worlds = []
    try:
        for cfg_ in case['enforcers']:
            with_dir = bool(cfg_.get('with_dir'))
            tree = files.Tree(dirs=('pd',) if with_dir else ())
            if cfg_['initial'] is not None:
                tree.write('policy.yaml', CONTENTS[cfg_['initial']], 'json')
            if with_dir and cfg_.get('dir_initial') is not None:
                tree.write('pd/o.yaml', CONTENTS[cfg_['dir_initial']], 'json')
            dirs = [tree.path('pd')] if with_dir else []
            # strata D0 / D: the main file and SEVERAL directory files come from the content families (`dmain`, `dir_files`); the
            # enforcer may be built with an explicit `overwrite` option
            content = {}
            if cfg_['initial'] is not None:
                content['policy.yaml'] = CONTENTS[cfg_['initial']]
            if with_dir and cfg_.get('dir_initial') is not None:
                content['pd/o.yaml'] = CONTENTS[cfg_['dir_initial']]
            if cfg_.get('dmain') is not None:
                tree.write('policy.yaml', DCONTENTS[cfg_['dmain'][0]], DFORMATS[cfg_['dmain'][1] % len(DFORMATS)])
                content['policy.yaml'] = DCONTENTS[cfg_['dmain'][0]]
            dfiles = []
            for name, ci, fmt in (cfg_.get('dir_files') or []) if with_dir else []:
                dfiles.append('pd/' + name)
                if ci is not None:
                    tree.write('pd/' + name, DCONTENTS[ci], DFORMATS[fmt % len(DFORMATS)])
                    content['pd/' + name] = DCONTENTS[ci]
            ow = cfg_.get('overwrite')
            enf = policy.Enforcer(tree.conf(policy_dirs=dirs, enforce_new_defaults=cfg_['flag']), **enforcer_kwargs(ow))
            enf.register_defaults(shared)
            worlds.append(dict(tree=tree, enf=enf, flag=cfg_['flag'], last=None, dirs=dirs, broken=set(), was_broken=False, touched=False,
                               had_main=cfg_['initial'] is not None or cfg_.get('dmain') is not None, ow=ow, dfiles=dfiles, content=content,
                               ever=set(), dep0=None, dep_changed=False, bumped=False))
            note_files(worlds[-1])

        def fresh_exception(ww):
            """Name of the exception a fresh enforcer's first load raises for ww's current files (None: it loads)."""
            f = policy.Enforcer(ww['tree'].conf(policy_dirs=ww['dirs'], enforce_new_defaults=ww['flag']), **enforcer_kwargs(ww['ow']))
            f.register_defaults(make_defaults(policy, case['with_dep'], case.get('dshape', 0), case.get('meta', 0)))
            try:
                f.load_rules()
            except Exception as e:
                return type(e).__name__
            return None

        # steps after which the enforcers are compared with fresh ones (None: after every step).  The comparison itself enforces,
        # i.e. loads implicitly; histories in which NO load happens between two operations need it switched off in between.
        judge = case.get('judge')
        judge = None if judge is None else set(judge)
        for i, (op, who, arg) in enumerate(case['history']):
            w = worlds[who % len(worlds)]
            w['touched'] = True
            edited = False
            try:
                if op == 'load':
                    w['enf'].load_rules()
                elif op == 'force':
                    ctx.count('forced_reloads')
                    if w['had_main'] and not w['dirs'] and not w['tree'].exists('policy.yaml'):
                        ctx.count('forced_reloads_after_removal')
                    w['enf'].load_rules(force_reload=True)
                elif op == 'enforce':
                    w['enf'].enforce(NAMES[arg % len(NAMES)], {}, {'roles': [ROLES[arg % len(ROLES)]]})
                elif op == 'editdir':
                    if w['dirs']:
                        w['tree'].write('pd/o.yaml', CONTENTS[arg % len(CONTENTS)], 'json')
                        w['broken'].discard('pd/o.yaml')
                        w['content']['pd/o.yaml'] = CONTENTS[arg % len(CONTENTS)]
                elif op == 'rmmain':
                    w['tree'].delete('policy.yaml')
                    w['broken'].discard('policy.yaml')
                    w['content'].pop('policy.yaml', None)
                elif op == 'break':
                    # the main file momentarily holds something that is not a policy mapping (half-written, wrong file copied, ...)
                    w['tree'].write_text('policy.yaml', BROKEN[arg % len(BROKEN)])
                    w['broken'].add('policy.yaml')
                    w['was_broken'] = w['had_main'] = True
                    w['content'].pop('policy.yaml', None)
                elif op == 'breakdir':
                    if w['dirs']:
                        w['tree'].write_text('pd/o.yaml', BROKEN[arg % len(BROKEN)])
                        w['broken'].add('pd/o.yaml')
                        w['was_broken'] = True
                        w['content'].pop('pd/o.yaml', None)
                elif op == 'touch':
                    # newer modification time, identical bytes (the file written again as it is); target 0 = the main file,
                    # t > 0 = the t-th file of the policy directory
                    rels = ['policy.yaml'] + w['dfiles']
                    rel = rels[arg % len(rels)]
                    if w['tree'].exists(rel):
                        w['tree'].touch(rel)
                        w['bumped'] = True
                        ctx.count('touches_main_file' if rel == 'policy.yaml' else 'touches_one_directory_file')
                elif op == 'editfile':
                    # arg = [file, content, format]; file -1 = the main file, otherwise the index of a file of the policy directory (which
                    # is created if it does not exist yet)
                    fi, ci, fmt = arg
                    if fi < 0 or w['dfiles']:
                        rel = 'policy.yaml' if fi < 0 else w['dfiles'][fi % len(w['dfiles'])]
                        w['tree'].write(rel, DCONTENTS[ci % len(DCONTENTS)], DFORMATS[fmt % len(DFORMATS)])
                        w['broken'].discard(rel)
                        w['content'][rel] = DCONTENTS[ci % len(DCONTENTS)]
                        w['bumped'] = True
                        if fi < 0:
                            w['had_main'] = True
                        ctx.count('edits_main_file' if fi < 0 else 'edits_one_directory_file')
                elif op == 'rmfile':
                    if w['dfiles']:
                        rel = w['dfiles'][arg % len(w['dfiles'])]
                        w['tree'].delete(rel)
                        w['broken'].discard(rel)
                        w['content'].pop(rel, None)
                else:
                    w['tree'].write('policy.yaml', CONTENTS[arg % len(CONTENTS)], 'json' if arg % 2 else 'yaml-lines')
                    w['broken'].discard('policy.yaml')
                    w['had_main'] = True
                    edited = True
                    w['content']['policy.yaml'] = CONTENTS[arg % len(CONTENTS)]
                note_files(w)
            except Exception as e:
                fe = fresh_exception(w) if w['broken'] else None
                if fe is None:
                    ctx.violation('operation-raises', case, {'step': i, 'op': [op, who, arg], 'observed': type(e).__name__ + ': ' + str(e)[:80]})
                    return
                # the enforcer's files are unparseable right now and a fresh enforcer raises as well: the statement does not say
                # what a load does meanwhile (raise, keep the previous policy, ...)
                ctx.count('loads_raising_while_unparseable')
                if type(e).__name__ != fe:
                    ctx.observe('exception-while-unparseable-differs-from-fresh', (op, type(e).__name__, fe))
            ctx.count('snapshots_compared')
            if snap(shared) != s0:
                now = snap(shared)
                changed = [(a[0], [x for x, y in zip(a, b) if x != y][:2]) for a, b in zip(now, s0) if a != b]
                ctx.violation('caller-owned-default-mutated', case, {'step': i, 'op': [op, who, arg], 'changed': changed})
                return
            # every public attribute (values and identities) of the defaults and of the DeprecatedRule objects the service constructed
            ctx.count('attribute_snapshots_compared')
            if case['with_dep'] and meta in META_LEGACY:
                ctx.count('legacy_metadata_snapshots_compared')
            if case['with_dep'] and meta in META_SHARED:
                ctx.count('shared_deprecated_rule_snapshots_compared')
            why = altered(a0, shared)
            if why:
                ctx.violation(why[0], case, dict(why[1], step=i, op=[op, who, arg]))
                return
            if judge is not None and i not in judge:
                continue
            for wi, ww in enumerate(worlds):
                touched, ww['touched'] = ww['touched'], False
                if ww['broken']:
                    fe = fresh_exception(ww)
                    if fe is not None:
                        # nothing is judged while the current files cannot be parsed; the enforcement calls still happen (implicit loads
                        # during the fault are part of the history)
                        ctx.unconstrained('policy-file-unparseable')
                        got = decisions(ww['enf'])
                        odd = sorted({v for v in got.values() if isinstance(v, str) and v != 'EXC:' + fe})
                        if odd:
                            ctx.observe('exception-while-unparseable-differs-from-fresh', ('decide', ','.join(odd), fe))
                        if any(v == 'EXC:' + fe for v in got.values()):
                            ctx.count('loads_raising_while_unparseable')
                        continue
                if ww['ow'] is not None and not ww['ow']:
                    # an enforcer built with overwrite=False merges what it reads into the living store and never removes or recomputes
                    # an entry: "the policy of loading once" is only determined by the current files while every entry the store can
                    # hold is still dictated by them
                    tag = keeps_entries(ww, case['with_dep'])
                    if tag:
                        ctx.unconstrained(tag)
                        decisions(ww['enf'])        # the implicit loads of the comparison still happen
                        continue
                    ctx.count('nonoverwrite_steps_compared')
                    if ww['bumped']:
                        ctx.count('nonoverwrite_steps_compared_after_touch_or_edit')
                if len(ww['dfiles']) > 1:
                    ctx.count('multi_file_directory_steps_compared')
                if ww['was_broken']:
                    ctx.count('recoveries_judged')
                got = decisions(ww['enf'])
                fresh = policy.Enforcer(ww['tree'].conf(policy_dirs=ww['dirs'], enforce_new_defaults=ww['flag']), **enforcer_kwargs(ww['ow']))
                fresh.register_defaults(make_defaults(policy, case['with_dep'], case.get('dshape', 0), case.get('meta', 0)))
                want = decisions(fresh)
                ctx.count('steps_compared')
                pg, pw = printed(ww['enf']), printed(fresh)
                if any('(' in v and ' or ' in v for v in pg.values()):
                    ctx.count('merged_or_checks_seen')
                if got != want:
                    diff = {k: [got[k], want[k]] for k in got if got[k] != want[k]}
                    if judge is None:
                        key = 'enforcers-influence-each-other' if (wi != who % len(worlds)) else 'repeated-load-changes-decisions'
                    else:
                        key = 'repeated-load-changes-decisions' if touched else 'enforcers-influence-each-other'
                    ctx.violation(key, case, {'step': i, 'op': [op, who, arg], 'enforcer': wi, 'k_loads_vs_one_load': dict(list(diff.items())[:6])})
                    return
                if pg != pw:
                    grew = [k for k in pg if k in pw and len(pg[k]) > len(pw[k])]
                    ctx.violation('merged-check-grows' if grew else 'rule-store-differs-after-repeated-load', case,
                                  {'step': i, 'op': [op, who, arg], 'enforcer': wi,
                                   'after_k_loads': {k: v for k, v in pg.items() if pw.get(k) != v},
                                   'after_one_load': {k: v for k, v in pw.items() if pg.get(k) != v}})
                    return
        nontrivial = len(worlds) > 1 or sum(1 for op, _, _ in case['history'] if op in ('load', 'force', 'enforce')) > 1
        ctx.case(case, nontrivial=nontrivial, stratum=case['s'])
    finally:
        for w in worlds:
            w['tree'].cleanup()
    for name, info in contracts.drain():
        ctx.violation('contract-' + name, case, {'contract': name, 'observed': info})


OVERLAPS = {'quick': 3, 'thorough': 60}


def check_overlap(ctx, case):
    """Two enforcers built from the SAME default objects (own files, own options) load and decide at the same time, each on
    its own thread: each ends up with the policy of a single load, and the shared objects stay as they were."""
    from oslo_policy import policy
    from pv.mon import overlap
    shared = make_defaults(policy, case['with_dep'], case.get('dshape', 0), case.get('meta', 0))
    s0 = snap(shared)
    a0 = snap_all(shared)
    trees, want = [], []
    try:
        for cfg_ in case['enforcers']:
            tree = files.Tree(dirs=())
            if cfg_['initial'] is not None:
                tree.write('policy.yaml', CONTENTS[cfg_['initial']], 'json')
            trees.append(tree)
            fresh = policy.Enforcer(tree.conf(policy_dirs=[], enforce_new_defaults=cfg_['flag']))
            fresh.register_defaults(make_defaults(policy, case['with_dep'], case.get('dshape', 0), case.get('meta', 0)))
            want.append(decisions(fresh))

        def mk(i):
            def make():
                # a NEW enforcer per execution, registered with the shared objects: its first load happens inside the call
                enf = policy.Enforcer(trees[i].conf(policy_dirs=[], enforce_new_defaults=case['enforcers'][i]['flag']))
                enf.register_defaults(shared)

                def run_():
                    try:
                        enf.load_rules(force_reload=bool(case.get('force')))
                        return decisions(enf)
                    except Exception as e:
                        return 'EXC:' + type(e).__name__
                return run_
            return make
        ctx.case(['overlap', case['with_dep'], case.get('dshape', 0), case['enforcers']], True, 'overlap')
        detail = {'enforcers': case['enforcers'], 'with_deprecated_predecessors': case['with_dep'], 'default_shapes': case.get('dshape', 0)}
        ok = overlap.pair(ctx, mk(0), mk(1), case, detail, ctx.sub_rnd('Ob', case['rseed']), limit=60, key='enforcers-influence-each-other')
        if ok:
            for i in (0, 1):
                got = mk(i)()()
                if got != want[i]:
                    diff = {k: [got[k], want[i][k]] for k in want[i] if not isinstance(got, dict) or got.get(k) != want[i][k]} if isinstance(got, dict) else got
                    ctx.violation('repeated-load-changes-decisions', case, dict(detail, enforcer=i, differs=dict(list(diff.items())[:6]) if isinstance(diff, dict) else diff))
                    return
        if snap(shared) != s0:
            ctx.violation('caller-owned-default-mutated', case, dict(detail, after='two enforcers loading at the same time'))
            return
        why = altered(a0, shared)
        if why:
            ctx.violation(why[0], case, dict(detail, after='two enforcers loading at the same time', **why[1]))
    finally:
        for t in trees:
            t.cleanup()


def ends_parseable(ops):
    """Does a history over OPS_H1 (one enforcer) contain a fault and leave a parseable main file behind?"""
    broken = fault = False
    for op in ops:
        if op == 'break':
            broken = fault = True
        elif op == 'rmmain':
            broken, fault = False, True
        elif op == 'edit':
            broken = False
    return fault and not broken


def fault_case(r, tag):
    """Random history with faults (stratum F): removals and unparseable writes, each unparseable write repaired later on."""
    k = r.randint(1, 2)
    enforcers = [dict(flag=r.random() < 0.5, initial=r.choice([None, 1, 2, 3, 4, 5, 7]), with_dir=r.random() < 0.3,
                      dir_initial=r.choice([None, 1, 2, 3, 5])) for _ in range(k)]
    hist = [[r.choice(OPS_F), r.randrange(k), r.randrange(40)] for _ in range(r.randint(3, 9))]
    for _ in range(r.randint(1, 2)):
        who, pos = r.randrange(k), r.randint(1, len(hist))
        hist[pos:pos] = [[op, who, r.randrange(40)] for op in r.choice(MOTIFS)]
    # whatever is still unparseable at the end is repaired by a closing edit
    pending = {}
    for op, who, _ in hist:
        if op == 'break' or (op == 'breakdir' and enforcers[who]['with_dir']):
            pending[(who, op)] = True
        elif op in ('edit', 'rmmain'):
            pending.pop((who, 'break'), None)
        elif op == 'editdir':
            pending.pop((who, 'breakdir'), None)
    for who, op in sorted(pending):
        hist.append(['edit' if op == 'break' else 'editdir', who, r.randrange(40)])
    n = len(hist)
    judge = None if r.random() < 0.35 else sorted({i for i in range(n) if r.random() < 0.3} | {n - 1})
    return dict(s='F', with_dep=r.random() < 0.8, dshape=r.randrange(24), enforcers=enforcers, history=hist, judge=judge, tag=tag)


def d0_cases():
    """Stratum D0 (systematic): ONE enforcer with a policy directory of two or three files that define the same names with different
    values; after a first load ONE file (the main file or one file of the directory) is touched or gets other values, then one more
    load / enforcement / forced load follows."""
    idx = 0
    for ow in (False, None):
        for nfiles in (2, 3):
            for fam in (2, 4, 5):
                targets = list(range(-1, nfiles))
                for kind in ('touch', 'editfile'):
                    for t in targets:
                        for follow in ('load', 'enforce', 'force'):
                            for last_only in (False, True):
                                idx += 1
                                names = [DFILES[(idx + 3 * j) % len(DFILES)] for j in range(nfiles)]
                                if len(set(names)) < nfiles:
                                    names = DFILES[:nfiles]
                                names = sorted(names)
                                # file j holds variant j of the family: same names, different values in every file
                                dir_files = [[names[j], fam * NVAR + j % NVAR, (idx + j) % len(DFORMATS)] for j in range(nfiles)]
                                mfam = [fam, None, (fam + 1) % len(DFAMILIES)][idx % 3]
                                dmain = None if mfam is None else [mfam * NVAR + (NVAR - 1), idx % len(DFORMATS)]
                                if kind == 'touch':
                                    if t < 0 and dmain is None:
                                        continue
                                    step = ['touch', 0, t + 1]
                                else:
                                    cur = dmain[0] if t < 0 and dmain is not None else (dir_files[t][1] if t >= 0 else fam * NVAR)
                                    step = ['editfile', 0, [t, (cur // NVAR) * NVAR + (cur + 1 + idx % 2) % NVAR, idx % len(DFORMATS)]]
                                hist = [[['load', 'enforce'][idx % 2], 0, idx % 7], step, [follow, 0, (idx // 2) % 7]]
                                yield idx, dict(s='D0', with_dep=idx % 4 != 0, dshape=idx % 24, history=hist, judge=[2] if last_only else None,
                                                enforcers=[dict(flag=bool((idx // 2) % 2), initial=None, dmain=dmain, with_dir=True, overwrite=ow,
                                                                dir_files=dir_files)])


def dir_case(r, tag):
    """Stratum D (random): 1-2 enforcers, each with its own `overwrite` option (False, the default, or True spelled out), a main file (or
    none) and a policy directory of two or three files from the content families; histories over load / forced load / enforce / touch
    of one file / edit of one file / (for overwriting enforcers) removal of one directory file."""
    k = r.randint(1, 2)
    enforcers, cur = [], []
    for _ in range(k):
        ow = r.choice([False, False, False, None, None, True])
        nfiles = r.randint(2, 3)
        names = sorted(r.sample(DFILES, nfiles))
        if r.random() < 0.55:
            fam = r.randrange(len(DFAMILIES) - 1)
            cis = [fam * NVAR + v for v in r.sample(range(NVAR), NVAR)][:nfiles]
        else:
            cis = [r.randrange(len(DCONTENTS)) for _ in range(nfiles)]
        if r.random() < 0.15:
            cis[r.randrange(nfiles)] = None         # a file that only appears later
        dmain = None if r.random() < 0.35 else [r.choice([c for c in cis if c is not None] + [r.randrange(len(DCONTENTS))]), r.randrange(3)]
        enforcers.append(dict(flag=r.random() < 0.5, initial=None, dmain=dmain, with_dir=True, overwrite=ow,
                              dir_files=[[n, c, r.randrange(3)] for n, c in zip(names, cis)]))
        cur.append([None if dmain is None else dmain[0]] + cis)
    hist = []
    for _ in range(r.randint(4, 12)):
        who = r.randrange(k)
        e, c = enforcers[who], cur[who]
        nfiles = len(e['dir_files'])
        op = r.choice(['load', 'load', 'force', 'enforce', 'enforce', 'touch', 'touch', 'touch', 'touch', 'editfile', 'editfile', 'editfile', 'rmfile'])
        if op == 'rmfile' and e['overwrite'] is False and r.random() < 0.9:
            op = 'touch'
        if op == 'touch':
            hist.append(['touch', who, r.randrange(nfiles + 1) if r.random() < 0.3 else r.randint(1, nfiles)])
        elif op == 'editfile':
            t = r.randrange(-1, nfiles)
            was = c[t + 1]
            if was is not None and (r.random() < (0.9 if e['overwrite'] is False else 0.4)):
                ci = (was // NVAR) * NVAR + (was + r.randint(1, NVAR - 1)) % NVAR        # other values for the same names
            else:
                ci = r.randrange(len(DCONTENTS))
            c[t + 1] = ci
            hist.append(['editfile', who, [t, ci, r.randrange(3)]])
        elif op == 'rmfile':
            t = r.randrange(nfiles)
            c[t + 1] = None
            hist.append(['rmfile', who, t])
        else:
            hist.append([op, who, r.randrange(40)])
    n = len(hist)
    judge = None if r.random() < 0.5 else sorted({i for i in range(n) if r.random() < 0.4} | {n - 1})
    return dict(s='D', with_dep=r.random() < 0.8, dshape=r.randrange(24), enforcers=enforcers, history=hist, judge=judge, tag=tag)


BOUNDS_M = {'quick': dict(nM=64), 'thorough': dict(nM=4000)}


def m_cases():
    """Stratum M (systematic): every spelling of the deprecation metadata x what the first enforcer's main file defines (no file, an unrelated
    name, the deprecated name, the new name, ...) x one or two enforcers registered with the SAME objects x the flavour of the first
    load; then an edit and further loads."""
    idx = 0
    for meta in range(META):
        for init in (None, 6, 2, 1, 3, 4):
            for k in (1, 2):
                for first in ('load', 'enforce', 'force'):
                    idx += 1
                    enforcers = [dict(flag=bool((idx // 2 + j) % 2), initial=init if j == 0 else [None, 6, 2, 5][(idx + j) % 4],
                                      with_dir=(idx + j) % 3 == 0, dir_initial=[None, 2, 6][(idx // 3) % 3]) for j in range(k)]
                    hist = [[first, j, idx % 7] for j in range(k)]
                    hist += [['edit', 0, idx % 9], [['force', 'load', 'enforce'][idx % 3], 0, idx % 7], ['enforce', k - 1, (idx // 2) % 7]]
                    yield idx, dict(s='M', with_dep=idx % 5 != 0, meta=meta, dshape=idx % 24, enforcers=enforcers, history=hist,
                                    judge=None if idx % 2 else [len(hist) - 1])


def m_case(r, tag):
    """Stratum M (random): 1-3 enforcers (own options, main file or none, no directory / one directory file / two or three of them) over
    one list of objects in a random spelling of the metadata; histories over load / forced load / enforce / edits."""
    k = r.randint(1, 3)
    enforcers = []
    for _ in range(k):
        e = dict(flag=r.random() < 0.5, initial=r.choice([None, None, 0, 1, 2, 3, 4, 5, 6]), with_dir=r.random() < 0.5,
                 dir_initial=r.choice([None, 1, 2, 3, 5]))
        if r.random() < 0.3:
            nfiles = r.randint(2, 3)
            e.update(initial=None, dir_initial=None, with_dir=True, overwrite=r.choice([None, True]),
                     dmain=None if r.random() < 0.4 else [r.randrange(len(DCONTENTS)), r.randrange(3)],
                     dir_files=[[n, r.randrange(len(DCONTENTS)), r.randrange(3)] for n in sorted(r.sample(DFILES, nfiles))])
        enforcers.append(e)
    hist = []
    for _ in range(r.randint(3, 10)):
        who = r.randrange(k)
        op = r.choice(['load', 'load', 'force', 'force', 'enforce', 'enforce', 'edit', 'editdir', 'rmmain'])
        if enforcers[who].get('dir_files') and op in ('edit', 'editdir', 'rmmain'):
            nf = len(enforcers[who]['dir_files'])
            hist.append(r.choice([['touch', who, r.randrange(nf + 1)], ['editfile', who, [r.randrange(-1, nf), r.randrange(len(DCONTENTS)), r.randrange(3)]]]))
        else:
            hist.append([op, who, r.randrange(40)])
    n = len(hist)
    judge = None if r.random() < 0.4 else sorted({i for i in range(n) if r.random() < 0.3} | {n - 1})
    return dict(s='M', with_dep=r.random() < 0.85, meta=r.randrange(META), dshape=r.randrange(24), enforcers=enforcers, history=hist,
                judge=judge, tag=tag)


def run(ctx):
    contracts.load_rules_keeps_defaults()
    # M first (cheap): spellings of the deprecation metadata, shared DeprecatedRule objects, documented defaults
    ctx.reserve(0.2)
    for idx_m, case in m_cases():
        if not ctx.mine(idx_m):
            continue
        if ctx.expired():
            break
        run_history(ctx, case)
        if idx_m % 50 == 0:
            ctx.sample(case, 'M')
    for i in range(BOUNDS_M[ctx.tier]['nM'] // ctx.nshards + 1):
        if ctx.expired():
            break
        tag = '%s.%d.%d' % (ctx.tier, ctx.shard, i)
        case = m_case(ctx.sub_rnd('M', tag), tag)
        run_history(ctx, case)
        if i % 5 == 0:
            ctx.sample(case, 'M')
    ctx.stratum('M', exhaustive=False)
    # cumulative shares of the wall budget for every stratum that has a floor in MIN (on an idle machine each one ends by itself;
    # under load the earlier ones must not take the later ones with them)
    ctx.reserve(0.42)
    b = BOUNDS[ctx.tier]
    alphabet = [(op, who) for op in OPS for who in (0, 1)]
    idx = 0
    done = True
    for L in range(1, b['L'] + 1):
        for hist in itertools.product(alphabet, repeat=L):
            for with_dep in (True, False):
                idx += 1
                if not ctx.mine(idx):
                    continue
                if ctx.expired():
                    done = False
                    break
                history = [[op, who, (idx + j) % 7] for j, (op, who) in enumerate(hist)]
                case = dict(s='H', with_dep=with_dep, dshape=idx % 24, history=history,
                            enforcers=[dict(flag=False, initial=[None, 1, 2, 4][idx % 4], with_dir=bool(idx % 5 == 0), dir_initial=2),
                                       dict(flag=True, initial=[3, None, 5][idx % 3])])
                run_history(ctx, case)
                if idx % 400 == 0:
                    ctx.sample(case, 'H')
            if not done:
                break
        if not done:
            break
    ctx.stratum('H', exhaustive=done)
    ctx.reserve(0.54)
    # H1: one enforcer, the alphabet with faults (removal of the main file, unparseable main file), compared after the last step only
    idx1 = 0
    done1 = True
    hn = 0
    for L in range(2, b['L1'] + 1):
        for hist in itertools.product(OPS_H1, repeat=L):
            if not ends_parseable(hist):
                continue
            hn += 1             # running number of the histories kept (not correlated with the last operation)
            for with_dep in (True, False):
                idx1 += 1
                if not ctx.mine(idx1):
                    continue
                if ctx.expired():
                    done1 = False
                    break
                case = dict(s='H1', with_dep=with_dep, dshape=(hn * 5 + L) % 24, judge=[L - 1],
                            history=[[op, 0, (hn + j) % 7 if op != 'break' else hn + j] for j, op in enumerate(hist)],
                            enforcers=[dict(flag=bool((hn // 2 + L) % 2), initial=[1, 2, 4, 5, 3, None, 7, 8][(hn + L) % 8],
                                            with_dir=bool(hn % 6 == 5), dir_initial=[2, 1, None][(hn // 6) % 3])])
                run_history(ctx, case)
                if idx1 % 300 == 0:
                    ctx.sample(case, 'H1')
            if not done1:
                break
        if not done1:
            break
    ctx.stratum('H1', exhaustive=done1)
    ctx.reserve(0.68)
    rnd = ctx.rnd
    every_f = max(1, b['nR'] // b['nF'])
    for i in range(b['nR'] // ctx.nshards + 1):
        if ctx.expired():
            break
        k = rnd.randint(1, 3)
        case = dict(s='R', with_dep=rnd.random() < 0.8, dshape=rnd.randrange(24),
                    enforcers=[dict(flag=rnd.random() < 0.5, initial=rnd.choice([None, None, 0, 1, 2, 3, 4, 5]), with_dir=rnd.random() < 0.5,
                                    dir_initial=rnd.choice([None, 1, 2, 3, 5])) for _ in range(k)],
                    history=[[rnd.choice(OPS_R), rnd.randrange(k), rnd.randrange(40)] for _ in range(rnd.randint(5, 30))])
        run_history(ctx, case)
        if i % 20 == 0:
            ctx.sample(dict(case, history=case['history'][:8] + ['...']), 'R')
        # stratum F rides along (own random stream), so that a budget cut - R is budget-bound in the thorough tier - shortens both alike
        if i % every_f == 0:
            tag = '%s.%d.%d' % (ctx.tier, ctx.shard, i // every_f)
            case = fault_case(ctx.sub_rnd('F', tag), tag)
            run_history(ctx, case)
            if i % (10 * every_f) == 0:
                ctx.sample(case, 'F')
    ctx.stratum('R', exhaustive=False)
    ctx.stratum('F', exhaustive=False)
    # D0 / D: policy directories with several files, enforcers with and without `overwrite`, touches and edits of single files
    ctx.reserve(0.8)
    done0 = True
    for idx0, case in d0_cases():
        if not ctx.mine(idx0):
            continue
        if ctx.expired():
            done0 = False
            break
        run_history(ctx, case)
        if idx0 % 100 == 0:
            ctx.sample(case, 'D0')
    ctx.stratum('D0', exhaustive=done0)
    ctx.reserve(0.9)
    for i in range(BOUNDS_D[ctx.tier]['nD'] // ctx.nshards + 1):
        if i >= 12 and ctx.expired():           # a guaranteed minimum per shard (floor cases.D)
            break
        tag = '%s.%d.%d' % (ctx.tier, ctx.shard, i)
        case = dir_case(ctx.sub_rnd('D', tag), tag)
        run_history(ctx, case)
        if i % 10 == 0:
            ctx.sample(case, 'D')
    ctx.stratum('D', exhaustive=False)
    ctx.release()
    # two enforcers loading at the same time, last (the line-level scheduler slows everything that runs after it is installed)
    from pv.mon import sched
    ctx.stratum('overlap', exhaustive=False)
    try:
        for i in range(OVERLAPS[ctx.tier]):
            if i >= 2 and ctx.expired():        # a guaranteed minimum per shard
                break
            r = ctx.sub_rnd('O', ctx.tier, ctx.shard, i)
            check_overlap(ctx, dict(overlap=True, with_dep=r.random() < 0.85, dshape=r.randrange(24), force=r.random() < 0.3,
                                    enforcers=[dict(flag=f, initial=r.choice([None, 0, 1, 2, 3, 4, 5])) for f in r.sample([True, False], 2)],
                                    rseed='%s.%d.%d' % (ctx.tier, ctx.shard, i)))
    finally:
        sched.uninstall()
    for k, v in contracts.EVALS.items():
        ctx.count('contract_evals.' + k, v)


def replay(ctx, case):
    contracts.load_rules_keeps_defaults()
    if case.get('overlap'):
        from pv.mon import sched
        try:
            return check_overlap(ctx, case)
        finally:
            sched.uninstall()
    run_history(ctx, case)
