"""C04 - role:X passes exactly when the credentials hold role X, ignoring case.

Oracle over *abstract letters*: role names are generated as sequences of
(letter id, case bit); the reference compares id sequences and never calls
lower()/upper(), so it cannot share a case-folding mistake with the library."""
from pv.core import env
from pv.gen import expr

ID = 'C04'
LEVEL = 'exploration'
TECHNIQUE = 'differential runtime monitor: real RoleCheck via Enforcer.enforce vs abstract-letter reference (no case folding in the oracle); overlapping evaluations under a deterministic line-level thread scheduler (sys.monitoring)'
RULE = ('cases = role name X (1-6 abstract letters: ASCII letters, digits, punctuation surviving the tokenizer, non-ASCII '
        'letters with one-to-one case mapping) in literal / %(k)s / prefix%(k)s / %(k1)s%(k2)s form x target with or '
        'without the keys (string and non-string scalar values) x credentials with 0-6 roles (duplicates, case variants), '
        'an empty list, or no roles entry x the check alone, under not, or inside a random expression with other role '
        'checks. Non-trivial = the reference allows for some role of the credentials AND X is spelled in a different '
        'case than the matching role, or denies although a role shares a prefix with X; distinct = distinct (rule, target, creds). Credentials are passed as a dict, a RequestContext or its policy-values mapping. Stratum `list-form`: list-of-lists rules whose role names contain spaces / parentheses. Stratum `overlap`: two requests evaluate the same rule at the same time (every single pre-emption of one by the other, deterministic scheduler). Stratum `sequence`: one credentials object whose roles list is mutated in place (append, remove, item assignment, clear) between consecutive calls. Stratum `case-keys`: 2-3 `%(key)s` placeholder keys that differ only in letter case (each present in the target with its own value or absent), in %(k)s / prefix%(k)s / %(k1)s%(k2)s form, plus literal role names that differ only in letter case, parsed one after the other in the same process, side by side as rules of one rule set, and together in one random expression; every decision is compared with the abstract-letter reference in which a target key is the exact string (another case = another key). Stratum `nested-target`: placeholder keys that contain dots (2-5 segments) x targets that hold, next to or instead of that exact key, nested mappings (depth 1-3, also lists of mappings and mapping values under keys that themselves contain dots) whose dotted path spells the placeholder key - only the nested mapping (the referenced key is absent: deny), the exact key AND the nested mapping with different role names (X is the value under the exact key), only the exact dotted key - in %(k)s / prefix%(k)s / %(k1)s%(k2)s form, alone, under not and in random expressions with literal role checks, credentials as dict / RequestContext / policy-values mapping, plus histories in which ONE target object and ONE credentials object are reused across consecutive calls while the exact key, the nested value and the roles list are changed in place; the reference reads the target as a plain mapping of exact keys (a nested mapping is just a value under its own key). Stratum `other-entries`: credentials that carry, besides or instead of `roles` (absent, empty, not holding X, holding X), 1-3 OTHER entries whose values are role-like lists or strings naming X in some letter case - service_roles, service_user_id, user_id, project_id, domain_id, system_scope, is_admin, `role`, `roles` in another letter case, ... - given as a dict, a RequestContext (roles=, service_roles=, ...) or its policy-values mapping, decided through Enforcer.enforce and by calling the parsed check itself; the reference reads only the names in the `roles` list.')
ASSUMPTIONS = ['letters with context-dependent or one-to-many case mappings are excluded, as the quantifier says',
               'a stray % outside %(key)s is excluded (statement is about %(key)s placeholders)',
               'credentials roles are a list of strings',
               'target keys are exact strings: a placeholder key spelled in another letter case references another key (stratum case-keys)',
               'a placeholder key that contains dots references the target key with exactly that spelling (what %-formatting with a mapping does); data nested below other keys is not "the referenced key" (stratum nested-target)',
               'the role list of the credentials is the entry under the exact key `roles`; entries under any other key (service_roles, `Roles`, `role`, ...) are not the role list (stratum other-entries)']
LEVEL_TEXT = ('Seeded sampling of the (role name, form, target, credentials, context) space with an oracle that is '
              'independent of any case-folding routine; the space is infinite, so sampling with a structured generator is the level.')
LEVEL_NOTE = 'trusted: the letter table is verified at start-up to be one-to-one under str.lower/str.upper'
PLAN = {'quick': dict(shards=4, wall=120), 'thorough': dict(shards=16, wall=400)}
MIN = {'evaluations': 5000, 'allow_decisions': 500, 'deny_decisions': 500, 'case_variant_matches': 100, 'sequence_decisions': 1000, 'non_dict_credentials': 1000, 'list_form_role_names': 200, 'overlapping_evaluations': 100, 'case_variant_key_decisions': 5000, 'case_variant_keys_told_apart': 500,
       'nested_target_decisions': 2000, 'nested_value_would_decide_otherwise': 300, 'nested_target_sequence_decisions': 500,
       'other_entries_decisions': 8000, 'other_entry_names_x_roles_do_not': 2500}
ANCHORS = ['oslo_policy._checks:RoleCheck.__call__', 'oslo_policy.policy:Enforcer.enforce']
REQUIRED_ANCHORS = ['oslo_policy.policy:Enforcer.enforce']
N = {'quick': 100000, 'thorough': 3000000}

PAIRS = [(c.lower(), c.upper()) for c in 'abcxyzqk'] + [('é', 'É'), ('ü', 'Ü'), ('ж', 'Ж'), ('ω', 'Ω'), ('ñ', 'Ñ'),
                                                          ('ø', 'Ø'), ('đ', 'Đ'), ('þ', 'Þ'), ('я', 'Я'), ('ç', 'Ç')]
NOCASE = list('0123456789_-.:/@+=!~*,;')


def self_check():
    for lo, up in PAIRS:
        assert lo.upper() == up and up.lower() == lo and len(lo) == len(up) == 1 and lo != up, (lo, up)
        assert lo.lower() == lo and up.upper() == up
    for ch in NOCASE:
        assert ch.lower() == ch.upper() == ch


def mk_name(rnd, n=None):
    ids = []
    for _ in range(n or rnd.randint(1, 6)):
        if rnd.random() < 0.75:
            ids.append(('L', rnd.randrange(len(PAIRS))))
        else:
            ids.append(('N', rnd.choice(NOCASE)))
    return tuple(ids)


def spell(rnd, ids):
    return ''.join(PAIRS[i[1]][rnd.randint(0, 1)] if i[0] == 'L' else i[1] for i in ids)


def ids_of_scalar(v):
    """Abstract ids of str(v) for the non-string target scalars we generate (digits only)."""
    return tuple(('N', ch) for ch in str(v))


def gen_case(rnd):
    pool = [mk_name(rnd) for _ in range(4)]
    if rnd.random() < 0.3:                       # near misses: prefix / extension of a pool name
        base = rnd.choice(pool)
        pool.append(base[:-1] if len(base) > 1 else base + (('N', '_'),))
        pool.append(base + (rnd.choice([('L', 0), ('N', '0')]),))
    nleaves = 1 if rnd.random() < 0.6 else rnd.randint(2, 3)
    target = {}
    leaves = []          # (rule text of X, abstract ids of X or None when a key is missing)
    for li in range(nleaves):
        x = rnd.choice(pool)
        form = rnd.choice(['lit', 'lit', 'ph', 'pre', 'two', 'missing', 'num', 'ph-empty'])
        if form == 'lit':
            text, ids = spell(rnd, x), x
        elif form == 'ph':
            key = 'k%d' % li
            target[key] = spell(rnd, x)
            text, ids = '%%(%s)s' % key, x
        elif form == 'ph-empty':
            key = 'e%d' % li
            target[key] = ''                     # the placeholder fills in nothing: X is the empty name, which nobody holds
            text, ids = '%%(%s)s' % key, ()
        elif form == 'pre':
            p = rnd.choice(pool)
            key = 'k%d' % li
            target[key] = spell(rnd, x)
            text, ids = spell(rnd, p) + '%%(%s)s' % key, p + x
        elif form == 'two':
            p = rnd.choice(pool)
            target['a%d' % li] = spell(rnd, p)
            target['b%d' % li] = spell(rnd, x)
            text, ids = '%%(a%d)s%%(b%d)s' % (li, li), p + x
        elif form == 'num':
            v = rnd.choice([7, 42, 0, 12345])
            key = 'n%d' % li
            target[key] = v
            text, ids = '%%(%s)s' % key, ids_of_scalar(v)
            pool.append(ids)
        else:
            text, ids = '%%(nokey%d)s' % li, None
        # the text must survive the tokenizer as one check token
        if text.endswith(')') or text.startswith('(') or text.lower() in ('and', 'or', 'not'):
            text, ids = 'z' + text + 'z', (None if ids is None else (('L', 5),) + ids + (('L', 5),))
        leaves.append((text, ids))
    mode = rnd.random()
    roles = None
    if mode < 0.08:
        creds = {}
    elif mode < 0.16:
        creds = {'roles': []}
        roles = []
    else:
        roles = [rnd.choice(pool) for _ in range(rnd.randint(1, 6))]
        creds = {'roles': [spell(rnd, r) for r in roles]}
    if rnd.random() < 0.5:
        creds['user_id'] = 'u'
    # expression around the leaves
    if nleaves == 1:
        ast = rnd.choice([('leaf', 0), ('leaf', 0), ('not', ('leaf', 0)), ('and', [('leaf', 0), ('const', True)]),
                          ('or', [('const', False), ('leaf', 0)])])
    else:
        ast = expr.random_ast(rnd, 2, nleaves, p_const=0.05)
    truth = []
    case_variant = False
    for (text, ids), li in zip(leaves, range(nleaves)):
        ok = ids is not None and roles is not None and any(r == ids for r in roles)
        truth.append(ok)
    rule = expr.spell(expr.to_tokens(ast, lambda i: 'role:' + leaves[i][0]))
    want = expr.ev(ast, truth)
    return dict(rule=rule, target=target, creds=creds, want=want, leaf_truth=truth, rep=rnd.choice(['dict', 'dict', 'ctx', 'pv']))


def check_case(ctx, real, case):
    policy, enf = real
    ctx.case([case['rule'], case['target'], case['creds']], nontrivial=any(case['leaf_truth']) or bool(case['creds'].get('roles')))
    try:
        enf.set_rules(policy.Rules.from_dict({'p': case['rule']}))
        creds = {k: (list(v) if isinstance(v, list) else v) for k, v in case['creds'].items()}
        rep = case.get('rep', 'dict')
        if rep != 'dict' and 'roles' in creds:
            # the same credentials as a RequestContext or as its policy-values mapping
            from oslo_context import context
            c = context.RequestContext(roles=list(creds['roles']), user_id=creds.get('user_id'))
            creds = c if rep == 'ctx' else c.to_policy_values()
            ctx.count('non_dict_credentials')
        got = bool(enf.enforce('p', dict(case['target']), creds))
    except Exception as e:
        got = 'EXC:' + type(e).__name__
    ctx.count('allow_decisions' if got is True else 'deny_decisions' if got is False else 'exceptions')
    if case.get('nested'):
        ctx.count('nested_target_decisions')
        if case.get('alt_want') != case['want']:
            ctx.count('nested_value_would_decide_otherwise')
    if any(case['leaf_truth']):
        # a leaf matched: was it spelled in another case than the role it matched?
        roles = case['creds'].get('roles', [])
        if not any(('role:' + r) in case['rule'] for r in roles):
            ctx.count('case_variant_matches')
    if got != case['want']:
        if isinstance(got, str):
            key = 'role-check-raises'
        elif 'roles' not in case['creds'] or not case['creds']['roles']:
            key = 'no-roles-not-denied'
        elif case['want']:
            key = 'held-role-denied'
        else:
            key = 'unheld-role-allowed'
        detail = {'rule': case['rule'], 'target': case['target'], 'creds': case['creds'], 'expected': case['want'], 'observed': got}
        if case.get('nested'):
            detail['placeholder_keys'] = case['nested']
            detail['decision_if_dotted_paths_of_nested_mappings_were_keys'] = case.get('alt_want')
        ctx.violation(key, case, detail)


def check_sequence(ctx, real, rnd):
    """The same credentials object - and the same roles list object - is reused across calls and mutated in place
    between them (grant, revoke, replace, clear): every call must reflect the list's content at that moment."""
    policy, enf = real
    pool = [mk_name(rnd) for _ in range(3)]
    x = rnd.choice(pool)
    form = rnd.choice(['lit', 'ph'])
    target = {}
    if form == 'lit':
        rule = 'role:' + spell(rnd, x)
    else:
        rule = 'role:%(k)s'
        target['k'] = spell(rnd, x)
    if rule.endswith(')'):
        return
    negate = rnd.random() < 0.3
    text = ('not ' + rule) if negate else rule
    enf.set_rules(policy.Rules.from_dict({'p': text}))
    ids = []                       # abstract ids, parallel to the live list
    live = []
    creds = {'roles': live, 'user_id': 'u'}
    steps = []
    for step in range(rnd.randint(2, 6)):
        op = rnd.choice(['append', 'append-x', 'remove', 'clear', 'setitem', 'none'])
        if op == 'append':
            r = rnd.choice(pool)
            ids.append(r)
            live.append(spell(rnd, r))
        elif op == 'append-x':
            ids.append(x)
            live.append(spell(rnd, x))
        elif op == 'remove' and live:
            i = rnd.randrange(len(live))
            del ids[i]
            del live[i]
        elif op == 'clear':
            del ids[:]
            del live[:]
        elif op == 'setitem' and live:
            i = rnd.randrange(len(live))
            r = rnd.choice(pool + [x])
            ids[i] = r
            live[i] = spell(rnd, r)
        steps.append([op, list(live)])
        want = any(r == x for r in ids)
        want = (not want) if negate else want
        try:
            got = bool(enf.enforce('p', dict(target), creds))
        except Exception as e:
            got = 'EXC:' + type(e).__name__
        ctx.count('sequence_decisions')
        ctx.count('allow_decisions' if got is True else 'deny_decisions' if got is False else 'exceptions')
        if got != want:
            ctx.violation('stale-decision-after-in-place-role-change', dict(sequence=True, rule=text, target=target, steps=steps),
                          {'rule': text, 'target': target, 'roles_list_history': steps, 'expected': want, 'observed': got})
            return
    ctx.case([text, target, steps], nontrivial=True, stratum='sequence')


def replay_sequence(ctx, real, case):
    policy, enf = real
    enf.set_rules(policy.Rules.from_dict({'p': case['rule']}))
    live = []
    creds = {'roles': live, 'user_id': 'u'}
    seen = []
    for op, content in case['steps']:
        live[:] = content
        seen.append(bool(enf.enforce('p', dict(case['target']), creds)))
        fresh = bool(enf.enforce('p', dict(case['target']), {'roles': list(content), 'user_id': 'u'}))
        if seen[-1] != fresh:
            ctx.violation('stale-decision-after-in-place-role-change', case, {'step': [op, content], 'same_list_object': seen[-1], 'fresh_list': fresh})
            return


def check_list_form(ctx, real, rnd, fixed=None):
    """List-of-lists rules are not tokenised: there a role name may contain spaces and parentheses.  `fixed`: the case of a
    replay file."""
    policy, enf = real
    if fixed is not None:
        rule, roles, held = fixed['rule'], fixed['roles'], fixed['want']
    else:
        base = mk_name(rnd)
        deco = rnd.choice(['%s(EU)', 'Team %s', '%s )', '(%s)', '%s  x', '%s)', ' %s'])
        def name(ids):
            return deco % spell(rnd, ids)
        held = rnd.random() < 0.6
        other = mk_name(rnd)
        rule = [['role:' + name(base)]] if rnd.random() < 0.5 else ['role:' + name(base)]
        roles = [name(base)] if held else [name(other)]
        if other == base and not held:
            return
    ctx.case(['list-form', rule, roles], nontrivial=True, stratum='list-form')
    ctx.count('list_form_role_names')
    try:
        enf.set_rules(policy.Rules.from_dict({'p': rule}))
        got = bool(enf.enforce('p', {}, {'roles': roles}))
    except Exception as e:
        got = 'EXC:' + type(e).__name__
    if got != held:
        ctx.violation('list-form-role-name-mismatch', dict(list_form=True, rule=rule, roles=roles, want=held),
                      {'rule': rule, 'roles': roles, 'expected': held, 'observed': got})


def check_overlap(ctx, real, rnd, fixed=None):
    """Two requests evaluate the SAME rule (shared check objects) at the same time with different targets: each must be
    decided as if it ran alone.  Every single pre-emption of one by the other is executed.  `fixed`: the case of a replay file."""
    from pv.mon import sched
    policy, enf = real
    if fixed is None:
        a, b = mk_name(rnd), mk_name(rnd)
        if a == b:
            return
        rule = rnd.choice(['role:%(k)s', 'not role:%(k)s', 'role:%(k)s and @', 'role:x%(k)s or role:%(k)s'])
        ta, tb = {'k': spell(rnd, a)}, {'k': spell(rnd, b)}
        roles = [spell(rnd, a)]                                               # both requests hold role a only
    else:
        rule, ta, tb, roles = fixed['rule'], fixed['ta'], fixed['tb'], fixed['roles']
    enf.set_rules(policy.Rules.from_dict({'p': rule}))
    ca, cb = {'roles': list(roles)}, {'roles': list(roles)}
    def mk(t, c):
        return lambda: (lambda: bool(enf.enforce('p', dict(t), {'roles': list(c['roles'])})))
    ref = None
    for k, ra, rb in sched.overlap_results(mk(ta, ca), mk(tb, cb)):
        ctx.count('overlapping_evaluations')
        if k == 0:
            ref = (ra, rb)
            continue
        if (ra, rb) != ref:
            ctx.violation('decision-depends-on-a-concurrent-evaluation', dict(overlap=True, rule=rule, ta=ta, tb=tb, roles=ca['roles']),
                          {'rule': rule, 'request_a': [ta, ca], 'request_b': [tb, cb], 'alone': list(ref), 'overlapping': [ra, rb],
                           'a_preempted_at_boundary': k})
            return
    ctx.case(['overlap', rule, ta, tb], nontrivial=True, stratum='overlap')


KEYCH = list('_0123456789-.')


def mk_key(rnd):
    """Abstract letters of a placeholder key: starts with a cased letter, so at least two spellings exist."""
    ids = [('L', rnd.randrange(len(PAIRS)))]
    for _ in range(rnd.randint(1, 5)):
        ids.append(('L', rnd.randrange(len(PAIRS))) if rnd.random() < 0.7 else ('N', rnd.choice(KEYCH)))
    return tuple(ids)


def classify(got, want, creds):
    if isinstance(got, str):
        return 'role-check-raises'
    if 'roles' not in creds or not creds['roles']:
        return 'no-roles-not-denied'
    return 'held-role-denied' if want else 'unheld-role-allowed'


def run_case_keys(ctx, real, case):
    """Execute the steps of a case-keys case in order (each step = one rule set installed, every rule of it decided
    for the case's target and credentials).  Returns False after reporting the first mismatch."""
    policy, enf = real
    for step in case['steps']:
        enf.set_rules(policy.Rules.from_dict(dict(step['rules'])))
        for name in sorted(step['rules']):
            want = step['want'][name]
            try:
                creds = {k: (list(v) if isinstance(v, list) else v) for k, v in case['creds'].items()}
                got = bool(enf.enforce(name, dict(case['target']), creds))
            except Exception as e:
                got = 'EXC:' + type(e).__name__
            ctx.count('case_variant_key_decisions')
            ctx.count('allow_decisions' if got is True else 'deny_decisions' if got is False else 'exceptions')
            if got != want:
                ctx.violation(classify(got, want, case['creds']), case,
                              {'layout': step['layout'], 'rule': step['rules'][name], 'rules_installed': step['rules'],
                               'target': case['target'], 'creds': case['creds'], 'expected': want, 'observed': got,
                               'history': 'steps of this case up to and including this one, in one process'})
                return False
    return True


def check_case_keys(ctx, real, rnd):
    """Placeholder keys (and literal role names) that differ ONLY in letter case.  A target key is an exact string, so
    %(Kx)s and %(kx)s reference different keys: each leaf is decided from its own key (absent -> deny), while role NAMES
    compare ignoring case.  The leaves are parsed one after the other in the same process, side by side in one rule
    set, and together in one expression."""
    pool = [mk_name(rnd) for _ in range(3)]
    kids = mk_key(rnd)
    keys = []
    for _ in range(12):
        s = spell(rnd, kids)
        if s not in keys:
            keys.append(s)
        if len(keys) == 3:
            break
    if len(keys) < 2:
        return
    target, val = {}, {}
    for k in keys:
        if rnd.random() < 0.3:
            val[k] = None                         # this spelling of the key is absent from the target
        else:
            val[k] = rnd.choice(pool)
            target[k] = spell(rnd, val[k])
    leaves = []                                   # (text of X, abstract ids of X or None when a referenced key is missing)
    for k in keys:
        if rnd.random() < 0.7:
            leaves.append(('%%(%s)s' % k, val[k]))
        else:
            p = rnd.choice(pool)
            leaves.append((spell(rnd, p) + '%%(%s)s' % k, None if val[k] is None else p + val[k]))
    nph = len(leaves)
    if rnd.random() < 0.4:                        # both spellings inside one X
        k1, k2 = rnd.sample(keys, 2)
        leaves.append(('%%(%s)s%%(%s)s' % (k1, k2), None if val[k1] is None or val[k2] is None else val[k1] + val[k2]))
    if rnd.random() < 0.5:                        # literal role names that differ only in letter case: the same X
        x = rnd.choice(pool)
        for _ in range(2):
            leaves.append((spell(rnd, x), x))
    mode = rnd.random()
    roles = None
    if mode < 0.08:
        creds = {}
    elif mode < 0.16:
        roles, creds = [], {'roles': []}
    else:
        cands = pool + [ids for _, ids in leaves if ids]
        roles = [rnd.choice(cands) for _ in range(rnd.randint(1, 3))]
        creds = {'roles': [spell(rnd, r) for r in roles]}
    truth = [ids is not None and roles is not None and any(r == ids for r in roles) for _, ids in leaves]
    texts = ['role:' + t for t, _ in leaves]
    steps = []
    order = list(range(len(leaves)))
    rnd.shuffle(order)
    for i in order:
        steps.append(dict(layout='one-after-the-other', rules={'p': texts[i]}, want={'p': truth[i]}))
    steps.append(dict(layout='side-by-side-in-one-rule-set', rules={'p%d' % i: texts[i] for i in range(len(leaves))},
                      want={'p%d' % i: truth[i] for i in range(len(leaves))}))
    ast = expr.random_ast(rnd, 2, len(leaves), p_const=0.05)
    steps.append(dict(layout='one-expression', rules={'p': expr.spell(expr.to_tokens(ast, lambda i: texts[i]))},
                      want={'p': expr.ev(ast, truth)}))
    # which layout comes first decides which spelling is parsed first in this process
    head = steps[:len(order)]
    tail = steps[len(order):]
    r = rnd.random()
    steps = head + tail if r < 0.5 else tail + head if r < 0.75 else [tail[1]] + head + [tail[0]]
    case = dict(case_keys=True, target=target, creds=creds, steps=steps)
    present = [val[k] for k in keys]
    if len(set(truth[:nph])) > 1 or (any(v is None for v in present) and any(v is not None for v in present)) \
            or len(set(v for v in present if v is not None)) > 1:
        ctx.count('case_variant_keys_told_apart')
    if run_case_keys(ctx, real, case):
        ctx.case(['case-keys', target, creds, [s['rules'] for s in steps]], nontrivial=True, stratum='case-keys')


SEGCH = list('0123456789_-')


def mk_path(rnd, tag):
    """Segments of a placeholder key that contains dots: 2-5 segments of letters (either case), digits, _ and -; `tag`
    makes the first segment (the top-level key of the nested form) unique within a case."""
    segs = []
    for _ in range(rnd.randint(2, 5)):
        seg = ''.join(rnd.choice(PAIRS[rnd.randrange(len(PAIRS))]) if rnd.random() < 0.75 else rnd.choice(SEGCH)
                      for _ in range(rnd.randint(1, 4)))
        segs.append(seg)
    segs[0] = segs[0] + tag
    return segs


def nest(rnd, segs, value, decoys):
    """A nested form of `'.'.join(segs) -> value`: the segments are grouped into 2-4 consecutive groups (a group of more
    than one segment = a key that itself contains dots), group 0 is the top-level key, the others nest below it (depth
    1-3).  Mappings may carry sibling keys and may be wrapped in a one- or two-element list.  Returns (top key, value)."""
    g = rnd.randint(2, min(4, len(segs)))
    cuts = sorted(rnd.sample(range(1, len(segs)), g - 1))
    groups = ['.'.join(segs[a:b]) for a, b in zip([0] + cuts, cuts + [len(segs)])]
    inner = value
    listed = False
    for grp in reversed(groups[1:]):
        m = {grp: inner}
        if rnd.random() < 0.3:
            m[rnd.choice(['id', 'name', 'other', grp + '_'])] = rnd.choice(decoys)      # none of them can equal a segment group
        inner = m
        if rnd.random() < 0.12:
            inner = [inner] if rnd.random() < 0.6 else [inner, {grp: rnd.choice(decoys)}]
            listed = True
    return groups[0], inner, listed


def gen_nested_leaf(rnd, pool, tag, target):
    """One `role:` leaf whose placeholder key contains dots.  Returns (text of X, ids of X read from the target's own
    keys or None when the referenced key is absent, ids of X if dotted paths into nested mappings counted as keys - only
    used to tell which cases can distinguish the two readings -, description)."""
    segs = mk_path(rnd, tag)
    path = '.'.join(segs)
    situation = rnd.choice(['nested-only', 'nested-only', 'both', 'both', 'flat-only'])
    if rnd.random() < 0.1:
        num = rnd.choice([7, 42, 0, 12345])
        nv, nval = ids_of_scalar(num), num
    else:
        nv = rnd.choice(pool)
        nval = spell(rnd, nv)
    flat = alt = None
    listed = False
    if situation != 'nested-only':
        flat = rnd.choice([p for p in pool if p != nv])
        target[path] = spell(rnd, flat)
        alt = flat
    if situation != 'flat-only':
        top, inner, listed = nest(rnd, segs, nval, [spell(rnd, p) for p in pool])
        target[top] = inner
        if not listed:
            alt = nv
    elif rnd.random() < 0.3:
        # a nested mapping next to the exact key that does NOT spell the placeholder key
        target[segs[0]] = {'.'.join(segs[1:]) + '_': spell(rnd, nv)}
    form = rnd.choice(['ph', 'ph', 'pre', 'two'])
    ph = '%%(%s)s' % path
    if form == 'ph':
        text, pre, post = ph, (), ()
    elif form == 'pre':
        p = rnd.choice(pool)
        text, pre, post = spell(rnd, p) + ph, p, ()
    else:
        p = rnd.choice(pool)
        target['w' + tag] = spell(rnd, p)          # 'w' is no segment letter: cannot collide with a path
        if rnd.random() < 0.5:
            text, pre, post = '%%(w%s)s' % tag + ph, p, ()
        else:
            text, pre, post = ph + '%%(w%s)s' % tag, (), p
    ids = None if flat is None else pre + flat + post
    alt_ids = None if alt is None else pre + alt + post
    return text, ids, alt_ids, [situation, path] + (['list-of-mappings'] if listed else [])


def distinct_pool(rnd, n):
    pool = []
    while len(pool) < n:
        x = mk_name(rnd)
        if x not in pool:
            pool.append(x)
    return pool


def gen_nested_case(rnd):
    """Stratum nested-target: same shape of case as gen_case (executed and replayed by check_case)."""
    pool = distinct_pool(rnd, 3)
    nleaves = 1 if rnd.random() < 0.55 else rnd.randint(2, 3)
    target = {}
    leaves, alts, descr = [], [], []
    for li in range(nleaves):
        if li == 0 or rnd.random() < 0.7:
            text, ids, alt_ids, d = gen_nested_leaf(rnd, pool, str(li), target)
            descr.append(d)
        else:
            x = rnd.choice(pool)
            text, ids, alt_ids = spell(rnd, x), x, x
        if text.endswith(')') or text.startswith('(') or text.lower() in ('and', 'or', 'not'):
            z = (('L', 5),)
            text, ids, alt_ids = 'z' + text + 'z', (None if ids is None else z + ids + z), (None if alt_ids is None else z + alt_ids + z)
        leaves.append((text, ids))
        alts.append(alt_ids)
    if rnd.random() < 0.3:
        target[rnd.choice(['project_id', 'name', 'id'])] = 'p1'
    mode = rnd.random()
    roles = None
    if mode < 0.05:
        creds = {}
    elif mode < 0.1:
        roles, creds = [], {'roles': []}
    else:
        cands = [i for _, i in leaves if i] + [a for a in alts if a]
        roles = [rnd.choice(pool) for _ in range(rnd.randint(0, 2))]
        if cands and rnd.random() < 0.8:
            roles.insert(rnd.randint(0, len(roles)), rnd.choice(cands))
        if not roles:
            roles = [rnd.choice(pool)]
        creds = {'roles': [spell(rnd, r) for r in roles]}
    if rnd.random() < 0.5:
        creds['user_id'] = 'u'
    if nleaves == 1:
        ast = rnd.choice([('leaf', 0), ('leaf', 0), ('not', ('leaf', 0)), ('and', [('leaf', 0), ('const', True)]),
                          ('or', [('const', False), ('leaf', 0)])])
    else:
        ast = expr.random_ast(rnd, 2, nleaves, p_const=0.05)
    truth = [ids is not None and roles is not None and any(r == ids for r in roles) for _, ids in leaves]
    alt_truth = [a is not None and roles is not None and any(r == a for r in roles) for a in alts]
    rule = expr.spell(expr.to_tokens(ast, lambda i: 'role:' + leaves[i][0]))
    return dict(rule=rule, target=target, creds=creds, want=expr.ev(ast, truth), leaf_truth=truth,
                rep=rnd.choice(['dict', 'dict', 'ctx', 'pv']), nested=descr, alt_want=expr.ev(ast, alt_truth))


def innermost(target, top, path):
    """(mapping, key) of the nested entry below target[top] whose dotted path spells `path` (no lists on the way)."""
    rest = path[len(top) + 1:]
    m = target[top]
    while True:
        for k in m:
            if rest == k:
                return m, k
            if rest.startswith(k + '.') and isinstance(m[k], dict):
                m, rest = m[k], rest[len(k) + 1:]
                break
        else:
            raise KeyError(path)


def run_nested_sequence(ctx, real, case):
    """ONE target object and ONE credentials object (with one roles list) are handed to every call; between the calls the
    exact dotted key is set / deleted, the nested value is replaced and the roles list is rewritten - all in place.
    Every step records the decision the reference wants; used by the run and by replay."""
    import copy
    policy, enf = real
    enf.set_rules(policy.Rules.from_dict({'p': case['rule']}))
    target = copy.deepcopy(case['target'])
    live = []
    creds = {'roles': live, 'user_id': 'u'}
    path, top = case['path'], case['top']
    for n, step in enumerate(case['steps']):
        op, arg = step['op'], step['arg']
        if op == 'roles':
            live[:] = arg
        elif op == 'flat-set':
            target[path] = arg
        elif op == 'flat-del':
            target.pop(path, None)
        elif op == 'nested-set':
            m, k = innermost(target, top, path)
            m[k] = arg
        try:
            got = bool(enf.enforce('p', target, creds))
        except Exception as e:
            got = 'EXC:' + type(e).__name__
        ctx.count('nested_target_sequence_decisions')
        ctx.count('allow_decisions' if got is True else 'deny_decisions' if got is False else 'exceptions')
        if got != step['want']:
            key = 'role-check-raises' if isinstance(got, str) else 'held-role-denied' if step['want'] else 'unheld-role-allowed'
            if not isinstance(got, str) and not live:
                key = 'no-roles-not-denied'
            ctx.violation(key, case, {'rule': case['rule'], 'step': n, 'operation': [op, arg], 'target_now': copy.deepcopy(target),
                                      'roles_now': list(live), 'expected': step['want'], 'observed': got,
                                      'history': 'the same target object and the same credentials object in every call of this case'})
            return False
    return True


def check_nested_sequence(ctx, real, rnd):
    pool = distinct_pool(rnd, 3)
    segs = mk_path(rnd, '')
    path = '.'.join(segs)
    while True:
        top, inner, listed = nest(rnd, segs, spell(rnd, pool[0]), [spell(rnd, p) for p in pool])
        if not listed:
            break
    target = {top: inner}
    flat = None                                # abstract ids under the exact key (None = the key is absent)
    if rnd.random() < 0.4:
        flat = rnd.choice(pool)
        target[path] = spell(rnd, flat)
    import copy
    start = copy.deepcopy(target)
    negate = rnd.random() < 0.3
    rule = ('not ' if negate else '') + 'role:%%(%s)s' % path
    roles = []
    steps = []
    for _ in range(rnd.randint(3, 7)):
        op = rnd.choice(['roles', 'roles', 'flat-set', 'flat-del', 'nested-set', 'none'])
        arg = None
        if op == 'roles':
            roles = [rnd.choice(pool) for _ in range(rnd.randint(0, 3))]
            arg = [spell(rnd, r) for r in roles]
        elif op == 'flat-set':
            flat = rnd.choice(pool)
            arg = spell(rnd, flat)
        elif op == 'flat-del':
            flat = None
        elif op == 'nested-set':
            arg = spell(rnd, rnd.choice(pool))
        want = flat is not None and any(r == flat for r in roles)
        steps.append(dict(op=op, arg=arg, want=(not want) if negate else want))
    case = dict(nested_sequence=True, rule=rule, target=start, path=path, top=top, steps=steps)
    if run_nested_sequence(ctx, real, case):
        ctx.case(['nested-sequence', rule, start, steps], nontrivial=True, stratum='nested-target-sequence')


CTX_LIST_KEYS = ['service_roles']
CTX_TEXT_KEYS = ['service_user_id', 'service_project_id', 'service_user_domain_id', 'user_id', 'project_id', 'domain_id',
                 'user_domain_id', 'project_domain_id', 'system_scope', 'is_admin', 'user_name', 'service_user_name']
DICT_ONLY_KEYS = ['role', 'roles_', 'user_roles', 'role_names', 'groups', 'system', 'token_roles', 'admin_roles']


def other_key(rnd, rep):
    """A credentials key that is NOT the exact string `roles`."""
    if rep != 'dict' or rnd.random() < 0.5:
        return rnd.choice(CTX_LIST_KEYS) if rnd.random() < 0.45 else rnd.choice(CTX_TEXT_KEYS)
    if rnd.random() < 0.4:
        while True:                                 # `roles` in another letter case
            k = ''.join(ch.upper() if rnd.random() < 0.5 else ch for ch in 'roles')
            if k != 'roles':
                return k
    return rnd.choice(DICT_ONLY_KEYS)


def build_creds(case, rep=None):
    """Fresh credentials object of an other-entries case: `roles` (absent when None) plus the other entries."""
    rep = rep or case['rep']
    roles, extras = case['roles'], case['extras']
    if rep == 'dict':
        creds = {k: (list(v) if isinstance(v, list) else v) for k, v in extras.items()}
        if roles is not None:
            creds['roles'] = list(roles)
        return creds
    from oslo_context import context
    kw = {k: (list(v) if isinstance(v, list) else v) for k, v in extras.items()}
    c = context.RequestContext(roles=None if roles is None else list(roles), overwrite=False, **kw)
    return c if rep == 'ctx' else c.to_policy_values()


def run_other_entries(ctx, real, case):
    """Decide the rule of an other-entries case through Enforcer.enforce and by calling the parsed check itself, each
    with freshly built credentials.  Returns False after reporting the first mismatch."""
    policy, enf = real
    shown = dict(case['extras'])
    if case['roles'] is not None:
        shown['roles'] = case['roles']
    for via in ('enforce', 'check'):
        try:
            rules = policy.Rules.from_dict({'p': case['rule']})
            enf.set_rules(rules)
            if via == 'enforce':
                got = bool(enf.enforce('p', dict(case['target']), build_creds(case)))
            else:
                # the check object is handed a mapping (what enforce hands it): a RequestContext goes as its policy values
                got = bool(rules['p'](dict(case['target']), build_creds(case, 'pv' if case['rep'] == 'ctx' else None), enf))
        except Exception as e:
            got = 'EXC:' + type(e).__name__
        ctx.count('other_entries_decisions')
        ctx.count('allow_decisions' if got is True else 'deny_decisions' if got is False else 'exceptions')
        if got != case['want']:
            ctx.violation(classify(got, case['want'], shown), case,
                          {'rule': case['rule'], 'target': case['target'], 'credentials_given_as': case['rep'], 'decided_through': via,
                           'roles': case['roles'], 'other_entries': case['extras'], 'expected': case['want'], 'observed': got})
            return False
    return True


def check_other_entries(ctx, real, rnd):
    """Credentials that carry, besides or instead of `roles`, other entries whose values are role-like lists or strings
    naming X.  Only the names in the `roles` list count; no `roles` entry -> deny."""
    pool = distinct_pool(rnd, 3)
    nleaves = 1 if rnd.random() < 0.65 else 2
    target, leaves = {}, []
    for li in range(nleaves):
        x = rnd.choice(pool)
        form = rnd.choice(['lit', 'lit', 'ph', 'pre'])
        if form == 'lit':
            text, ids = spell(rnd, x), x
        elif form == 'ph':
            target['k%d' % li] = spell(rnd, x)
            text, ids = '%%(k%d)s' % li, x
        else:
            p = rnd.choice(pool)
            target['k%d' % li] = spell(rnd, x)
            text, ids = spell(rnd, p) + '%%(k%d)s' % li, p + x
        if text.endswith(')') or text.startswith('(') or text.lower() in ('and', 'or', 'not'):
            text, ids = 'z' + text + 'z', (('L', 5),) + ids + (('L', 5),)
        leaves.append((text, ids))
    xs = [ids for _, ids in leaves]
    rep = rnd.choice(['dict', 'dict', 'ctx', 'ctx', 'pv'])
    mode = rnd.random()
    if mode < 0.2:
        roles = None                                # no roles entry (a RequestContext then reports an empty list)
    elif mode < 0.35:
        roles = []
    elif mode < 0.75:                               # roles that do not hold any X
        roles = [r for r in (rnd.choice(pool) for _ in range(rnd.randint(1, 3))) if r not in xs] or []
    else:
        roles = [rnd.choice(pool + xs) for _ in range(rnd.randint(1, 3))]
    extras, names_x = {}, False
    for _ in range(rnd.randint(1, 3)):
        k = other_key(rnd, rep)
        named = rnd.choice(xs) if rnd.random() < 0.8 else rnd.choice(pool)
        names_x = names_x or named in xs
        if k in CTX_LIST_KEYS or (rep == 'dict' and rnd.random() < 0.6):
            v = [spell(rnd, named)]
            if rnd.random() < 0.4:
                v.insert(rnd.randint(0, 1), spell(rnd, rnd.choice(pool)))
        else:
            v = spell(rnd, named)
        extras[k] = v
    if nleaves == 1:
        ast = rnd.choice([('leaf', 0), ('leaf', 0), ('not', ('leaf', 0)), ('and', [('leaf', 0), ('const', True)])])
    else:
        ast = expr.random_ast(rnd, 2, nleaves, p_const=0.05)
    truth = [roles is not None and any(r == ids for r in roles) for ids in xs]
    case = dict(other_entries=True, rule=expr.spell(expr.to_tokens(ast, lambda i: 'role:' + leaves[i][0])), target=target,
                roles=None if roles is None else [spell(rnd, r) for r in roles], extras=extras, rep=rep, want=expr.ev(ast, truth))
    if names_x and not all(truth):
        ctx.count('other_entry_names_x_roles_do_not')
    if rep != 'dict':
        ctx.count('non_dict_credentials')
    if run_other_entries(ctx, real, case):
        ctx.case(['other-entries', case['rule'], target, case['roles'], extras, rep], nontrivial=True, stratum='other-entries')


def run(ctx):
    ctx.reserve(0.8)          # the strata that come last (overlapping operations) keep a fifth of the wall budget
    self_check()
    from oslo_policy import policy
    enf = policy.Enforcer(env.fresh_conf(), use_conf=False)
    n = N[ctx.tier] // ctx.nshards + 1
    for i in range(n):
        if (i & 0x1ff) == 0 and ctx.expired():
            break
        case = gen_case(ctx.rnd)
        check_case(ctx, (policy, enf), case)
        if i % 4000 == 0:
            ctx.sample({k: case[k] for k in ('rule', 'target', 'creds', 'want')})
        if i % 5 == 0:
            check_sequence(ctx, (policy, enf), ctx.rnd)
        if i % 50 == 0:
            check_list_form(ctx, (policy, enf), ctx.rnd)
        if i % 5 == 2:
            check_other_entries(ctx, (policy, enf), ctx.rnd)
        if i % 10 == 0:
            check_case_keys(ctx, (policy, enf), ctx.rnd)
        if i % 4 == 1:
            ncase = gen_nested_case(ctx.rnd)
            check_case(ctx, (policy, enf), ncase)
            if i % 4000 == 1:
                ctx.sample({k: ncase[k] for k in ('rule', 'target', 'creds', 'want', 'nested')}, stratum='nested-target')
        if i % 20 == 3:
            check_nested_sequence(ctx, (policy, enf), ctx.rnd)
    ctx.stratum('random', exhaustive=False)
    ctx.release()
    # overlapping evaluations last: the line-level scheduler slows everything that runs after it is installed
    from pv.mon import sched
    try:
        for i in range(12 if ctx.tier == 'quick' else 200):
            if ctx.expired():
                break
            check_overlap(ctx, (policy, enf), ctx.rnd)
    finally:
        sched.uninstall()


def replay(ctx, case):
    from oslo_policy import policy
    enf = policy.Enforcer(env.fresh_conf(), use_conf=False)
    if case.get('sequence'):
        return replay_sequence(ctx, (policy, enf), case)
    if case.get('case_keys'):
        return run_case_keys(ctx, (policy, enf), case)
    if case.get('nested_sequence'):
        return run_nested_sequence(ctx, (policy, enf), case)
    if case.get('other_entries'):
        return run_other_entries(ctx, (policy, enf), case)
    if case.get('overlap'):
        from pv.mon import sched
        try:
            return check_overlap(ctx, (policy, enf), None, fixed=case)
        finally:
            sched.uninstall()
    if case.get('list_form'):
        return check_list_form(ctx, (policy, enf), None, fixed=case)
    check_case(ctx, (policy, enf), case)
