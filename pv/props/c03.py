"""C03 - unknown policy names fail closed; the default rule is the only fallback.

The quantifier is a finite table; it is enumerated completely and every row is
decided by the real Enforcer and compared with a reference function written
from the statement."""
import itertools
import json
import os

from pv.core import env
from pv.gen import files
from pv.mon import contracts

ID = 'C03'
LEVEL = 'exploration'
TECHNIQUE = 'exhaustive decision-table monitor: real Enforcer.enforce vs reference function of the statement, every row; overlapping decisions and decisions during a reload under a deterministic line-level thread scheduler (sys.monitoring)'
RULE = ('rows = (rule set over names {a,b,default} each absent/@/!/role:x/role:y: 216 sets incl. the empty one and null-valued entries, which are defined and deny) x '
        '(default-rule configuration: unset, constructor name default/b/ghost, constructor check object True/False/Role, '
        'option policy_default_rule = b / empty) x (rules installed by set_rules / constructor / policy file, as a plain mapping or as a Rules object carrying a default of its own) x '
        '(queried name a,b,default,ghost,zzz) x (4 role sets) x do_raise off/on. Non-trivial = the queried name is '
        'not defined in the rule set (the fallback decides); distinct = distinct row. Stratum `mutation`: the same table re-checked after the '
        'rule set of a living enforcer changed (merge without overwrite, direct store update, item assignment / deletion, overwrite, '
        'file reload in non-overwrite mode), against the CURRENT rule set. Stratum `registered`: a registered default that no file mentions stays '
        'defined (never decided by the default rule) through histories of policy.d edits, deletions and forced reloads, with and without a main file. Stratum `policy_dirs`: two and three configured policy directories (each one existing with two files, existing and empty, or missing on disk), every directory with files defining a name of its own (deny / role-dependent / null) plus its own body for a shared name, the default rule permissive and defined in the main file, in one of the directories, or configured as a check object / constructor name / option (and one unusable default), with and without a main file; after the first load and after every step of a short history (a directory file rewritten or added, a file deleted, a forced reload, the main file rewritten or created) every name is decided by the reference function applied to the rule set the CURRENT files define (main file, then the existing directories in configured order, files of a directory in sorted order, later definitions replacing earlier ones). Half of the `policy_dirs` cases use SYMBOLIC LINKS (available/enabled layouts, ConfigMap mounts): directory files that are links to regular files kept elsewhere in the tree, outside every policy directory (relative and absolute link texts; rewritten where they are kept, taken away, pointed at a new file), extra directory files that are links to a file of another configured directory, and configured directories that are themselves links to a directory; no link ever dangles, the fold of the current files follows links, and a rewrite advances the times of the target, its directory and the directory of the link. Stratum `assigned_store`: the table on the routes that use a rule store AS IT IS - `enforcer.rules = store` with the store built by Rules.from_dict / Rules.load (JSON text) / Rules.load_json, its default_rule argument omitted, None, a name (default / b / ghost) or a check object: the default rule that is configured is the one the store was built with (the fallback key of the effective rule store), so with no default_rule argument unknown names deny even when a rule called `default` exists and allows; the configuration of the enforcer rotates through all nine. A third of the table rows run with the debug logging of the library switched on. Stratum `deprecated`: an enforcer that loads from files (main file and / or a policy directory) with registered defaults that have deprecated predecessors (renamed and same-name, reason / since given on the DeprecatedRule or old-style on the new default, one default deprecated for removal, enforce_new_defaults on / off), the old names sometimes maintained in a file, through short histories of file edits and forced reloads: a name defined nowhere - the old name of a renamed predecessor that no file and no registration defines included - is decided by the default rule only, a name a file defines by the file, a plain registered name by its registered body (a registered name with a predecessor: any documented reading of its own definition is accepted). Stratum `shared_files`: two or three living enforcers (default-rule configurations of their own; one configuration object or one each) over the SAME main policy file / policy directory, whole-table questions in shuffled order with file edits (a name newly defined as denying, the default rule removed, bodies flipped), forced reloads and clear() of one of them in between: every decision of every enforcer follows the CURRENT file content. Stratum `reload`: a name defined in the main policy file (and an unknown name with a usable default) decided while the enforce call of another thread re-reads the rewritten main file in which those definitions stand unchanged (reloader pre-empted at sampled line boundaries). Stratum `overlap`: two decisions on one enforcer at the same time (second one runs at sampled line boundaries of the first, deterministic scheduler), each decided as the table says.')
ASSUMPTIONS = ['rule bodies contain no rule: references (reference cycles through the default are C06/C13 territory)',
               'role:x / role:y / @ / ! leaves evaluate as C01/C04 state']
LEVEL_TEXT = ('The complete decision table of the statement (about 1.3e5 rows) is driven through the real enforcer and '
              'compared row by row; a finite quantifier, so enumeration is the right level.')
LEVEL_NOTE = 'trusted: the 12-line reference function; the name/role universe is small by design'
PLAN = {'quick': dict(shards=4, wall=120), 'thorough': dict(shards=8, wall=300)}
MIN = {'deprecated_decisions': 5000, 'deprecated_decisions_old_name_of_renamed_default_defined_nowhere': 600, 'shared_files_decisions': 5000, 'shared_files_decisions_after_an_edit_another_enforcer_asked_first': 1500, 'assigned_store_decisions': 20000, 'assigned_store_unknown_name_no_default_argument': 1500, 'assigned_store_unknown_name_no_default_argument_rule_named_default_allows': 400, 'policy_dirs_decisions_with_symlinks': 8000, 'policy_dirs_decisions_name_only_in_symlinked_files': 1000, 'policy_dirs_decisions_symlinked_directory': 3000, 'policy_dirs_decisions': 8000, 'policy_dirs_decisions_name_only_in_earlier_directory': 400, 'overlapping_evaluations': 200, 'decisions_during_reload': 100, 'configs_under_debug_logging': 100, 'registered_decisions': 2000, 'mutation_decisions': 20000, 'evaluations': 10000, 'fallback_rows': 2000, 'allow_decisions': 1000, 'deny_decisions': 1000}
ANCHORS = ['oslo_policy.policy:Rules.__missing__', 'oslo_policy.policy:Enforcer.enforce',
           'oslo_policy.policy:Enforcer.set_rules', 'oslo_policy.policy:Rules.__init__']
REQUIRED_ANCHORS = ['oslo_policy.policy:Enforcer.enforce']

BODIES = [None, '@', '!', 'role:x', 'role:y', 'NULL']      # None = name absent; 'NULL' = defined with a null value (denies)
CREDS = [[], ['x'], ['y'], ['x', 'y']]
DCFGS = ['unset', 'ctor_default', 'ctor_other', 'ctor_ghost', 'obj_true', 'obj_false', 'obj_role', 'opt_b', 'opt_empty']
VIAS = ['set_rules', 'ctor', 'file', 'set_rules+own-default', 'ctor+own-default', 'set_rules+own-ghost']
QUERIES = ['a', 'b', 'default', 'ghost', 'zzz']
# ---- routes on which the enforcer uses a rule store AS IT IS: `enforcer.rules = store` -----------------------------
# the store is built by a public constructor of Rules (dictionary / JSON text / the deprecated load_json) WITHOUT a
# default_rule argument or with an explicit one; set_rules() and Enforcer(rules=...) re-wrap a store, attribute
# assignment does not: the default rule that is configured is the one the store was built with - none when no
# default_rule argument was given (then unknown names deny although a rule called `default` may exist and allow)
AS_BUILDERS = ['from_dict', 'load', 'load_json']
# how the store's default rule is given -> the default-rule configuration the reference function decides with
AS_OWN = {'omitted': 'opt_empty', 'none': 'opt_empty', 'default': 'ctor_default', 'b': 'ctor_other', 'ghost': 'ctor_ghost',
          'obj_true': 'obj_true', 'obj_role': 'obj_role'}
ASSIGN_VIAS = ['assign/%s/%s' % (b, o) for b in AS_BUILDERS for o in AS_OWN]


def governing(dcfg, via):
    """The default-rule configuration that decides unknown names: the enforcer's own on every route that hands the rules
    to the enforcer; the store's own when the store is assigned to `enforcer.rules` and used as it is."""
    if via.startswith('assign/'):
        return AS_OWN[via.split('/')[2]]
    return dcfg


def build_store(rules, via):
    """A Rules object from one of the public constructors, its default rule omitted or explicit."""
    import warnings
    from oslo_policy import policy, _checks
    _, builder, own = via.split('/')
    args = {'omitted': (), 'none': (None,), 'default': ('default',), 'b': ('b',), 'ghost': ('ghost',),
            'obj_true': (_checks.TrueCheck(),), 'obj_role': (_checks.RoleCheck('role', 'x'),)}[own]
    if builder == 'from_dict':
        return policy.Rules.from_dict(materialise(rules), *args)
    text = json.dumps(materialise(rules), indent=1)
    if builder == 'load':
        return policy.Rules.load(text, *args)
    with warnings.catch_warnings():
        warnings.simplefilter('ignore', DeprecationWarning)      # load_json is deprecated, and public
        return policy.Rules.load_json(text, *args)


def body_value(b, roles):
    return {'@': True, '!': False, 'role:x': 'x' in roles, 'role:y': 'y' in roles, 'NULL': False, None: False}[b]


def materialise(rules):
    """'NULL' stands for a null rule value: the name is DEFINED (and denies); it is not an unknown name."""
    return {k: (None if v == 'NULL' else v) for k, v in rules.items()}


def reference(rules, dcfg, q, roles):
    """The statement, as a function."""
    if not rules:
        return False                                   # empty rule set: deny
    if q in rules:
        return body_value(rules[q], roles)             # a defined name is decided by its own definition
    if dcfg == 'obj_true':
        return True                                    # default is a check object
    if dcfg == 'obj_false':
        return False
    if dcfg == 'obj_role':
        return 'x' in roles
    dname = {'unset': 'default', 'ctor_default': 'default', 'ctor_other': 'b', 'ctor_ghost': 'ghost',
             'opt_b': 'b', 'opt_empty': None}[dcfg]
    if dname and dname in rules:
        return body_value(rules[dname], roles)         # default name that is itself defined
    return False                                       # no usable default: deny


def build(rules, dcfg, via):
    from oslo_policy import policy, _checks
    kw = {}
    overrides = {}
    if dcfg == 'ctor_default':
        kw['default_rule'] = 'default'
    elif dcfg == 'ctor_other':
        kw['default_rule'] = 'b'
    elif dcfg == 'ctor_ghost':
        kw['default_rule'] = 'ghost'
    elif dcfg == 'obj_true':
        kw['default_rule'] = _checks.TrueCheck()
    elif dcfg == 'obj_false':
        kw['default_rule'] = _checks.FalseCheck()
    elif dcfg == 'obj_role':
        kw['default_rule'] = _checks.RoleCheck('role', 'x')
    elif dcfg == 'opt_b':
        overrides['policy_default_rule'] = 'b'
    elif dcfg == 'opt_empty':
        overrides['policy_default_rule'] = ''
    tree = None
    if via == 'file':
        tree = files.Tree(dirs=())
        tree.write(os.path.basename(tree.main), materialise(rules), 'json')
        enf = policy.Enforcer(tree.conf(policy_dirs=[], **overrides), **kw)
    elif via.startswith('assign/'):
        # the store is used as it is (attribute assignment, as some services do): its own default rule is the configured one
        enf = policy.Enforcer(env.fresh_conf(policy_dirs=[], **overrides), use_conf=False, **kw)
        enf.rules = build_store(rules, via)
    else:
        conf = env.fresh_conf(policy_dirs=[], **overrides)
        # a Rules object may carry a default of its own (Rules.load(data, 'default'), a store borrowed from another
        # enforcer): the default that counts is the one configured on THIS enforcer
        own = {'set_rules': None, 'ctor': None, 'set_rules+own-default': 'b', 'ctor+own-default': 'default',
               'set_rules+own-ghost': 'ghost'}[via]
        store = policy.Rules.from_dict(materialise(rules), own) if own else policy.Rules.from_dict(materialise(rules))
        if via.startswith('set_rules'):
            enf = policy.Enforcer(conf, use_conf=False, **kw)
            enf.set_rules(store)
        else:
            enf = policy.Enforcer(conf, use_conf=False, rules=store, **kw)
    return enf, tree


def check_config(ctx, rules, dcfg, via, debug=False):
    from oslo_policy import policy
    enf, tree = build(rules, dcfg, via)
    dbg = env.debug_logging() if debug else None
    if dbg:
        # the library's own debug logging (it describes every decision) must not change any row
        dbg.__enter__()
        ctx.count('configs_under_debug_logging')
    try:
        assigned = via.startswith('assign/')
        for q in QUERIES:
            for roles in CREDS:
                want = reference(rules, governing(dcfg, via), q, roles)
                for do_raise in (False, True):
                    try:
                        got = enf.enforce(q, {}, {'roles': list(roles)}, do_raise=do_raise)
                        got = bool(got)
                    except policy.PolicyNotAuthorized:
                        got = False if do_raise else 'EXC:PolicyNotAuthorized'
                    except Exception as e:
                        got = 'EXC:' + type(e).__name__
                    row = [rules, dcfg, via, q, roles, do_raise]
                    fallback = bool(rules) and q not in rules
                    ctx.case(row, nontrivial=fallback)
                    if fallback:
                        ctx.count('fallback_rows')
                    if assigned:
                        ctx.count('assigned_store_decisions')
                        if fallback and via.endswith('/omitted'):
                            ctx.count('assigned_store_unknown_name_no_default_argument')
                            if 'default' in rules and body_value(rules['default'], roles):
                                ctx.count('assigned_store_unknown_name_no_default_argument_rule_named_default_allows')
                    ctx.count('allow_decisions' if got is True else 'deny_decisions' if got is False else 'exceptions')
                    if got != want:
                        if isinstance(got, str):
                            key = 'unknown-name-raises' if q not in rules else 'defined-name-raises'
                        elif not rules:
                            key = 'empty-ruleset-allows'
                        elif q in rules:
                            key = 'defined-name-decided-by-something-else'
                        elif want is False:
                            key = 'unusable-default-allows'
                        else:
                            key = 'usable-default-not-applied'
                        ctx.violation(key, dict(rules=rules, dcfg=dcfg, via=via, debug=debug),
                                      {'row': row, 'expected': want, 'observed': got, 'library_debug_logging': debug,
                                       'default_rule_that_governs': governing(dcfg, via)})
        ctx.observe('configs', '%s/%s' % (dcfg, via))
    finally:
        if dbg:
            dbg.__exit__(None, None, None)
        if tree:
            tree.cleanup()
    for name, info in contracts.drain():
        ctx.violation('contract-' + name, dict(rules=rules, dcfg=dcfg, via=via, debug=debug), {'contract': name, 'observed': info})


def table_ok(ctx, enf, rules, dcfg, case, label):
    for q in QUERIES:
        for roles in CREDS:
            want = reference(rules, dcfg, q, roles)
            try:
                got = bool(enf.enforce(q, {}, {'roles': list(roles)}))
            except Exception as e:
                got = 'EXC:' + type(e).__name__
            ctx.count('mutation_decisions')
            if got != want:
                ctx.violation('stale-fallback-after-rule-set-change', case,
                              {'after': label, 'current_rules': rules, 'default_config': dcfg, 'queried': q, 'roles': roles,
                               'expected': want, 'observed': got})
                return False
    return True


MUTATIONS = ['merge-set_rules', 'update-store', 'setitem', 'delitem', 'overwrite-set_rules', 'file-merge', 'clear-then-set_rules',
             'drop-default-then-set_rules']


def check_mutation(ctx, case):
    """The rule set changes while the enforcer lives (merge without overwrite, direct store update, item assignment /
    deletion, file reload in non-overwrite mode); after each change the whole decision table must follow the CURRENT rule set."""
    from oslo_policy import policy, _parser
    rules, dcfg, mut, change = dict(case['rules']), case['dcfg'], case['mutation'], case['change']
    via = 'file' if mut == 'file-merge' else 'set_rules'
    if mut == 'file-merge':
        from oslo_policy import _checks
        kw = {}
        ov = {}
        enf_tree = files.Tree(dirs=())
        enf_tree.write(os.path.basename(enf_tree.main), rules, 'json')
        enf, tree = build_overwrite_false(policy, enf_tree, dcfg)
    else:
        enf, tree = build(rules, dcfg, via)
    try:
        ctx.case(case, nontrivial=True, stratum='mutation')
        if not table_ok(ctx, enf, rules, dcfg, case, 'initial'):      # also warms every lookup path
            return
        cur = dict(rules)
        if mut == 'merge-set_rules':
            cur.update(change)
            enf.set_rules(policy.Rules.from_dict(change), overwrite=False)
        elif mut == 'update-store':
            cur.update(change)
            enf.rules.update({k: _parser.parse_rule(v) for k, v in change.items()})
        elif mut == 'setitem':
            cur.update(change)
            for k, v in change.items():
                enf.rules[k] = _parser.parse_rule(v)
        elif mut == 'delitem':
            for k in change:
                if k in cur and len(cur) > 1:
                    del cur[k]
                    del enf.rules[k]
        elif mut == 'overwrite-set_rules':
            cur = dict(change)
            enf.set_rules(policy.Rules.from_dict(change), overwrite=True)
        elif mut == 'file-merge':
            cur.update(change)
            tree.write(os.path.basename(tree.main), change, 'json')
        elif mut in ('clear-then-set_rules', 'drop-default-then-set_rules'):
            # the service drops the default rule of a living enforcer (clear() forgets everything including the
            # default rule; or it sets default_rule to None) and installs rules again: from then on there is NO default
            if mut == 'clear-then-set_rules':
                enf.clear()
            else:
                enf.default_rule = None
            cur = dict(change)
            enf.set_rules(policy.Rules.from_dict(change), overwrite=True)
            dcfg = 'opt_empty'               # reference: no default rule configured at all
        table_ok(ctx, enf, cur, dcfg, case, mut)
    finally:
        if tree:
            tree.cleanup()


def build_overwrite_false(policy, tree, dcfg):
    from oslo_policy import _checks
    kw, overrides = {}, {}
    if dcfg == 'ctor_default':
        kw['default_rule'] = 'default'
    elif dcfg == 'ctor_other':
        kw['default_rule'] = 'b'
    elif dcfg == 'ctor_ghost':
        kw['default_rule'] = 'ghost'
    elif dcfg == 'obj_true':
        kw['default_rule'] = _checks.TrueCheck()
    elif dcfg == 'obj_false':
        kw['default_rule'] = _checks.FalseCheck()
    elif dcfg == 'obj_role':
        kw['default_rule'] = _checks.RoleCheck('role', 'x')
    elif dcfg == 'opt_b':
        overrides['policy_default_rule'] = 'b'
    elif dcfg == 'opt_empty':
        overrides['policy_default_rule'] = ''
    enf = policy.Enforcer(tree.conf(policy_dirs=[], **overrides), overwrite=False, **kw)
    return enf, tree


def check_registered(ctx, case):
    """Names the service registered are DEFINED even when no file mentions them: after every step of a small history
    (first load, policy.d file edited, forced reload, policy.d file deleted) they are decided by their own definition and
    never by the default rule; unknown names follow the default rule of the current files."""
    from oslo_policy import policy
    tree = files.Tree(dirs=('pd',))
    try:
        if case['main'] is not None:
            tree.write('policy.yaml', case['main'], 'json')
        tree.write('pd/a.yaml', case['dir0'], 'json')
        enf = policy.Enforcer(tree.conf())
        enf.register_default(policy.RuleDefault('reg', case['reg']))
        cur_main = dict(case['main'] or {})
        cur_dir = dict(case['dir0'])
        ctx.case(case, nontrivial=True, stratum='registered')
        for step in ['load'] + case['steps']:
            if step == 'edit-dir':
                cur_dir = dict(case['dir1'])
                tree.write('pd/a.yaml', cur_dir, 'json')
            elif step == 'delete-dir-file':
                cur_dir = {}
                tree.delete('pd/a.yaml')
            elif step == 'force':
                enf.load_rules(force_reload=True)
            elif step == 'edit-main' and case['main'] is not None:
                cur_main = dict(cur_main, extra='@')
                tree.write('policy.yaml', cur_main, 'json')
            eff = dict(cur_main)
            eff.update(cur_dir)
            eff.setdefault('reg', case['reg'])
            for q in ('reg', 'a', 'ghost', 'default'):
                for roles in CREDS:
                    want = reference(eff, 'unset', q, roles)
                    try:
                        got = bool(enf.enforce(q, {}, {'roles': list(roles)}))
                    except Exception as e:
                        got = 'EXC:' + type(e).__name__
                    ctx.count('registered_decisions')
                    if got != want:
                        key = 'registered-name-decided-by-default-rule' if q == 'reg' else 'stale-fallback-after-rule-set-change'
                        ctx.violation(key, case, {'after_step': step, 'effective_rules': eff, 'queried': q, 'roles': roles,
                                                  'expected': want, 'observed': got})
                        return
    finally:
        tree.cleanup()


# ---- several configured policy directories ------------------------------------
# one letter per configured directory: F = exists and holds two files, E = exists and is empty, M = missing on disk
PD_LAYOUTS = ['FF', 'FM', 'MF', 'FE', 'EF', 'FFF', 'FMF', 'FFM', 'MFF', 'FEF', 'FFE', 'EFF', 'EFM']
# (default-rule configuration, name of the default rule, its body, where that name is defined)
PD_DEFAULTS = [('unset', 'default', '@', 'main'), ('unset', 'default', '@', 'dir'), ('obj_true', None, None, None),
               ('ctor_other', 'b', '@', 'dir'), ('opt_b', 'b', '@', 'main'), ('obj_role', None, None, None),
               ('ctor_default', 'default', 'role:x', 'dir'), ('ctor_ghost', None, None, None)]
PD_STEPS = [[], ['edit'], ['force'], ['edit', 'force'], ['delete'], ['edit', 'delete'], ['force', 'edit', 'force'],
            ['edit-main', 'edit'], ['delete', 'edit']]
PD_QUERIES = ['n0', 'n1', 'n2', 'a', 'b', 'c', 'm', 'default', 'ghost']
PD_REPS = {'quick': 1, 'thorough': 6}


def default_kwargs(dcfg):
    """(constructor keywords, option overrides) of one default-rule configuration - the same mapping as in build()."""
    from oslo_policy import _checks
    kw, overrides = {}, {}
    if dcfg == 'ctor_default':
        kw['default_rule'] = 'default'
    elif dcfg == 'ctor_other':
        kw['default_rule'] = 'b'
    elif dcfg == 'ctor_ghost':
        kw['default_rule'] = 'ghost'
    elif dcfg == 'obj_true':
        kw['default_rule'] = _checks.TrueCheck()
    elif dcfg == 'obj_false':
        kw['default_rule'] = _checks.FalseCheck()
    elif dcfg == 'obj_role':
        kw['default_rule'] = _checks.RoleCheck('role', 'x')
    elif dcfg == 'opt_b':
        overrides['policy_default_rule'] = 'b'
    elif dcfg == 'opt_empty':
        overrides['policy_default_rule'] = ''
    return kw, overrides


def pd_fold(main, dirs):
    """The rule set the CURRENT files define: the main file, then every existing directory in configured order, the
    files of a directory in sorted order; a later definition of a name replaces an earlier one."""
    eff = dict(main or {})
    for d in dirs:
        if d is not None:
            for fn in sorted(d):
                eff.update(d[fn])
    return eff


def gen_policy_dirs(layout, dopt, steps, r):
    """One configuration with two or three configured policy directories plus a short history, as a replayable dict.
    Every directory with files defines a name of its own (n<i>: deny / role-dependent / null) that nothing else in a
    directory defines, and its own body for the shared name `a`."""
    dcfg, dname, dbody, place = dopt
    rot = r.randrange(12)
    fdirs = [i for i, s in enumerate(layout) if s == 'F']
    existing = [i for i, s in enumerate(layout) if s != 'M']
    dirs = []
    for i, s in enumerate(layout):
        if s == 'M':
            dirs.append(None)
        elif s == 'E':
            dirs.append({})
        else:
            dirs.append({'a.yaml': {'n%d' % i: ['!', 'role:y', 'NULL', 'role:x'][(i + rot) % 4]},
                         'b.yaml': {'a': ['!', 'role:x', '@', 'role:y'][(i + rot) % 4]}})
    main = None
    if place == 'main':
        main = {dname: dbody, 'm': 'role:y'}
    elif r.random() < 0.5:
        main = {'m': r.choice(['role:y', '!'])}
    if main is not None and r.random() < 0.3:
        main['n%d' % r.choice(fdirs)] = '@'          # also defined in the main file: the directory's definition counts
    if place == 'dir':
        dirs[r.choice(fdirs)][r.choice(['a.yaml', 'b.yaml'])][dname] = dbody
    cur = [None if d is None else {fn: dict(m) for fn, m in d.items()} for d in dirs]
    cur_main = None if main is None else dict(main)
    ops = []
    for s in steps:
        if s == 'force':
            ops.append(['force'])
        elif s == 'edit':
            i = r.choice(existing)
            new = dict(cur[i].get('b.yaml', {}), a=r.choice(['!', 'role:x', 'role:y', '@']), c=r.choice(['!', 'role:y']))
            cur[i]['b.yaml'] = new
            ops.append(['write', i, 'b.yaml', new])
        elif s == 'delete':
            cands = [[i, fn] for i in existing for fn in sorted(cur[i])]
            if cands:
                i, fn = r.choice(cands)
                del cur[i][fn]
                ops.append(['delete', i, fn])
        elif s == 'edit-main':
            cur_main = dict(cur_main or {}, c=r.choice(['role:x', '@']))       # (a main file may also appear only now)
            ops.append(['write-main', cur_main])
    return dict(policy_dirs=True, layout=layout, main=main, dirs=dirs, dcfg=dcfg, ops=ops)


def pd_view(cur_dirs):
    """What the files of the directories say with symbolic links followed: an entry ['link', j, fn] stands for a link to
    file fn of configured directory j (whatever that file says now)."""
    return [None if d is None else {fn: (cur_dirs[m[1]][m[2]] if isinstance(m, list) else m) for fn, m in d.items()}
            for d in cur_dirs]


def gen_policy_dirs_links(layout, dopt, steps, r):
    """A configuration of gen_policy_dirs in which some things are SYMBOLIC LINKS (available/enabled layouts, ConfigMap
    mounts, links kept by configuration management): directory files that are links to regular files kept elsewhere in the
    tree (outside every policy directory), extra directory files that are links to a file of another policy directory, and
    configured directories that are themselves links to a directory.  Every link points to something that exists."""
    case = gen_policy_dirs(layout, dopt, steps, r)
    dirs = case['dirs']
    fdirs = [i for i, s in enumerate(layout) if s == 'F']
    existing = [i for i, s in enumerate(layout) if s != 'M']
    mode = r.choice(['outside', 'outside', 'other', 'dir', 'mixed', 'mixed'])
    if mode == 'other' and len(existing) < 2:
        mode = 'outside'
    outside, aliases, dir_links = [], [], []
    if mode in ('outside', 'mixed'):
        for i in fdirs:
            for fn in sorted(dirs[i]):
                if r.random() < 0.6:
                    outside.append([i, fn, r.random() < 0.3])            # [directory, file, absolute link text]
        if not outside:
            outside.append([r.choice(fdirs), 'a.yaml', False])
    if mode in ('other', 'mixed') and len(existing) > 1:
        for _ in range(r.choice([1, 2])):
            j = r.choice(fdirs)
            i = r.choice([x for x in existing if x != j])
            nm = r.choice(['c.yaml', '0.yaml'])                          # read after / before the directory's own files
            if not any(a[0] == i and a[1] == nm for a in aliases):
                aliases.append([i, nm, j, r.choice(['a.yaml', 'b.yaml']), r.random() < 0.3])
    if mode in ('dir', 'mixed'):
        dir_links = [[i, r.random() < 0.3] for i in existing if r.random() < 0.5]
        if mode == 'dir' and not dir_links:
            dir_links = [[r.choice(existing), False]]
    ops = [list(o) for o in case['ops']]
    if aliases and r.random() < 0.4:
        a = r.choice(aliases)
        ops.insert(r.randrange(len(ops) + 1), ['delete', a[0], a[1]])      # a link is taken away ("disabled"); its target stays
    if outside and r.random() < 0.5:
        i, fn, _ = r.choice(outside)
        ops.insert(r.randrange(len(ops) + 1),                              # the link is pointed at a new file kept outside
                   ['relink', i, fn, {k: r.choice(['!', 'role:x', 'role:y', '@']) for k in dirs[i][fn]}, r.random() < 0.3])
    case['ops'] = ops
    case['linked'] = dict(mode=mode, outside=outside, aliases=aliases, dir_links=dir_links)
    return case


def check_policy_dirs(ctx, case):
    """Two or three configured policy directories (some missing on disk, some empty), with and without a main file: after
    the first load and after every step of a short history (a directory file rewritten or added, a file deleted, a forced
    reload, the main file rewritten) every queried name is decided as the statement says for the rule set the CURRENT files
    define - a name defined in any of the directories by its own definition, never by the (usually permissive) default."""
    from oslo_policy import policy
    dcfg = case['dcfg']
    # symbolic links (absent in the plain layouts): the current regular file behind a directory file that is a link to a
    # file kept outside the policy directories; the configured directories that are links to a directory
    linked = case.get('linked') or {}
    dir_links = {i: bool(ab) for i, ab in linked.get('dir_links', ())}
    link_abs = {(i, fn): bool(ab) for i, fn, ab in linked.get('outside', ())}
    outside = {}
    kept = []
    tree = files.Tree(dirs=())
    try:
        names = ['pd%d' % i for i in range(len(case['dirs']))]
        cur_dirs = []

        def put_outside(i, fn, mapping, absolute):
            tree.mkdir('store')
            kept.append(fn)
            rel = 'store/%s-%s.%d' % (names[i], fn, len(kept))
            tree.write(rel, materialise(mapping), 'json')
            if os.path.lexists(tree.path(names[i] + '/' + fn)):
                tree.delete(names[i] + '/' + fn)
            tree.symlink(names[i] + '/' + fn, rel, absolute)
            outside[(i, fn)] = rel

        def dependents(i, fn):
            return [(x, f) for x, d in enumerate(cur_dirs) if d for f, m in d.items()
                    if isinstance(m, list) and m[1] == i and m[2] == fn]

        def refresh(i, fn):
            for x, f in dependents(i, fn):               # the file behind these links changed: they carry the new time too
                tree.touch(names[x] + '/' + f)

        def remove(i, fn):
            for x, f in dependents(i, fn):               # links to a file go away with it: never a dangling link
                remove(x, f)
            del cur_dirs[i][fn]
            outside.pop((i, fn), None)
            tree.delete(names[i] + '/' + fn)             # (a link is unlinked; what it pointed to stays where it is)

        for i, (nm, d) in enumerate(zip(names, case['dirs'])):
            if d is None:
                cur_dirs.append(None)
                continue
            if i in dir_links:
                tree.mkdir('real')
                tree.mkdir('real/' + nm)
                tree.symlink(nm, 'real/' + nm, dir_links[i])      # the configured path itself is a link to a directory
            else:
                tree.mkdir(nm)
            cur_dirs.append({})
            for fn in sorted(d):
                if (i, fn) in link_abs:
                    put_outside(i, fn, d[fn], link_abs[(i, fn)])
                else:
                    tree.write(nm + '/' + fn, materialise(d[fn]), 'json')
                cur_dirs[-1][fn] = dict(d[fn])
        for i, fn, j, fn2, ab in linked.get('aliases', ()):
            tree.symlink(names[i] + '/' + fn, names[j] + '/' + fn2, bool(ab))
            cur_dirs[i][fn] = ['link', j, fn2]
        cur_main = None
        if case['main'] is not None:
            cur_main = dict(case['main'])
            tree.write(os.path.basename(tree.main), materialise(cur_main), 'json')
        kw, overrides = default_kwargs(dcfg)
        enf = policy.Enforcer(tree.conf(policy_dirs=[tree.path(nm) for nm in names], **overrides), **kw)
        ctx.case(case, nontrivial=True, stratum='policy_dirs')
        for op in [['load']] + [list(o) for o in case['ops']]:
            if op[0] == 'write':
                if isinstance(cur_dirs[op[1]].get(op[2]), list):
                    remove(op[1], op[2])                  # a link to another directory's file is replaced by a file of its own
                cur_dirs[op[1]][op[2]] = dict(op[3])
                if (op[1], op[2]) in outside:
                    # the file behind the link is rewritten where it is kept; target, its directory, the link's directory advance
                    tree.write(outside[(op[1], op[2])], materialise(op[3]), 'json')
                    tree.touch(names[op[1]] + '/' + op[2])
                else:
                    tree.write(names[op[1]] + '/' + op[2], materialise(op[3]), 'json')
                refresh(op[1], op[2])
            elif op[0] == 'delete':
                if not linked or op[2] in cur_dirs[op[1]]:
                    remove(op[1], op[2])
            elif op[0] == 'relink':
                # the directory file becomes (or stays) a link, now to a NEW file kept outside the policy directories
                put_outside(op[1], op[2], op[3], bool(op[4]))
                cur_dirs[op[1]][op[2]] = dict(op[3])
                refresh(op[1], op[2])
            elif op[0] == 'write-main':
                cur_main = dict(op[1])
                tree.write(os.path.basename(tree.main), materialise(cur_main), 'json')
            elif op[0] == 'force':
                enf.load_rules(force_reload=True)
            view = pd_view(cur_dirs)                      # the fold of the current files follows links
            eff = pd_fold(cur_main, view)
            live = [i for i, d in enumerate(cur_dirs) if d is not None]
            for q in PD_QUERIES:
                homes = [i for i in live if any(q in m for m in view[i].values())]
                holders = [(i, fn) for i in live for fn in view[i] if q in view[i][fn]] if linked else []
                only_links = bool(holders) and q not in (cur_main or {}) and all(
                    h in outside or isinstance(cur_dirs[h[0]][h[1]], list) for h in holders)
                for roles in CREDS:
                    want = reference(eff, dcfg, q, roles)
                    try:
                        got = bool(enf.enforce(q, {}, {'roles': list(roles)}))
                    except Exception as e:
                        got = 'EXC:' + type(e).__name__
                    ctx.count('policy_dirs_decisions')
                    if len(homes) == 1 and homes[0] != live[-1]:
                        ctx.count('policy_dirs_decisions_name_only_in_earlier_directory')
                    if linked:
                        ctx.count('policy_dirs_decisions_with_symlinks')
                        if only_links:
                            ctx.count('policy_dirs_decisions_name_only_in_symlinked_files')
                        if dir_links:
                            ctx.count('policy_dirs_decisions_symlinked_directory')
                    if got != want:
                        if isinstance(got, str):
                            key = 'unknown-name-raises' if q not in eff else 'defined-name-raises'
                        elif not eff:
                            key = 'empty-ruleset-allows'
                        elif q in eff:
                            key = 'defined-name-decided-by-something-else'
                        elif want is False:
                            key = 'unusable-default-allows'
                        else:
                            key = 'usable-default-not-applied'
                        ctx.violation(key, case, {'after_step': op, 'configured_directories': case['layout'],
                                                  'current_main_file': cur_main, 'current_directories': cur_dirs,
                                                  'effective_rules': eff, 'default_config': dcfg, 'queried': q,
                                                  'defined_in_directories': homes, 'roles': roles,
                                                  'expected': want, 'observed': got,
                                                  'symbolic_links': dict(linked, files_kept_outside_now={
                                                      '%s/%s' % (names[i], fn): rel for (i, fn), rel in sorted(outside.items())},
                                                      queried_name_defined_only_in_symlinked_files=only_links) if linked else None})
                        return
        ctx.observe('policy_dir_layouts', '%s/%s/%s%s' % (case['layout'], dcfg, 'main' if case['main'] is not None else 'no-main',
                                                          '/links-' + linked['mode'] if linked else ''))
    finally:
        tree.cleanup()


def classify(got, eff, q, want):
    """Mechanism key of one wrong table row (the same classifier as in check_config)."""
    if isinstance(got, str):
        return 'unknown-name-raises' if q not in eff else 'defined-name-raises'
    if not eff:
        return 'empty-ruleset-allows'
    if q in eff:
        return 'defined-name-decided-by-something-else'
    return 'unusable-default-allows' if want is False else 'usable-default-not-applied'


def decide(enf, q, roles, do_raise=False):
    from oslo_policy import policy
    try:
        return bool(enf.enforce(q, {}, {'roles': list(roles)}, do_raise=do_raise))
    except policy.PolicyNotAuthorized:
        return False if do_raise else 'EXC:PolicyNotAuthorized'
    except Exception as e:
        return 'EXC:' + type(e).__name__


# ---- registered defaults with deprecated predecessors, in enforcers that load from files ----------------------------
# a registered default is a DEFINED name; the (renamed) predecessor's old name is NOT: it is defined only where a file (or a
# registration of its own) defines it.  Enforcing the old name, like any other name defined nowhere, falls to the default rule.
DEP_QUERIES = ['new', 'old', 'same', 'gone', 'new2', 'old2', 'a', 'b', 'default', 'ghost', 'zzz']
DEP_DEFAULTS = ['unset', 'ctor_other', 'ctor_ghost', 'obj_true', 'obj_role', 'opt_b', 'opt_empty', 'obj_false']
DEP_BODIES = ['@', '!', 'role:x', 'role:y']


def gen_deprecated(r, dcfg, shape):
    """One enforcer that loads from files (main file and / or one policy directory) with registered defaults that have
    deprecated predecessors (renamed and same-name; reason / since given on the DeprecatedRule or, old style, on the new
    default), plus a short history of file edits, as a replayable dict."""
    body = lambda: r.choice(DEP_BODIES)
    regs = [dict(name='new', body=body(), old=dict(name='old', body=body()), style=r.choice(['rule', 'rule', 'default', 'none']))]
    if shape in (1, 3):
        regs.append(dict(name='same', body=body(), old=dict(name='same', body=body()), style=r.choice(['rule', 'default'])))
    if shape in (2, 3):
        regs.append(dict(name='new2', body=body(), old=dict(name='old2', body=body()), style='rule'))
        regs.append(dict(name='gone', body=body(), removal=True))
    if r.random() < 0.25:
        regs.append(dict(name='default', body=body()))                    # the default rule itself is a registered (plain) default
    r.shuffle(regs)

    def mapping(with_old):
        m = {}
        if r.random() < 0.6:
            m['default'] = r.choice(['@', '@', '!', 'role:y'])
        if r.random() < 0.5:
            m['b'] = r.choice(['@', 'role:x', '!'])
        if r.random() < 0.4:
            m['a'] = body()
        if with_old:
            m[r.choice(['old', 'old', 'old2'])] = body()                  # the operator maintains the old policy in a file
        if r.random() < 0.15:
            m[r.choice(['new', 'same', 'gone'])] = body()
        return m
    where = r.choice(['main', 'main', 'dir', 'both', 'none'])
    old_in_file = r.random() < 0.3
    main = mapping(old_in_file and where != 'dir') if where in ('main', 'both') else None
    dirfile = mapping(old_in_file and where == 'dir') if where in ('dir', 'both') else None
    ops = []
    for _ in range(r.choice([0, 1, 1, 2, 3])):
        kind = r.choice(['force', 'write-main', 'write-main', 'write-dir', 'delete-dir'])
        if kind == 'force':
            ops.append(['force'])
        elif kind == 'write-main' and where != 'none':
            ops.append(['write-main', mapping(r.random() < 0.4)])
        elif kind == 'write-dir' and where in ('dir', 'both'):
            ops.append(['write-dir', mapping(r.random() < 0.4)])
        elif kind == 'delete-dir' and where in ('dir', 'both'):
            ops.append(['delete-dir'])
    return dict(deprecated=True, main=main, dirfile=dirfile, has_dir=where in ('dir', 'both'), dcfg=dcfg, regs=regs,
                enforce_new_defaults=r.random() < 0.3, suppress=r.random() < 0.5, ops=ops)


def check_deprecated(ctx, case):
    """Every name is decided as the statement says for the rule set `current files + registered names`: a name defined
    nowhere - the old name of a renamed predecessor included - by the default rule only; a name a file defines by the file's
    body; a plain registered name by its registered body.  The value of a registered name WITH a predecessor is documented
    elsewhere (new body, `new or old` during the deprecation period, the operator's override of the old name): any of those
    is accepted here - it is a defined name, decided by (one reading of) its own definition."""
    import warnings
    from oslo_policy import policy
    dcfg = case['dcfg']
    tree = files.Tree(dirs=('pd',) if case['has_dir'] else ())
    try:
        cur_main = None if case['main'] is None else dict(case['main'])
        cur_dir = None if case['dirfile'] is None else dict(case['dirfile'])
        if cur_main is not None:
            tree.write(os.path.basename(tree.main), cur_main, 'json')
        if cur_dir is not None:
            tree.write('pd/a.yaml', cur_dir, 'json')
        kw, overrides = default_kwargs(dcfg)
        if case['enforce_new_defaults']:
            overrides['enforce_new_defaults'] = True
        with warnings.catch_warnings():
            warnings.simplefilter('ignore')
            enf = policy.Enforcer(tree.conf(**overrides), **kw)
            if case['suppress']:
                enf.suppress_deprecation_warnings = True
            for g in case['regs']:
                if g.get('removal'):
                    enf.register_default(policy.RuleDefault(g['name'], g['body'], deprecated_for_removal=True,
                                                            deprecated_reason='no longer needed', deprecated_since='N'))
                elif g.get('old'):
                    on_rule = dict(deprecated_reason='a better name / default', deprecated_since='N') if g['style'] == 'rule' else {}
                    on_new = dict(deprecated_reason='a better name / default', deprecated_since='N') if g['style'] == 'default' else {}
                    enf.register_default(policy.RuleDefault(
                        g['name'], g['body'], deprecated_rule=policy.DeprecatedRule(g['old']['name'], g['old']['body'], **on_rule), **on_new))
                else:
                    enf.register_default(policy.RuleDefault(g['name'], g['body']))
            regs = {g['name']: g for g in case['regs']}
            ctx.case(case, nontrivial=True, stratum='deprecated')
            for op in [['load']] + [list(o) for o in case['ops']]:
                if op[0] == 'write-main':
                    cur_main = dict(op[1])
                    tree.write(os.path.basename(tree.main), cur_main, 'json')
                elif op[0] == 'write-dir':
                    cur_dir = dict(op[1])
                    tree.write('pd/a.yaml', cur_dir, 'json')
                elif op[0] == 'delete-dir':
                    cur_dir = None
                    tree.delete('pd/a.yaml')
                elif op[0] == 'force':
                    enf.load_rules(force_reload=True)
                in_files = pd_fold(cur_main, [{'a.yaml': cur_dir}] if cur_dir is not None else [])
                eff = dict(in_files)
                for g in case['regs']:
                    eff.setdefault(g['name'], g['body'])
                for qi, q in enumerate(DEP_QUERIES):
                    g = regs.get(q)
                    pred = g.get('old') if g and q not in in_files else None
                    for ri, roles in enumerate(CREDS):
                        want = {reference(eff, dcfg, q, roles)}
                        if pred:
                            # a defined name with a predecessor: its own definition in any of the documented readings
                            if not case['enforce_new_defaults'] and pred['body'] != g['body']:
                                want.add(body_value(g['body'], roles) or body_value(pred['body'], roles))
                            if pred['name'] != q and pred['name'] in in_files:
                                want.add(body_value(in_files[pred['name']], roles))
                            if len(want) > 1:
                                ctx.unconstrained('value-of-registered-name-with-deprecated-predecessor')
                        got = decide(enf, q, roles, do_raise=(qi + ri) % 3 == 0)
                        ctx.count('deprecated_decisions')
                        if q not in eff:
                            ctx.count('deprecated_decisions_name_defined_nowhere')
                            if any(x.get('old') and x['old']['name'] == q and x['name'] != q for x in case['regs']):
                                ctx.count('deprecated_decisions_old_name_of_renamed_default_defined_nowhere')
                        if got not in want:
                            ctx.violation(classify(got, eff, q, min(want)), case,
                                          {'after_step': op, 'current_main_file': cur_main, 'current_directory_file': cur_dir,
                                           'registered': case['regs'], 'defined_names': sorted(eff), 'default_config': dcfg,
                                           'queried': q, 'queried_name_is_defined': q in eff, 'roles': roles,
                                           'expected_one_of': sorted(want), 'observed': got})
                            return
    finally:
        tree.cleanup()


# ---- several living enforcers over the SAME policy file / policy directory -------------------------------------------
SH_NAMES = ['a', 'b', 'c', 'default']
SH_QUERIES = ['a', 'b', 'c', 'default', 'ghost', 'zzz']
SH_DEFAULTS = ['unset', 'unset', 'ctor_default', 'ctor_other', 'ctor_ghost', 'obj_true', 'obj_role', 'opt_b', 'opt_empty']
SH_SHAPES = ['main', 'main', 'main', 'dir', 'both']


def gen_shared(r, n, shape):
    """Two or three living enforcers configured with the same main policy file and / or the same policy directory (one
    configuration object for all, or one each), and a history of whole-table questions with file edits between them."""
    def mapping(prev=None):
        m = {k: r.choice(DEP_BODIES) for k in SH_NAMES if r.random() < 0.5}
        if r.random() < 0.6:
            m['default'] = r.choice(['@', '@', 'role:x'])
        if prev:
            kind = r.choice(['define-denying', 'drop-default', 'flip', 'fresh'])
            if kind == 'define-denying':
                m = dict(prev)
                m[r.choice([k for k in SH_NAMES[:3] if k not in prev] or ['c'])] = '!'      # a name that was unknown is now defined, denying
            elif kind == 'drop-default':
                m = {k: v for k, v in prev.items() if k != 'default'}                       # the default rule is removed
                m.setdefault(r.choice(SH_NAMES[:3]), 'role:y')
            elif kind == 'flip':
                m = {k: ('!' if body_value(v, ['x']) else '@') for k, v in prev.items()} or m
        return m
    same_conf = r.random() < 0.4
    dcfgs = [r.choice([d for d in SH_DEFAULTS if not (same_conf and d.startswith('opt_'))]) for _ in range(n)]
    main = mapping() if shape in ('main', 'both') else None
    dirfiles = {'a.yaml': mapping()} if shape in ('dir', 'both') else None
    if main is not None and not main and r.random() < 0.7:
        main['default'] = '@'
    ops = []
    cm, cd = main, dict(dirfiles or {})

    def ask_all():
        order = list(range(n))
        r.shuffle(order)
        if r.random() < 0.2:
            order = order[:-1]                                 # one of them does not ask in this round
        ops.extend(['ask', e] for e in order)
    ask_all()
    for _ in range(r.choice([1, 1, 2, 3])):
        kind = r.choice(['main', 'main', 'dir', 'dir-new', 'dir-delete', 'force', 'clear'])
        if kind == 'main' and main is not None:
            cm = mapping(cm)
            ops.append(['write-main', cm])
        elif kind in ('dir', 'dir-new') and dirfiles is not None:
            fn = 'a.yaml' if kind == 'dir' else 'b.yaml'
            cd[fn] = mapping(cd.get(fn))
            ops.append(['write-dir', fn, cd[fn]])
        elif kind == 'dir-delete' and len(cd) > 1:
            fn = r.choice(sorted(cd))
            del cd[fn]
            ops.append(['delete-dir', fn])
        elif kind in ('force', 'clear'):
            ops.append([kind, r.randrange(n)])
            continue
        else:
            cm_or = mapping(cm if main is not None else cd.get('a.yaml'))
            if main is not None:
                cm = cm_or
                ops.append(['write-main', cm])
            else:
                cd['a.yaml'] = cm_or
                ops.append(['write-dir', 'a.yaml', cm_or])
        ask_all()
    return dict(shared=True, n=n, main=main, dirfiles=dirfiles, dcfgs=dcfgs, same_conf=same_conf, ops=ops)


def check_shared(ctx, case):
    """Every living enforcer decides every name as the statement says for the rule set the CURRENT files define, whichever
    enforcer asked first after an edit and whatever the other enforcers over the same files did in between."""
    from oslo_policy import policy
    n = case['n']
    tree = files.Tree(dirs=('pd',) if case['dirfiles'] is not None else ())
    try:
        cur_main = None if case['main'] is None else dict(case['main'])
        cur_dir = None if case['dirfiles'] is None else {fn: dict(m) for fn, m in case['dirfiles'].items()}
        if cur_main is not None:
            tree.write(os.path.basename(tree.main), cur_main, 'json')
        for fn, m in sorted((cur_dir or {}).items()):
            tree.write('pd/' + fn, m, 'json')
        dcfgs = list(case['dcfgs'])
        shared_conf = tree.conf() if case['same_conf'] else None
        enfs = []
        for e in range(n):
            kw, overrides = default_kwargs(dcfgs[e])
            enfs.append(policy.Enforcer(shared_conf if shared_conf is not None else tree.conf(**overrides), **kw))
        ctx.case(case, nontrivial=True, stratum='shared_files')
        asked_since_edit = None               # enforcers that asked since the last edit (None: no edit yet)
        cleared = set()
        for op in case['ops']:
            if op[0] == 'write-main':
                cur_main = dict(op[1])
                tree.write(os.path.basename(tree.main), cur_main, 'json')
                asked_since_edit = set()
            elif op[0] == 'write-dir':
                cur_dir[op[1]] = dict(op[2])
                tree.write('pd/' + op[1], cur_dir[op[1]], 'json')
                asked_since_edit = set()
            elif op[0] == 'delete-dir':
                del cur_dir[op[1]]
                tree.delete('pd/' + op[1])
                asked_since_edit = set()
            elif op[0] == 'force':
                enfs[op[1]].load_rules(force_reload=True)
            elif op[0] == 'clear':
                # clear() empties THAT enforcer; what it answers afterwards is not this stratum's business (it keeps
                # asking, unchecked); the other enforcers over the same files are not concerned
                enfs[op[1]].clear()
                cleared.add(op[1])
            if op[0] != 'ask':
                continue
            e = op[1]
            if e in cleared:
                for q in SH_QUERIES:
                    decide(enfs[e], q, ['x'])
                    ctx.unconstrained('decisions-of-an-enforcer-after-clear')
                if asked_since_edit is not None:
                    asked_since_edit.add(e)
                continue
            eff = pd_fold(cur_main, [cur_dir] if cur_dir is not None else [])
            later_asker = asked_since_edit is not None and bool(asked_since_edit - {e}) and e not in asked_since_edit
            for qi, q in enumerate(SH_QUERIES):
                for ri, roles in enumerate(CREDS):
                    want = reference(eff, dcfgs[e], q, roles)
                    got = decide(enfs[e], q, roles, do_raise=(qi + ri) % 4 == 0)
                    ctx.count('shared_files_decisions')
                    if later_asker:
                        ctx.count('shared_files_decisions_after_an_edit_another_enforcer_asked_first')
                    if got != want:
                        ctx.violation(classify(got, eff, q, want), case,
                                      {'at_step': op, 'enforcer': e, 'enforcers_that_asked_since_the_last_edit': sorted(asked_since_edit or ()),
                                       'current_main_file': cur_main, 'current_directory_files': cur_dir, 'effective_rules': eff,
                                       'default_config_of_this_enforcer': dcfgs[e], 'one_configuration_object': case['same_conf'],
                                       'queried': q, 'roles': roles, 'expected': want, 'observed': got})
                        return
            if asked_since_edit is not None:
                asked_since_edit.add(e)
    finally:
        tree.cleanup()


def check_overlap(ctx, case):
    """Two decisions on one enforcer at the same time (an unknown name falling back to the default rule while a defined
    name is decided, two different unknown names, ...): each is decided as the table says, as if it ran alone."""
    from pv.mon import overlap
    rules, dcfg, via = case['rules'], case['dcfg'], case['via']
    enf, tree = build(rules, dcfg, via)
    try:
        (qa, ra), (qb, rb) = case['a'], case['b']
        ctx.case(['overlap', rules, dcfg, via, case['a'], case['b']], True, 'overlap')
        want = [['returned', reference(rules, dcfg, qa, ra)], ['returned', reference(rules, dcfg, qb, rb)]]
        detail = {'rules': rules, 'default_config': dcfg, 'installed_via': via, 'decision_a': case['a'], 'decision_b': case['b'], 'expected': want}
        if overlap.enforce_pair(ctx, enf, (qa, {}, {'roles': list(ra)}, {}), enf, (qb, {}, {'roles': list(rb)}, {}), case, detail,
                                ctx.sub_rnd('Ob', case['rseed'])):
            got = [overlap.outcome(lambda: enf.enforce(qa, {}, {'roles': list(ra)})), overlap.outcome(lambda: enf.enforce(qb, {}, {'roles': list(rb)}))]
            if got != want:
                ctx.violation('defined-name-decided-by-something-else' if qa in rules and got[0] != want[0] else 'usable-default-not-applied',
                              case, dict(detail, observed=got))
    finally:
        if tree:
            tree.cleanup()


RELOAD_SETS = [
    # (main file before, main file after): the queried names and the default rule are defined in both, with the same bodies
    ({'a': '!', 'default': '@', 'x1': '@'}, {'a': '!', 'default': '@', 'x2': '!', 'x3': '@'}),
    ({'default': '@', 'b': 'role:x', 'a': '!'}, {'zz': '!', 'default': '@', 'a': '!', 'b': 'role:x'}),
    ({'a': 'role:y', 'b': '!', 'default': '@'}, {'a': 'role:y', 'b': '!', 'default': '@'}),
    ({'m1': '@', 'm2': '@', 'a': '!', 'default': 'role:x'}, {'a': '!', 'default': 'role:x'}),
]


def check_reload(ctx, case):
    """A defined name is decided by its own definition, never by the default rule - also while another thread's enforce
    call is re-reading the (rewritten) policy file in which that definition stands unchanged.  Every rule lives in the main
    file (no directories, no registered defaults), so the complete old and the complete new policy agree on the queried names."""
    from oslo_policy import policy
    from pv.mon import sched
    old, new = case['old'], case['new']
    q, roles = case['q'], case['roles']
    want = reference(new, 'unset', q, roles)
    assert want == reference(old, 'unset', q, roles)
    ctx.case(['reload', old, new, q, roles], q in new, 'reload')
    n = None
    replaying_one = ctx.replay and case.get('k')
    ks = [case['k']] if replaying_one else [None]       # a replay file names the one pre-emption point that failed
    i = 0
    while i < len(ks):
        k = ks[i]
        i += 1
        tree = files.Tree(dirs=())
        try:
            name = os.path.basename(tree.main)
            tree.write(name, materialise(old), 'json')
            enf = policy.Enforcer(tree.conf(policy_dirs=[]))
            enf.load_rules()

            def dec(nm, rs):
                def run_():
                    try:
                        return bool(enf.enforce(nm, {}, {'roles': list(rs)}))
                    except Exception as e:
                        return 'EXC:' + type(e).__name__
                return run_
            plan = [['EDIT'], ['X', k], ['Y', None], ['X', None]] if k else [['EDIT'], ['X', None], ['Y', None]]
            r = sched.Run({'X': dec('x-reloader', []), 'Y': dec(q, roles)}, plan, lambda: tree.write(name, materialise(new), 'json'))
            res = r.run()
            ctx.count('decisions_during_reload')
            if k is None and not replaying_one:
                n = r.counts['X']
                ctx.observe('reload_boundaries', n)
                from pv.mon import overlap
                ks.extend(overlap.boundaries(n, case.get('limit', 60), ctx.sub_rnd('Rb', case['rseed'])))
            if res.get('Y') != want:
                ctx.violation('defined-name-decided-by-something-else' if q in new else 'usable-default-not-applied',
                              dict(case, k=k), {'main_file_before': old, 'main_file_after': new, 'queried': q, 'roles': roles,
                                                'expected_under_both_policies': want, 'observed_during_reload': res.get('Y'),
                                                'reloader_preempted_at_boundary': k, 'reloader_preempted_at': list(r.stopped_at.get('X', []))})
                return
        finally:
            tree.cleanup()


def gen_overlap(ctx, i):
    r = ctx.sub_rnd('O', ctx.tier, ctx.shard, i)
    while True:
        rules = {k: v for k, v in (('a', r.choice(BODIES)), ('b', r.choice(BODIES)), ('default', r.choice(BODIES))) if v is not None}
        if rules:
            break
    qs = [r.choice(QUERIES), r.choice(['ghost', 'zzz'] + QUERIES)]
    r.shuffle(qs)
    return dict(overlap=True, rules=rules, dcfg=r.choice(DCFGS), via=r.choice(VIAS), a=[qs[0], r.choice(CREDS)], b=[qs[1], r.choice(CREDS)],
                rseed='%s.%d.%d' % (ctx.tier, ctx.shard, i))


OVERLAPS = {'quick': 10, 'thorough': 200}
DEP_REPS = {'quick': 10, 'thorough': 150}
SH_REPS = {'quick': 16, 'thorough': 250}
RELOADS = {'quick': 4, 'thorough': 60}


def run(ctx):
    contracts.missing_never_none()
    idx = 0
    done = True
    ctx.reserve(0.4)
    for ba, bb, bd in itertools.product(BODIES, repeat=3):
        rules = {k: v for k, v in (('a', ba), ('b', bb), ('default', bd)) if v is not None}
        for dcfg in DCFGS:
            for via in VIAS:
                idx += 1
                if not ctx.mine(idx):
                    continue
                if ctx.expired():
                    done = False
                    break
                check_config(ctx, rules, dcfg, via, debug=(idx // ctx.nshards) % 3 == 1)
                if idx % 400 == 0:
                    ctx.sample({'rules': rules, 'default_config': dcfg, 'installed_via': via, 'queried': QUERIES,
                                'role_sets': CREDS})
    ctx.sample({'rules': {'a': '!'}, 'default_config': 'ctor_ghost', 'installed_via': 'set_rules', 'queried': QUERIES})
    ctx.stratum('table', exhaustive=done)
    # ---- the same table on the routes that use a rule store as it is (enforcer.rules = store) ---------------------
    # the configuration of the enforcer itself does not matter on these routes; it rotates through all of them in the quick
    # tier (every (route, configuration) pair occurs with many rule sets) and is enumerated in the thorough tier
    aidx = 0
    adone = True
    ctx.reserve(0.47)
    for ri, (ba, bb, bd) in enumerate(itertools.product(BODIES, repeat=3)):
        rules = {k: v for k, v in (('a', ba), ('b', bb), ('default', bd)) if v is not None}
        for vi, via in enumerate(ASSIGN_VIAS):
            for di, dcfg in enumerate(DCFGS):
                if ctx.tier == 'quick' and (ri + vi) % len(DCFGS) != di:
                    continue
                aidx += 1
                if not ctx.mine(aidx):
                    continue
                if ctx.expired():
                    adone = False
                    break
                check_config(ctx, rules, dcfg, via, debug=(aidx // ctx.nshards) % 5 == 1)
    ctx.stratum('assigned_store', exhaustive=adone and ctx.tier == 'thorough')
    ctx.sample({'rules': {'a': '!', 'default': '@'}, 'default_config': 'unset', 'installed_via': 'assign/load/omitted', 'queried': QUERIES,
                'role_sets': CREDS}, 'assigned_store')
    # ---- the rule set changes under a living enforcer -------------------------
    changes = [{'default': '!'}, {'default': '@'}, {'b': '@'}, {'b': '!'}, {'default': 'role:y', 'a': '@'}, {'a': 'role:x'}, {'ghost': '@'}]
    midx = 0
    mdone = True
    ctx.reserve(0.6)
    for ba, bb, bd in itertools.product(BODIES, repeat=3):
        rules = {k: v for k, v in (('a', ba), ('b', bb), ('default', bd)) if v is not None}
        if not rules or 'NULL' in rules.values():
            continue
        for dcfg in DCFGS:
            for mut in MUTATIONS:
                for ci, change in enumerate(changes):
                    midx += 1
                    if not ctx.mine(midx):
                        continue
                    if ctx.tier == 'quick' and (midx // ctx.nshards) % 4:
                        continue                # quick: every fourth mutation case; thorough: all
                    if ((midx // ctx.nshards) & 0x3f) == 0 and ctx.expired():    # counted per shard: midx itself is filtered by mine()
                        mdone = False
                        break
                    check_mutation(ctx, dict(rules=rules, dcfg=dcfg, mutation=mut, change=change))
                if not mdone:
                    break
            if not mdone:
                break
        if not mdone:
            break
    ctx.stratum('mutation', exhaustive=mdone and ctx.tier == 'thorough')
    # ---- registered defaults under file histories -------------------------------
    ridx = 0
    ctx.reserve(0.75)
    step_sets = [['edit-dir'], ['force'], ['edit-dir', 'force'], ['delete-dir-file'], ['edit-dir', 'delete-dir-file'],
                 ['edit-main', 'edit-dir'], ['force', 'edit-dir', 'force']]
    for main in (None, {'a': 'role:x'}, {'default': '!'}):
        for dir0 in ({'default': '@'}, {'default': 'role:y', 'a': '@'}, {'a': '!'}, {'reg': '@'}):
            for dir1 in ({'default': '@', 'b': '!'}, {'b': '@'}, {'default': '!'}):
                for reg in ('role:x', '!', '@'):
                    for steps in step_sets:
                        ridx += 1
                        if ctx.mine(ridx):
                            check_registered(ctx, dict(registered=True, main=main, dir0=dir0, dir1=dir1, reg=reg, steps=steps))
    ctx.stratum('registered', exhaustive=True)
    # ---- registered defaults with deprecated predecessors over files; several living enforcers over the same files -----
    didx = 0
    for di, dcfg in enumerate(DEP_DEFAULTS):
        for shape in range(4):
            for rep in range(DEP_REPS[ctx.tier]):
                didx += 1
                if ctx.mine(didx):
                    check_deprecated(ctx, gen_deprecated(ctx.sub_rnd('DEP', ctx.tier, di, shape, rep), dcfg, shape))
    ctx.stratum('deprecated', exhaustive=False)
    sidx = 0
    for n in (2, 2, 3):
        for hi, shape in enumerate(SH_SHAPES):
            for rep in range(SH_REPS[ctx.tier]):
                sidx += 1
                if ctx.mine(sidx):
                    check_shared(ctx, gen_shared(ctx.sub_rnd('SH', ctx.tier, sidx, n, hi, rep), n, shape))
    ctx.stratum('shared_files', exhaustive=False)
    ctx.sample(gen_deprecated(ctx.sub_rnd('DEP', 'sample'), 'unset', 3), 'deprecated')
    ctx.sample(gen_shared(ctx.sub_rnd('SH', 'sample'), 2, 'main'), 'shared_files')
    # ---- two and three configured policy directories under file histories ----------
    pidx = 0
    for li, layout in enumerate(PD_LAYOUTS):
        for di, dopt in enumerate(PD_DEFAULTS):
            for si, steps in enumerate(PD_STEPS):
                if ctx.tier == 'quick' and (li + di + si) % 2:
                    continue                    # quick: half of the (layout, default, history) combinations; thorough: all, 6 variants each
                for rep in range(PD_REPS[ctx.tier]):
                    pidx += 1
                    if ctx.mine(pidx):
                        check_policy_dirs(ctx, gen_policy_dirs(layout, dopt, steps, ctx.sub_rnd('PD', ctx.tier, li, di, si, rep)))
    # the same layouts with symbolic links (files that are links to files kept elsewhere or in another policy directory,
    # configured directories that are links); quick: the (layout, default, history) combinations the plain loop left out
    lidx = 0
    for li, layout in enumerate(PD_LAYOUTS):
        for di, dopt in enumerate(PD_DEFAULTS):
            for si, steps in enumerate(PD_STEPS):
                if ctx.tier == 'quick' and (li + di + si) % 2 == 0:
                    continue
                for rep in range(PD_REPS[ctx.tier]):
                    lidx += 1
                    if ctx.mine(lidx):
                        check_policy_dirs(ctx, gen_policy_dirs_links(layout, dopt, steps, ctx.sub_rnd('PDL', ctx.tier, li, di, si, rep)))
    ctx.stratum('policy_dirs', exhaustive=False)
    ctx.sample(gen_policy_dirs_links('FEF', PD_DEFAULTS[0], ['edit', 'delete'], ctx.sub_rnd('PDL', 'sample')), 'policy_dirs')
    ctx.sample(gen_policy_dirs('FMF', PD_DEFAULTS[1], ['edit', 'delete'], ctx.sub_rnd('PD', 'sample')), 'policy_dirs')
    ctx.sample(dict(rules={'a': 'role:x', 'default': '@'}, dcfg='unset', mutation='merge-set_rules', change={'default': '!'}), 'mutation')
    # ---- two overlapping decisions, last (the line-level scheduler slows everything that runs after it is installed)
    from pv.mon import sched
    ctx.stratum('overlap', exhaustive=False)
    ctx.reserve(0.88)
    try:
        for i in range(OVERLAPS[ctx.tier]):
            if i >= 2 and ctx.expired():        # a guaranteed minimum: the fixed-size strata above may have used the budget up
                break
            check_overlap(ctx, gen_overlap(ctx, i))
        ctx.release()
        ctx.stratum('reload', exhaustive=False)
        for i in range(RELOADS[ctx.tier]):
            if i >= 1 and ctx.expired():
                break
            r = ctx.sub_rnd('R', ctx.tier, ctx.shard, i)
            old, new = RELOAD_SETS[(i + ctx.shard) % len(RELOAD_SETS)]
            check_reload(ctx, dict(reload=True, old=old, new=new, q=r.choice(['a', 'a', 'b', 'zzz', 'default']), roles=r.choice(CREDS),
                                   limit=40 if ctx.tier == 'quick' else 400, rseed='%s.%d.%d' % (ctx.tier, ctx.shard, i)))
    finally:
        sched.uninstall()
    for k, v in contracts.EVALS.items():
        ctx.count('contract_evals.' + k, v)


def replay(ctx, case):
    contracts.missing_never_none()
    if case.get('deprecated'):
        return check_deprecated(ctx, case)
    if case.get('shared'):
        return check_shared(ctx, case)
    if case.get('overlap'):
        return check_overlap(ctx, case)
    if case.get('reload'):
        return check_reload(ctx, case)
    if 'mutation' in case:
        return check_mutation(ctx, case)
    if case.get('registered'):
        return check_registered(ctx, case)
    if case.get('policy_dirs'):
        return check_policy_dirs(ctx, case)
    check_config(ctx, case['rules'], case['dcfg'], case['via'], bool(case.get('debug')))
