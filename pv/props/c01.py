"""C01 - rule expressions decide exactly as the documented boolean language says.

Differential monitor: the real pipeline (text / list -> Rules.from_dict or a
policy file -> Enforcer.enforce) against the ten-line reference evaluator, for
ALL truth assignments of the leaves; plus a metamorphic monitor (lexical
variants of one expression must agree with each other)."""
import itertools
import json
import os
import re

from pv.core import env
from pv.gen import expr, files
from pv.mon import contracts

ID = 'C01'
LEVEL = 'exploration'
TECHNIQUE = ('differential runtime monitor: real parser+evaluator vs reference Boolean evaluator over '
             'exhaustively enumerated sentences and all truth assignments; metamorphic variant monitor; overlapping and first-use calls under a deterministic line-level thread scheduler (sys.monitoring)')
RULE = ('strata: A = every grammatical token sequence over {(,),and,or,not,check} up to the length bound, '
        'leaves numbered left to right, and again with only one or two distinct leaves repeated; three leaf families (role checks, attribute checks, attribute names that begin with the letters of a keyword); AK = every sentence up to 7 (thorough 9) tokens with every leaf position taken by a leaf, `@` or `!` (at least one constant); B = random ASTs (<= ~60 tokens, leaf reuse, constants) each in '
        'several lexical variants (keyword case, ASCII whitespace, glued parentheses, redundant groups); '
        'D = deeply nested legal expressions (1-40 chained not, alternating and/or/not towers of depth 2-25, within ~60 tokens); C = every list-of-lists shape (outer<=3, inner<=3) over {leaf, other leaf, @, !, bare string, '
        'empty entry}; K = constant rules; G = every sentence up to 9 (thorough 11) tokens in which `(` is directly followed by `not`, spelled with the parentheses glued to their neighbours INCLUDING the keyword (`(not`, `((NOT`, `(Not (`; the documented tokenizer peels leading parentheses before it looks for keywords, so this is a whitespace variant) in several glue patterns, keyword cases and separators, and one such fully glued spelling (every group parenthesised) of each random AST of B; every seventh sentence of A is parsed immediately after a malformed rule (lone operator, unbalanced parenthesis, dangling operator ...) in the same thread; F = slice of A/B carried through real JSON and YAML policy files; every eleventh sentence of A is, after being decided, registered as the default of a policy with a deprecated predecessor in another enforcer (merged when enforce_new_defaults is off) and then parsed and decided again: the text must mean the same; stratum first-use: in a fresh interpreter per schedule two threads load and decide one rule each as the very first use of the library (first one pre-empted at the line boundaries that exist on first use only, and at sampled others); O = two threads each load and decide a rule - or both evaluate ONE parsed rule with wide and/or nodes - at the same time (second one runs at sampled line boundaries of the first, deterministic scheduler): results must be those of running them one after the other. '
        'Each case is decided under all 2^k role (or attribute) assignments. A case is non-trivial when its '
        'reference truth table is not constant; distinct = distinct rule value.')
ASSUMPTIONS = [
    'leaf checks role:rN / flagN:1 evaluate as C04/C05 say (those properties have their own checks)',
    'Unicode (non-ASCII) whitespace is not generated here: "any whitespace" is read as ASCII whitespace',
    'reference evaluator and recogniser (pv/gen/expr.py, no oslo_policy import) are trusted',
]
LEVEL_TEXT = ('Every grammatical sentence up to 11 (thorough: 15) tokens and every list-of-lists shape up to the '
              'size bound is decided by the real code under all truth assignments and compared with a reference '
              'evaluator; beyond the bound, seeded random expressions in several spellings. Complete below the '
              'bound, sampled above it - the right level for an infinite language whose failure modes are shape-specific.')
LEVEL_NOTE = ('trusted: the reference evaluator/recogniser in pv/gen/expr.py; leaf checks (role:, attribute) behave as '
              'C04/C05 state; only ASCII whitespace is generated')
PLAN = {'quick': dict(shards=4, wall=120), 'thorough': dict(shards=16, wall=420)}
MIN = {'parenthesis_glued_to_not': 150, 'variants_with_parenthesis_glued_to_not': 30, 'sentences_with_constants': 2000, 'first_use_schedules': 12, 'overlapping_evaluations': 200, 'shared_tree_overlaps': 4, 'reparsed_after_use_as_deprecated_default': 100, 'deep_cases': 20, 'parsed_after_malformed_rule': 100, 'sentences_with_repeated_leaves': 500, 'evaluations': 200, 'decisions': 2000, 'allow_decisions': 100, 'deny_decisions': 100}
ANCHORS = ['oslo_policy.policy:Enforcer.enforce', 'oslo_policy._parser:parse_rule',
           'oslo_policy._parser:_parse_tokenize', 'oslo_policy._parser:_parse_list_rule',
           'oslo_policy._parser:ParseState._wrap_check', 'oslo_policy._parser:ParseState._make_and_expr',
           'oslo_policy._parser:ParseState._mix_or_and_expr', 'oslo_policy._parser:ParseState._extend_and_expr',
           'oslo_policy._parser:ParseState._make_or_expr', 'oslo_policy._parser:ParseState._extend_or_expr',
           'oslo_policy._parser:ParseState._make_not_expr',
           'oslo_policy._checks:AndCheck.__call__', 'oslo_policy._checks:OrCheck.__call__',
           'oslo_policy._checks:NotCheck.__call__']
REQUIRED_ANCHORS = ['oslo_policy.policy:Enforcer.enforce']

BOUNDS = {'quick': dict(L=11, LK=7, LG=9, nB=400, nvar=8, file_every=20),
          'thorough': dict(L=15, LK=9, LG=11, nB=40000, nvar=10, file_every=20)}

OVERLAPS = {'quick': 8, 'thorough': 150}        # pairs per shard

KW_NAMES = ['org', 'android', 'notify', 'andy', 'oracle', 'nothing', 'Not_a', 'AND1', 'ORb', 'notes', 'order', 'andes']

FAMILIES = {
    # attribute names that merely BEGIN with the letters of a keyword are ordinary checks
    'kw': (lambda i: '%s%d:1' % (KW_NAMES[i % len(KW_NAMES)], i),
           lambda truth: dict({'%s%d' % (KW_NAMES[i % len(KW_NAMES)], i): 1 for i, v in enumerate(truth) if v}, roles=[])),
    'role': (lambda i: 'role:r%d' % i,
             lambda truth: {'roles': ['r%d' % i for i, v in enumerate(truth) if v]}),
    'attr': (lambda i: 'flag%d:1' % i,
             lambda truth: dict({'flag%d' % i: 1 for i, v in enumerate(truth) if v}, roles=[])),
}


class Real:
    """The real code under observation, driven at its public boundary."""

    def __init__(self):
        from oslo_policy import policy
        self.policy = policy
        self.conf = env.fresh_conf()
        self.enf = policy.Enforcer(self.conf, use_conf=False)
        self.enf2 = policy.Enforcer(env.fresh_conf(), use_conf=False)

    def table(self, value, k, family, via='dict', fmt='json', poison=None, extra_roles=()):
        """Decision for every truth assignment: list of bool / 'EXC:Type'.  `poison`: a malformed rule that is loaded
        immediately before (same thread, same parser) - parsing one rule must not influence the next."""
        creds_of = FAMILIES[family][1]
        if poison is not None:
            try:
                self.policy.Rules.from_dict({'poison': poison})
            except Exception:
                pass
        if via == 'dict':
            enf = self.enf
            enf.set_rules(self.policy.Rules.from_dict({'p': value}))
            tree = None
        else:
            tree = files.Tree(dirs=())
            tree.write(os.path.basename(tree.main), {'p': value}, fmt)
            enf = self.policy.Enforcer(tree.conf())
        out = []
        try:
            for truth in expr.assignments(k):
                try:
                    creds = creds_of(truth)
                    if extra_roles:
                        # roles the rule does not mention: they cannot matter
                        creds = dict(creds, roles=list(creds.get('roles', [])) + list(extra_roles))
                    out.append(bool(enf.enforce('p', {}, creds)))
                except Exception as e:
                    out.append('EXC:' + type(e).__name__)
        finally:
            if tree:
                tree.cleanup()
        return out


def ref_table(ast, k):
    return [expr.ev(ast, truth) for truth in expr.assignments(k)]


def classify(got, want):
    excs = sorted({g for g in got if isinstance(g, str)})
    if excs:
        return 'exception-' + excs[0][4:]
    return 'decision-mismatch'


def check_case(ctx, real, case):
    s = case['s']
    fam = case.get('fam', 'role')
    leaf_text = FAMILIES[fam][0]
    if s == 'A':
        toks, k = expr.number_leaves(case['toks'])
        if case.get('reuse'):
            # the same few leaves written again and again (leaf i -> i mod m): `a or a and b`, `not a and a` ...
            m = case['reuse']
            toks = [('leaf', t[1] % m) if isinstance(t, tuple) else t for t in toks]
            k = min(k, m)
            ctx.count('sentences_with_repeated_leaves')
        ast = expr.parse_tokens(toks)          # grammatical by construction
        text = ' '.join(leaf_text(t[1]) if isinstance(t, tuple) else t for t in toks)
        want = ref_table(ast, k)
        got = real.table(text, k, fam, case.get('via', 'dict'), case.get('fmt', 'json'), case.get('poison'))
        if case.get('poison') is not None:
            ctx.count('parsed_after_malformed_rule')
        record(ctx, case, text, got, want, 'A')
        if case.get('reuse_as_default') is not None:
            use_as_default(real, text, bool(case['reuse_as_default']))
            again = real.table(text, k, fam, extra_roles=['pv_deprecated'])       # the requester also holds the deprecated default's role
            ctx.count('reparsed_after_use_as_deprecated_default')
            if again != want:
                ctx.violation('meaning-of-text-changed-after-use-as-registered-default', case,
                              {'rule': text, 'expected': want, 'observed_when_parsed_again': again,
                               'in_between': 'registered as the default of a policy with a deprecated predecessor, loaded with '
                                             'enforce_new_defaults=%s, enforced once' % (not case['reuse_as_default'])})
    elif s == 'G':
        toks, k = expr.number_leaves(case['toks'])
        ast = expr.parse_tokens(toks)
        words = [leaf_text(t[1]) if isinstance(t, tuple) else t for t in toks]
        text = spell_glued(words, case['mode'], case['c'])
        want = ref_table(ast, k)
        got = real.table(text, k, fam)
        if has_glued_not(text):
            ctx.count('parenthesis_glued_to_not')
        record(ctx, case, text, got, want, 'G', key='parenthesis-glued-to-keyword-mismatch')
        spaced = ' '.join(words)
        if got != want and real.table(spaced, k, fam) == want:
            ctx.violation('variant-disagreement', case, {'variant_a': spaced, 'decisions_a': want, 'variant_b': text, 'decisions_b': got})
    elif s == 'AK':
        toks, j, k = [], 0, 0
        for t in case['toks']:
            if t == 'c':
                f = case['fill'][j]
                j += 1
                if f == 'c':
                    toks.append(('leaf', k))
                    k += 1
                else:
                    toks.append(('const', f == '@'))
            else:
                toks.append(t)
        ast = expr.parse_tokens(toks)
        text = ' '.join(leaf_text(t[1]) if isinstance(t, tuple) and t[0] == 'leaf' else ('@' if t[1] else '!') if isinstance(t, tuple) else t
                        for t in toks)
        want = ref_table(ast, k)
        got = real.table(text, k, fam)
        ctx.count('sentences_with_constants')
        record(ctx, case, text, got, want, 'AK', key='constant-inside-expression-mismatch')
    elif s == 'B':
        ast = totuple(case['ast'])
        k = case['k']
        want = ref_table(ast, k)
        vr = ctx.sub_rnd('B', case['vseed'])
        first = None
        for label, text in expr.variants(ast, leaf_text, vr, case['nvar']):
            got = real.table(text, k, fam, case.get('via', 'dict'), case.get('fmt', 'json'))
            record(ctx, dict(case, text=text), text, got, want, 'B')
            ctx.count('variants')
            if first is None:
                first = (text, got)
            elif got != first[1]:
                ctx.violation('variant-disagreement', dict(case, text=text),
                              {'variant_a': first[0], 'decisions_a': first[1],
                               'variant_b': text, 'decisions_b': got})
        if case.get('glued') is not None:
            # one more spelling: every group parenthesised, every parenthesis glued - also to `not`
            text = spell_glued(expr.to_tokens(ast, leaf_text, full=True), case['glued'] % GLUE_MODES, case['glued'])
            got = real.table(text, k, fam, case.get('via', 'dict'), case.get('fmt', 'json'))
            ctx.count('variants')
            if has_glued_not(text):
                ctx.count('variants_with_parenthesis_glued_to_not')
            record(ctx, dict(case, text=text), text, got, want, 'B', key='parenthesis-glued-to-keyword-mismatch')
            if first is not None and got != first[1]:
                ctx.violation('variant-disagreement', dict(case, text=text),
                              {'variant_a': first[0], 'decisions_a': first[1], 'variant_b': text, 'decisions_b': got})
    elif s == 'D':
        ast = totuple(case['ast'])
        k = case['k']
        want = ref_table(ast, k)
        text = expr.spell(expr.to_tokens(ast, leaf_text))
        got = real.table(text, k, fam)
        ctx.count('deep_cases')
        ctx.observe('nesting_depths', case['depth'])
        record(ctx, dict(case, text=text), text, got, want, 'D', key='deep-nesting-mismatch')
    elif s == 'C':
        value = case['value']
        k = 2
        want = [list_ref(value, truth) for truth in expr.assignments(k)]
        got = real.table(value, k, 'role')
        record(ctx, case, value, got, want, 'C', key='list-rule-mismatch')
    elif s == 'K':
        value = case['value']
        want = [case['allow']]
        got = real.table(value, 0, 'role', case.get('via', 'dict'), case.get('fmt', 'json'))
        record(ctx, case, value, got, want, 'K', key='constant-rule-mismatch')
    for name, info in contracts.drain():
        ctx.violation('contract-' + name, case, {'contract': name, 'observed': info})


# -- parentheses glued to the keyword `not` ------------------------------------
KW_CASES = {'not': ['not', 'NOT', 'Not', 'nOt', 'noT', 'NoT'], 'and': ['and', 'AND', 'And', 'aNd'], 'or': ['or', 'OR', 'Or', 'oR']}
GLUE_MODES = 4
GLUE_SEPS = [' ', '\t', '\n', '  ', ' \t ', '\r\n', '\x0b', '\x0c']


def spell_glued(words, mode, c):
    """Spelling of a grammatical token list in which opening parentheses are glued to what follows them - another `(`, a
    check, or the keyword `not` - and closing ones to what precedes them (never a keyword in a sentence).  The documented
    tokenizer splits at whitespace, peels leading `(` and trailing `)` off each piece and only then looks for keywords, so
    `(not`, `((NOT` are `(`, [`(`,] `not`; gluing the other way round (`not(`) would be a different sentence and is not made.
    mode 0: every such place glued; 1: only `(`+`not`; 2: all opening sides, closing ones spaced; 3: as 0 with odd separators.
    c: which letter case the keywords take (cycled along the text)."""
    out, prev, n = [], None, 0
    for t in words:
        w = t
        if t in KW_CASES:
            alts = KW_CASES[t]
            w = alts[(c + n) % len(alts)]
            n += 1
        if prev is not None:
            opening = prev == '('
            closing = t == ')' and prev != '('
            if mode == 1:
                g = opening and t == 'not'
            elif mode == 2:
                g = opening
            else:
                g = opening or closing
            if not g:
                out.append(GLUE_SEPS[(c + len(out)) % len(GLUE_SEPS)] if mode == 3 else ' ')
        out.append(w)
        prev = t
    return ''.join(out)


def has_glued_not(text):
    return re.search(r'\((?i:not)\s', text) is not None


def use_as_default(real, text, flag_off):
    """The service registers a policy whose default is `text` and which has a deprecated predecessor, loads it (the
    deprecated default is merged when enforce_new_defaults is off) and decides it once.  None of this may change what the
    TEXT means the next time it is parsed."""
    P = real.policy
    conf = env.fresh_conf(enforce_new_defaults=not flag_off)
    enf = P.Enforcer(conf, use_conf=False)
    dep = P.DeprecatedRule('pv:old', 'role:pv_deprecated', deprecated_reason='r', deprecated_since='s')
    enf.register_default(P.RuleDefault('pv:new', text, deprecated_rule=dep))
    enf.suppress_deprecation_warnings = True
    try:
        enf.load_rules(True)
        enf.enforce('pv:new', {}, {'roles': ['pv_deprecated']})
    except Exception:
        pass


def record(ctx, case, value, got, want, stratum, key=None):
    nontrivial = len(set(want)) > 1
    ctx.case(json.dumps(value), nontrivial, stratum)
    ctx.count('decisions', len(got))
    ctx.count('allow_decisions', sum(1 for g in got if g is True))
    ctx.count('deny_decisions', sum(1 for g in got if g is False))
    ctx.observe('truth_tables', ''.join('1' if w else '0' for w in want)[:64])
    if got != want:
        ctx.violation(key if key and not any(isinstance(g, str) for g in got) else classify(got, want),
                      dict(case, value=value), {'rule': value, 'expected': want, 'observed': got})
    ctx.sample({'rule': value, 'decisions': ''.join('1' if g is True else '0' if g is False else 'E'
                                                      for g in got)[:64]}, stratum)


def totuple(x):
    if isinstance(x, list) and x and isinstance(x[0], str) and x[0] in ('leaf', 'const', 'not', 'and', 'or', 'ref', 'text'):
        if x[0] in ('and', 'or'):
            return (x[0], [totuple(y) for y in x[1]])
        if x[0] == 'not':
            return ('not', totuple(x[1]))
        return tuple(x)
    return x


# -- list-of-lists reference -------------------------------------------------
ITEMS = ['role:r0', 'role:r1', '@', '!']


def item_ref(item, truth):
    return {'role:r0': truth[0], 'role:r1': truth[1], '@': True, '!': False}[item]


def list_ref(value, truth):
    """OR over entries of AND over items; an empty entry is skipped; the empty
    list allows; a list of only empty entries denies (the reading pinned by the
    repository's own test_parse_list_rule and stated in C02's anchor)."""
    if not value:
        return True
    ors = []
    for entry in value:
        if not entry:
            continue
        if isinstance(entry, str):
            entry = [entry]
        ors.append(all(item_ref(i, truth) for i in entry))
    return any(ors)


def list_entries(max_inner):
    entries = [[]] + ITEMS[:]          # empty entry, bare strings
    for n in range(1, max_inner + 1):
        for combo in itertools.product(ITEMS, repeat=n):
            entries.append(list(combo))
    return entries


def list_shapes(tier):
    """outer <= 2 with inner <= 3; outer == 3 with inner <= 2 (quick) / <= 3 (thorough)."""
    big = list_entries(3)
    for n in (0, 1, 2):
        for outer in itertools.product(big, repeat=n):
            yield list(outer)
    third = big if tier == 'thorough' else list_entries(2)
    for outer in itertools.product(third, repeat=3):
        yield list(outer)


POISON = ['not', '(', ')', 'and', 'or', 'NOT', '"q"', "'q'", 'role:a role:b', '(role:a', 'role:a)', 'not not', 'role:a and',
          'or role:a', '((', 'not (', '( not', 'role:a or or role:b', '@ !', 'not and']


def deep_asts():
    """Deeply nested but legal expressions within ~60 tokens: chains of not, alternating and/or/not towers."""
    for d in range(1, 41):
        ast = ('leaf', 0)
        for _ in range(d):
            ast = ('not', ast)
        yield d, ast, 1
    for d in range(2, 26):
        for variant in range(4):
            ast = ('leaf', d % 5)
            for lvl in range(d, 0, -1):
                leaf = ('leaf', lvl % 5)
                op = ('and', 'or')[(lvl + variant) % 2]
                inner = ast if (lvl + variant) % 3 else ('not', ast)
                ast = (op, [leaf, inner] if variant < 2 else [inner, leaf])
            yield d, ast, 5


# -- two overlapping parse-and-decide operations -------------------------------
def gen_overlap(ctx, i):
    rnd = ctx.sub_rnd('O', ctx.tier, ctx.shard, i)
    ops = []
    for _ in range(2):
        k = rnd.randint(1, 3)
        ast = expr.random_ast(rnd, rnd.randint(1, 3), k)
        while expr.size(ast) > 14:
            ast = expr.random_ast(rnd, rnd.randint(1, 2), k)
        fam = rnd.choice(['role', 'attr', 'kw'])
        text = expr.spell(expr.to_tokens(ast, FAMILIES[fam][0]))
        ops.append(dict(text=text, k=k, fam=fam, want=ref_table(ast, k)))
    if i % 2:
        # shared mode: ONE parsed rule (wide and/or nodes), evaluated by both threads at the same time, each walking the
        # truth assignments in its own order - evaluating a check tree must not change it
        k = rnd.randint(3, 4)
        ast = (rnd.choice(['and', 'or']), [wide(rnd, k, 2) for _ in range(rnd.randint(2, 3))])
        fam = rnd.choice(['role', 'attr'])
        text = expr.spell(expr.to_tokens(ast, FAMILIES[fam][0]))
        order = list(range(2 ** k))
        rnd.shuffle(order)
        return dict(s='O', shared=dict(text=text, k=k, fam=fam, want=ref_table(ast, k), order_b=order),
                    rseed='%s.%d.%d' % (ctx.tier, ctx.shard, i))
    if rnd.random() < 0.3:
        # one of the two is a malformed rule: it denies, and must not disturb the sentence parsed beside it
        ops[rnd.randint(0, 1)] = dict(text=rnd.choice(POISON), k=1, fam='role', want=[False, False])
    return dict(s='O', ops=ops, rseed='%s.%d.%d' % (ctx.tier, ctx.shard, i))


def wide(rnd, k, depth):
    """and/or nodes with three or four operands over k leaves (every leaf index may repeat)."""
    if depth == 0 or rnd.random() < 0.3:
        leaf = ('leaf', rnd.randrange(k))
        return ('not', leaf) if rnd.random() < 0.25 else leaf
    return (rnd.choice(['and', 'or']), [wide(rnd, k, depth - 1) for _ in range(rnd.randint(3, 4))])


def check_shared_overlap(ctx, real, case):
    from pv.mon import overlap
    sh = case['shared']
    creds_of = FAMILIES[sh['fam']][1]
    truths = list(expr.assignments(sh['k']))
    real.enf.set_rules(real.policy.Rules.from_dict({'p': sh['text']}))

    def mk(order):
        def make():
            def run_():
                out = {}
                for i in order:
                    try:
                        out[i] = bool(real.enf.enforce('p', {}, creds_of(truths[i])))
                    except Exception as e:
                        out[i] = 'EXC:' + type(e).__name__
                return [out[i] for i in range(len(truths))]
            return run_
        return make
    ctx.case(['O-shared', sh['text'], sh['order_b']], True, 'O')
    ctx.count('shared_tree_overlaps')
    ok = overlap.pair(ctx, mk(range(len(truths))), mk(sh['order_b']), case,
                      {'rule': sh['text'], 'both_threads_evaluate_the_same_parsed_rule': True, 'expected': [sh['want'], sh['want']]},
                      ctx.sub_rnd('Ob', case['rseed']), limit=140)
    if ok:
        got = mk(range(len(truths)))()()
        if got != sh['want']:
            ctx.violation('decision-mismatch', case, {'rule': sh['text'], 'expected': sh['want'], 'observed': got,
                                                      'after': 'overlapping evaluations of the same parsed rule'})


def check_overlap(ctx, real, case):
    """Two threads each load a rule text (own Rules object, own enforcer) and decide it under all assignments while the
    other does the same with another text: parser and check classes must keep nothing shared between the two."""
    from pv.mon import overlap
    if case.get('shared'):
        return check_shared_overlap(ctx, real, case)
    a, b = case['ops']

    def mk(op, enf):
        creds_of = FAMILIES[op['fam']][1]

        def make():
            def run_():
                try:
                    enf.set_rules(real.policy.Rules.from_dict({'p': op['text']}))
                    return [bool(enf.enforce('p', {}, creds_of(t))) for t in expr.assignments(op['k'])]
                except Exception as e:
                    return 'EXC:' + type(e).__name__
            return run_
        return make
    ctx.case(['O', a['text'], b['text']], True, 'O')
    ok = overlap.pair(ctx, mk(a, real.enf), mk(b, real.enf2), case,
                      {'rule_a': a['text'], 'rule_b': b['text'], 'expected': [a['want'], b['want']]},
                      ctx.sub_rnd('Ob', case['rseed']), limit=100)
    if ok:
        # the sequential pair itself is also held against the reference
        for op, enf in ((a, real.enf), (b, real.enf2)):
            got = mk(op, enf)()()
            if got != op['want']:
                ctx.violation('decision-mismatch', case, {'rule': op['text'], 'expected': op['want'], 'observed': got})


# -- first use of the library in a process, by two threads at once ----------------
FIRST_USE = {'quick': dict(sampled=3, cap=14), 'thorough': dict(sampled=30, cap=120)}


def first_use_pair(ctx):
    rnd = ctx.sub_rnd('FU', ctx.tier, ctx.shard)
    pair, want = [], []
    from pv.mon import firstuse
    for _ in range(2):
        ast = expr.random_ast(rnd, rnd.randint(1, 3), 3)
        while expr.size(ast) > 16:
            ast = expr.random_ast(rnd, rnd.randint(1, 2), 3)
        pair.append(expr.spell(expr.to_tokens(ast, lambda i: 'role:' + 'abc'[i])))
        want.append([expr.ev(ast, [x in creds['roles'] for x in 'abc']) for creds, target in firstuse.WORLDS])
    return pair, want


def judge_first_use(ctx, case, base, got, want=None):
    if want is None:
        want = case['want']
    for n, w in zip('AB', want):
        first = got['first'].get(n)
        decisions = first[1] if isinstance(first, list) else first
        if decisions != w:
            ctx.violation('decision-mismatch' if isinstance(first, list) else 'exception-on-first-use', dict(case, want=want),
                          {'rule': case['pair']['AB'.index(n)], 'expected': w, 'observed': decisions,
                           'situation': 'first use of the library in this process, two threads at once',
                           'a_preempted_at_boundary': case['k'], 'a_preempted_at': got['stopped_at'].get('A'),
                           'one_after_the_other': base['first'].get(n)})
            return


def run_first_use(ctx):
    from pv.mon import firstuse
    ctx.stratum('first-use', exhaustive=False)
    pair, want = first_use_pair(ctx)
    b = FIRST_USE[ctx.tier]
    firstuse.schedules(ctx, pair, lambda c, case, base, got: judge_first_use(c, case, base, got, want), b['sampled'], b['cap'],
                       parity=ctx.shard % 2 if ctx.tier == 'quick' else None)


# -- workload -----------------------------------------------------------------
def case_sources(ctx):
    """The enumerated strata as separate generators, each with a cumulative share of the wall budget (run() stops a generator
    whose share is used up and goes on with the next one: on a loaded machine the large enumerations must not take the
    later strata, which have floors in MIN, with them)."""
    b = BOUNDS[ctx.tier]
    for name in 'ACD':
        ctx.stratum(name, exhaustive=False)
    K_VALUES = (('', True), ([], True), ('@', True), ('!', False), ('  @  ', True), ('(@)', True),
                ('not !', True), ('not @', False), ('((!))', False))
    K_VIAS = (('dict', 'json'), ('file', 'json'), ('file', 'yaml'))

    def small():
        # K: constants (all transports)
        idx = 0
        for value, allow in K_VALUES:
            for via, fmt in K_VIAS:
                if ctx.mine(idx):
                    yield dict(s='K', value=value, allow=allow, via=via, fmt=fmt)
                idx += 1
        # G: sentences with `( not`, parentheses glued (also to the keyword); early, it is small
        ctx.stratum('G', exhaustive=False)
        gidx = 0
        for n in range(1, b['LG'] + 1):
            for seq in expr.sentences(n):
                if not any(seq[i] == '(' and seq[i + 1] == 'not' for i in range(len(seq) - 1)):
                    continue
                for mode in (0, 1 + gidx % (GLUE_MODES - 1)):
                    if ctx.mine(gidx + mode):
                        yield dict(s='G', toks=list(seq), mode=mode, c=gidx // 2, fam=('role', 'attr', 'kw')[(gidx + mode) % 3])
                gidx += 1
        ctx.stratum('G', exhaustive=True)
        # D: deep nesting (small; before the large enumerations so that a cut budget does not lose it)
        for i, (d, ast, k) in enumerate(deep_asts()):
            if ctx.mine(i):
                yield dict(s='D', ast=ast, k=k, depth=d, fam='role' if i % 2 else 'attr')
        ctx.stratum('D', exhaustive=True)

    def sentences():
        # A: exhaustive sentences
        idx = len(K_VALUES) * len(K_VIAS)
        total = 0
        for n in range(1, b['L'] + 1):
            for seq in expr.sentences(n):
                total += 1
                if not ctx.mine(idx):
                    idx += 1
                    continue
                case = dict(s='A', toks=list(seq), fam=('role', 'attr', 'kw', 'role')[idx % 4])
                if sum(1 for t in seq if t == 'c') >= 2 and idx % 2:
                    yield dict(s='A', toks=list(seq), fam=('role', 'kw')[idx % 2], reuse=1 + (idx // 2) % 2)
                if idx % 7 == 3:
                    case['poison'] = POISON[(idx // 7) % len(POISON)]
                if idx % 11 == 5:
                    case['reuse_as_default'] = (idx // 11) % 2
                if idx % b['file_every'] == 0:
                    case.update(via='file', fmt='yaml' if (idx // b['file_every']) % 2 else 'json')
                idx += 1
                yield case
        ctx.stratum('A', exhaustive=True)
        ctx.count('A_space_size_seen_by_this_shard', total)

    def constants_inside():
        # AK: the same sentences with every leaf position taken by a leaf, `@` or `!` (at least one constant): constants INSIDE
        # expressions - `x or @ and y`, `not ! and x`, `( @ ) or x` - meet every reducer
        kidx = 0
        for n in range(1, b['LK'] + 1):
            for seq in expr.sentences(n):
                npos = sum(1 for t in seq if t == 'c')
                for fill in itertools.product('c@!', repeat=npos):
                    if all(f == 'c' for f in fill):
                        continue
                    kidx += 1
                    if not ctx.mine(kidx):
                        continue
                    yield dict(s='AK', toks=list(seq), fill=''.join(fill), fam=('role', 'attr', 'kw')[kidx % 3])
        ctx.stratum('AK', exhaustive=True)

    def lists():
        # C: exhaustive list shapes
        for i, value in enumerate(list_shapes(ctx.tier)):
            if ctx.mine(i):
                yield dict(s='C', value=value)
        ctx.stratum('C', exhaustive=True)

    return [(0.1, small), (0.42, sentences), (0.54, constants_inside), (0.65, lists), (0.8, lambda: cases_random(ctx))]


def cases_random(ctx):
    # B: random ASTs (a generator of its own: it has its own share of the wall budget, see run())
    b = BOUNDS[ctx.tier]
    ctx.stratum('B', exhaustive=False)
    per = b['nB'] // ctx.nshards + 1
    for i in range(per):
        rnd = ctx.rnd
        k = rnd.randint(1, 6)
        limit = 30 if ctx.tier == 'quick' else 55
        ast = expr.random_ast(rnd, rnd.randint(1, 5 if ctx.tier == 'quick' else 6), k)
        while expr.size(ast) > limit:
            ast = expr.random_ast(rnd, rnd.randint(1, 4), k)
        case = dict(s='B', ast=ast, k=k, vseed='%d.%d' % (ctx.shard, i), nvar=b['nvar'],
                    fam='role' if rnd.random() < 0.7 else 'attr', glued=i)
        if i % b['file_every'] == 0:
            case.update(via='file', fmt='json')     # whitespace variants travel safely in JSON
        yield case


def run(ctx):
    # cumulative shares of the wall budget (case_sources): every stratum ends by itself on an idle machine; on a loaded one a
    # stratum whose share is used up is stopped and the next one starts (a loaded thorough run once left nothing for the
    # strata after the large enumeration A); the strata that come last (overlapping operations, first use) keep a fifth
    contracts.parse_state_stacks_parallel()
    contracts.parse_rule_returns_check()
    real = Real()
    for share, source in case_sources(ctx):
        ctx.reserve(share)
        for n, case in enumerate(source()):
            if (n & 0x7) == 0 and ctx.expired():
                break               # the stratum keeps exhaustive=False: it is set to True only where its enumeration ends
            check_case(ctx, real, case)
    ctx.release()
    # O: overlapping operations last (the line-level scheduler slows everything that runs after it is installed)
    from pv.mon import sched
    ctx.stratum('O', exhaustive=False)
    ctx.reserve(0.9)          # ... and the first-use schedules (fresh interpreters) the last tenth
    try:
        for i in range(OVERLAPS[ctx.tier]):
            if ctx.expired():
                break
            check_overlap(ctx, real, gen_overlap(ctx, i))
    finally:
        sched.uninstall()
    ctx.release()
    run_first_use(ctx)
    for k, v in contracts.EVALS.items():
        ctx.count('contract_evals.' + k, v)


def replay(ctx, case):
    contracts.parse_state_stacks_parallel()
    contracts.parse_rule_returns_check()
    real = Real()
    case = dict(case)
    if case.get('first_use'):
        from pv.mon import firstuse
        return firstuse.replay_one(ctx, case, judge_first_use)
    if case.get('s') == 'O':
        return check_overlap(ctx, real, case)
    if case.get('s') == 'B' and 'text' in case:
        # re-decide exactly the failing variant
        ast = totuple(case['ast'])
        want = ref_table(ast, case['k'])
        got = real.table(case['text'], case['k'], case.get('fam', 'role'),
                         case.get('via', 'dict'), case.get('fmt', 'json'))
        record(ctx, case, case['text'], got, want, 'B')
    check_case(ctx, real, case)
