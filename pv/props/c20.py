"""C20 - a decision taken during a reload sees the old or the new policy, never a mix.

Controlled schedule exploration: two real threads call Enforcer.enforce on one
enforcer; a deterministic scheduler (pv/mon/sched.py) pre-empts them at library
line boundaries according to a plan.  Oracle: every decision equals the
decision under the settled old policy or under the settled new policy (both
measured by quiescent real enforcers).  Every read of the rule store is
recorded with the identity and content signature of the store it hit, and
every in-place mutation of a store is logged, so that a violating decision is
classified by mechanism from what was observed."""
import collections
import json
import threading

from pv.core import env
from pv.gen import files
from pv.mon import sched

ID = 'C20'
LEVEL = 'exploration'
TECHNIQUE = ('controlled schedule exploration of real threads with a deterministic sys.monitoring LINE scheduler; '
             'old/new decision oracle; rule-store read/mutation log for mechanism classification')
RULE = ('schedules = plans over two threads X (reloading) and Y (deciding) on one enforcer: P1 `EDIT; X@k; Y; X`, '
        'P2 `Y@k; EDIT; X; Y` for EVERY library line boundary k (exhaustive), P6 `Y@k; EDIT; X; Y` on a never-loaded enforcer, so that Y is inside its FIRST load at EVERY boundary k when the files change (exhaustive), P4 `Y@k2; EDIT; X@k1; Y; X` for the directory scenarios with EVERY k2 and every k1 at which shared state has just changed (exhaustive), P5 `Y@f; EDIT; X@k; Y; X` with Y stopped right after it fetched a check from the store and EVERY boundary k of the reload (exhaustive), P3 `EDIT; X@k1; Y@k2; X; Y` and '
        'P4 `Y@k2; EDIT; X@k1; Y; X` sampled (thorough: exhaustive around the state-changing boundaries); scenarios: '
        'main-file edit with directory overrides, directory edit, registered defaults with a permissive default rule, '
        'deprecated default with old-name override, deprecated default OR-merged (enforce_new_defaults off), undefined name decided by the default rule, default rule overridden in a policy directory, no main file, rules differing only through rule: references, a main-file edit that drops a rule (referenced by another rule / referenced by nothing), a file added to a policy directory; every '
        'probe (name, roles) of the scenario for the deciding thread. Non-trivial = the plan pre-empts a thread strictly '
        'inside its load step; distinct = distinct (scenario, plan, probes).')
ASSUMPTIONS = ['pre-emption points are library line boundaries; a switch inside a third-party call (YAML parsing, os.stat) '
               'is equivalent to a switch at the enclosing library line for the shared state in question (an argument, not an observation)',
               'the settled old/new decisions are measured on quiescent enforcers before the edit and on a fresh enforcer after it',
               'CPython threads, one running at a time (the scheduler serialises them exactly as the GIL would at these points)']
LEVEL_TEXT = ('Every single pre-emption point of the reload (P1) and of the decision (P2) is explored for every scenario and '
              'probe; double pre-emptions are sampled (thorough: enumerated around the boundaries where the rule store changes). '
              'Schedules at line granularity are finite per scenario, so the single-switch families are complete.')
LEVEL_NOTE = 'trusted: the scheduler (semaphore hand-over, one runnable thread), the store log wrappers, fresh-enforcer oracle'
PLAN = {'quick': dict(shards=16, wall=240), 'thorough': dict(shards=16, wall=520)}
MIN = {'targeted_double_preemptions': 500, 'first_load_races': 1000, 'evaluations': 1000, 'preemptions_inside_reload': 500, 'store_reads_logged': 5000}
ANCHORS = ['oslo_policy.policy:Enforcer.load_rules', 'oslo_policy.policy:Enforcer._load_policy_file',
           'oslo_policy.policy:Enforcer.set_rules', 'oslo_policy.policy:Enforcer.enforce']
REQUIRED_ANCHORS = ['oslo_policy.policy:Enforcer.enforce', 'oslo_policy.policy:Enforcer.load_rules']
SAMPLES_P34 = {'quick': 500, 'thorough': 12000}
P4_TARGETED = ('dir_file_added', 'dir_edit', 'dir_file_two_rules')

SCEN = {
    'main_edit_dir_override': dict(
        old={'policy.yaml': {'a': 'role:x'}, 'pd/1.yaml': {'a': 'role:y'}}, new={'policy.yaml': {'a': 'role:x', 'b': 'role:w'}},
        defaults=[['c', 'role:z', None]], probes=[['a', ['x']], ['a', ['y']], ['c', ['z']], ['b', ['w']]]),
    'dir_edit': dict(
        old={'policy.yaml': {'a': 'role:x'}, 'pd/1.yaml': {'a': 'role:y'}}, new={'pd/1.yaml': {'a': 'role:y', 'b': 'role:w'}},
        defaults=[['c', 'role:z', None]], probes=[['a', ['x']], ['a', ['y']], ['c', ['z']], ['b', ['w']]]),
    'permissive_default': dict(
        old={'policy.yaml': {'default': '@', 'a': 'role:x'}}, new={'policy.yaml': {'default': '@', 'a': 'role:y'}},
        defaults=[['c', 'role:z', None]], probes=[['c', []], ['c', ['z']], ['a', ['x']], ['a', ['y']]]),
    'deprecated': dict(
        old={'policy.yaml': {'old': 'role:x'}}, new={'policy.yaml': {'old': 'role:x', 'b': 'role:w'}},
        defaults=[['new', 'role:n', ['old', 'role:o']]], probes=[['new', ['x']], ['new', ['n']], ['new', ['o']]]),
    'nested_mix': dict(
        old={'policy.yaml': {'a': 'rule:h1 and not rule:h2', 'h1': 'role:x', 'h2': 'role:x'}},
        new={'policy.yaml': {'a': 'rule:h1 and not rule:h2', 'h1': 'role:y', 'h2': 'role:y'}},
        defaults=[], probes=[['a', ['x']], ['a', ['y']], ['a', ['x', 'y']]]),
    'deprecated_merge_flag_off': dict(
        conf={'enforce_new_defaults': False},
        old={'policy.yaml': {'x': 'role:a'}}, new={'policy.yaml': {'x': 'role:b'}},
        defaults=[['new', 'role:n', ['old', 'role:o']]],
        probes=[['new', ['o']], ['new', ['n']], ['new', []], ['x', ['a']], ['x', ['b']]]),
    'undefined_name_default': dict(
        old={'policy.yaml': {'default': '@', 'a': 'role:x'}}, new={'policy.yaml': {'default': '@', 'a': 'role:y'}},
        defaults=[], probes=[['ghost', []], ['a', ['x']], ['a', ['y']]]),
    'registered_default_overridden_in_dir': dict(
        old={'policy.yaml': {'a': 'role:x'}, 'pd/1.yaml': {'c': 'role:y'}}, new={'policy.yaml': {'a': 'role:x', 'b': 'role:w'}},
        defaults=[['c', 'role:z', None]], probes=[['c', ['y']], ['c', ['z']], ['a', ['x']]]),
    'default_overridden_in_dir': dict(
        old={'policy.yaml': {'default': 'role:admin', 'a': 'role:x'}, 'pd/1.yaml': {'default': '@'}},
        new={'policy.yaml': {'default': 'role:admin', 'a': 'role:y'}},
        defaults=[], probes=[['ghost', []], ['ghost', ['admin']], ['a', ['x']], ['a', ['y']]]),
    'main_drops_rule': dict(
        old={'policy.yaml': {'a': 'role:x', 'gone': 'role:g', 'h': 'rule:gone or role:x'}}, new={'policy.yaml': {'a': 'role:x', 'h': 'role:x'}},
        defaults=[['c', 'role:z', None]], probes=[['a', ['x']], ['gone', ['g']], ['c', ['z']], ['h', ['g']], ['h', ['x']]]),
    'main_drops_unreferenced_rule': dict(
        old={'policy.yaml': {'a': 'role:x', 'gone': 'role:g', 'b': 'role:w'}}, new={'policy.yaml': {'a': 'role:x', 'b': 'role:w or role:v'}},
        defaults=[['c', 'role:z', None]], probes=[['a', ['x']], ['gone', ['g']], ['b', ['v']], ['c', ['z']]]),
    'dir_file_added': dict(
        old={'policy.yaml': {'y': 'role:m', 'a': 'role:x'}, 'pd/1.yaml': {'a': 'role:x'}}, new={'pd/2.yaml': {'y': 'role:o', 'n': 'role:n'}},
        defaults=[['c', 'role:z', None]], probes=[['y', ['o']], ['y', ['m']], ['n', ['n']], ['a', ['x']], ['c', ['z']]]),
    'dir_file_two_rules': dict(
        old={'policy.yaml': {'x': 'rule:p and rule:q', 'p': 'role:m', 'q': 'role:m'}, 'pd/1.yaml': {'p': '!', 'q': '@'}},
        new={'pd/1.yaml': {'q': '!', 'p': '@'}},
        defaults=[['c', 'role:z', None]], probes=[['x', ['m']], ['p', ['m']], ['q', []], ['c', ['z']]]),
    'no_main': dict(
        old={'pd/1.yaml': {'a': '@'}}, new={'pd/1.yaml': {'a': '@', 'b': '!'}},
        defaults=[['c', '@', None]], probes=[['a', []], ['c', []]]),
}

LOG = []            # (thread ident, store id, key, signature)   - reads
MUT = []            # (store id, op, detail, thread ident)       - in-place mutations
_wrapped = {}


def sig(store):
    return tuple(sorted((k, str(v)) for k, v in dict.items(store)))


def install_store_log():
    from oslo_policy import policy
    R = policy.Rules
    if _wrapped:
        return

    # every wrapper records and then calls what the CLASS ITSELF defines for that operation (a tree may override e.g.
    # Rules.update), falling back to dict's implementation - a monitor must never replace the behaviour it observes
    def orig(name):
        return _wrapped.get(name) or getattr(dict, name)

    def getitem(self, key):
        LOG.append((threading.get_ident(), id(self), key, sig(self)))
        return orig('__getitem__')(self, key)        # dict honours __missing__ for subclasses

    def rbool(self):
        LOG.append((threading.get_ident(), id(self), '<bool>', sig(self)))
        own = _wrapped.get('__bool__')
        return own(self) if own else dict.__len__(self) > 0

    def setitem(self, key, value):
        MUT.append((id(self), 'set', key, threading.get_ident()))
        orig('__setitem__')(self, key, value)

    def update(self, *a, **kw):
        MUT.append((id(self), 'update', None, threading.get_ident()))
        orig('update')(self, *a, **kw)

    def clear(self):
        MUT.append((id(self), 'shrink', 'clear', threading.get_ident()))
        orig('clear')(self)

    def delitem(self, key):
        MUT.append((id(self), 'shrink', key, threading.get_ident()))
        orig('__delitem__')(self, key)

    def pop(self, *a):
        MUT.append((id(self), 'shrink', a[0] if a else None, threading.get_ident()))
        return orig('pop')(self, *a)

    def popitem(self):
        MUT.append((id(self), 'shrink', 'popitem', threading.get_ident()))
        return orig('popitem')(self)
    for name, fn in (('__getitem__', getitem), ('__bool__', rbool), ('__setitem__', setitem), ('update', update),
                     ('clear', clear), ('__delitem__', delitem), ('pop', pop), ('popitem', popitem)):
        _wrapped[name] = R.__dict__.get(name)
        setattr(R, name, fn)


def uninstall_store_log():
    from oslo_policy import policy
    for name, old in _wrapped.items():
        if old is None:
            delattr(policy.Rules, name)
        else:
            setattr(policy.Rules, name, old)
    _wrapped.clear()


def build(sc):
    from oslo_policy import policy
    tree = files.Tree(dirs=('pd',))
    for f, c in sc['old'].items():
        tree.write(f, c, 'json')
    enf = policy.Enforcer(tree.conf(**sc.get('conf', {})))
    register(policy, enf, sc)
    return enf, tree


def register(policy, enf, sc):
    for n, cs, dep in sc['defaults']:
        dr = policy.DeprecatedRule(dep[0], dep[1], deprecated_reason='r', deprecated_since='s') if dep else None
        enf.register_default(policy.RuleDefault(n, cs, deprecated_rule=dr))


def apply_new(sc, tree):
    for f, c in sc['new'].items():
        if c is None:
            tree.delete(f)
        else:
            tree.write(f, c, 'json')


def dec(enf, probe):
    try:
        return bool(enf.enforce(probe[0], {}, {'roles': list(probe[1])}))
    except Exception as e:
        return 'EXC:%s:%s' % (type(e).__name__, str(e)[:50])


def layer_defs(sc):
    """Every (name, printed check) that some layer of the old or new policy legitimately contributes."""
    P = env.printed
    defs = set()
    for ver in ('old', 'new'):
        for f, c in sc[ver].items():
            if c:
                for k, v in c.items():
                    defs.add((k, P(v)))
    for n, cs, dep in sc['defaults']:
        defs.add((n, P(cs)))
        if dep:
            defs.add((n, '(%s or %s)' % (P(cs), P(dep[1]))))
            for ver in ('old', 'new'):
                for f, c in sc[ver].items():
                    if c and dep[0] in c:
                        defs.add((n, P(c[dep[0]])))      # old-name override carried to the new name
    return defs


def rebuild_states(sc, lenient):
    """Every store state the documented rebuild passes through, for the old and for the new files, as (fixed, open):
    `fixed` = {name: printed definition} given by the main file (nothing when there is none) and the first j policy.d files in
    sorted order, later files overriding earlier ones; `open` = the registered-default names added so far, whose definition may
    be any the deprecation handling legitimately produces.  Strict reading: defaults are added only after ALL directory
    files, in registration order, and only for names no file defines.  Lenient reading (the deciding thread itself ran a load
    step on the half-built store and wrote into it): defaults may also sit on a store that lacks later directory files."""
    P = env.printed
    dnames = [n for n, cs, dep in sc['defaults']]
    out = []
    for ver in ('old', 'new'):
        files_now = dict(sc['old'])
        if ver == 'new':
            for f, c in sc['new'].items():
                if c is None:
                    files_now.pop(f, None)
                else:
                    files_now[f] = c
        layers = [files_now.get('policy.yaml') or {}] + [files_now[f] or {} for f in sorted(files_now) if f != 'policy.yaml']
        for j in range(len(layers)):
            fixed = {}
            for layer in layers[:j + 1]:
                for k, v in layer.items():
                    fixed[k] = P(v)
            last = j == len(layers) - 1
            absent = [n for n in dnames if n not in fixed]
            out.append((fixed, frozenset()))
            if last or lenient:
                for m in range(1, len(absent) + 1):
                    out.append((fixed, frozenset(absent[:m])))
    return out


def outside_rebuild_sequence(sc, sg, defs, lenient):
    """Is the store signature `sg` (tuple of (name, printed)) none of the states of rebuild_states()?"""
    got = dict(sg)
    for fixed, opened in rebuild_states(sc, lenient):
        if set(got) != set(fixed) | set(opened):
            continue
        if all(got[k] == v for k, v in fixed.items()) and all((k, got[k]) in defs for k in opened):
            return False
    return True


def pkey(p):
    return '%s/%s' % (p[0], ','.join(p[1]))


def execute(sc, pX, pY, plan, trace=False, preload=True):
    from oslo_policy import policy
    enf, tree = build(sc)
    try:
        probes = sc['probes']
        if preload:
            old = {pkey(p): dec(enf, p) for p in probes}
            sig_old = sig(enf.rules)
        else:
            # the enforcer under test has never loaded anything: the first decision's own load step is a complete first
            # load.  The settled old policy is measured on a twin enforcer.
            twin = policy.Enforcer(tree.conf(**sc.get('conf', {})))
            register(policy, twin, sc)
            old = {pkey(p): dec(twin, p) for p in probes}
            sig_old = sig(twin.rules)
        del LOG[:]
        del MUT[:]
        tids = {}

        def mk(name, p):
            def f():
                tids[threading.get_ident()] = name
                return dec(enf, p)
            return f
        r = sched.Run({'X': mk('X', pX), 'Y': mk('Y', pY)}, plan, lambda: apply_new(sc, tree), trace_points=trace)
        res = r.run()
        log = [(tids.get(t), i, k, sg) for t, i, k, sg in LOG]
        mut = [(i, op, d, tids.get(t)) for i, op, d, t in MUT]
        settled = {pkey(p): dec(enf, p) for p in probes}
        sig_settled = sig(enf.rules)
        fresh = policy.Enforcer(tree.conf(**sc.get('conf', {})))
        register(policy, fresh, sc)
        new = {pkey(p): dec(fresh, p) for p in probes}
        sig_new = sig(fresh.rules)
        return dict(old=old, new=new, settled=settled, res=res, log=log, mut=mut, sig_old=sig_old, sig_new=sig_new,
                    sig_settled=sig_settled, counts=dict(r.counts), stopped=dict(r.stopped_at), points=r.points)
    finally:
        tree.cleanup()


def references(sc, name):
    """Does any rule of the old or new policy (files or registered defaults) refer to `name` through rule:?"""
    import re
    texts = [v for ver in ('old', 'new') for c in sc[ver].values() if c for v in c.values()]
    texts += [cs for _, cs, _ in sc['defaults']] + [dep[1] for _, _, dep in sc['defaults'] if dep]
    pat = re.compile(r'(^|[\s(])rule:%s($|[\s)])' % re.escape(name))
    return any(isinstance(t, str) and pat.search(t) for t in texts)


def classify(who, p, ex, defs, sc=None):
    rr = ex['res'].get(who)
    if isinstance(rr, str):
        if rr.startswith('EXC:RuntimeError:dictionary changed size'):
            return 'reload-iteration-race'
        if rr.startswith("EXC:KeyError:'") and sc is not None:
            # a name that could not be looked up: if some rule refers to it through rule:, the walk that validates the rule
            # set after a load followed that reference into a store which another thread had swapped in meanwhile
            missing = rr[len("EXC:KeyError:'"):].rstrip("'")
            if references(sc, missing):
                return 'validation-follows-reference-into-swapped-store'
        return 'exception-' + rr.split(':')[1]
    mine = [(i, k, sg) for w, i, k, sg in ex['log'] if w == who]
    sigs = [sg for _, _, sg in mine]
    partial = [(i, sg) for i, _, sg in mine if sg not in (ex['sig_old'], ex['sig_new'])]
    if partial:
        foreign = [e for _, sg in partial for e in sg if e not in defs]
        if foreign:
            return 'foreign-definition-in-store'
        shrunk = {i for i, op, _, _ in ex['mut'] if op == 'shrink'}
        if any(i in shrunk for i, _ in partial):
            return 'store-shrinks-in-place'
        if sc is not None:
            # did the deciding thread itself write into a store (its own load step adding registered defaults)?
            wrote = {i for i, op, _, t in ex['mut'] if op in ('set', 'update') and t == who}
            odd = [sg for i, sg in partial if outside_rebuild_sequence(sc, sg, defs, lenient=i in wrote)]
            if odd:
                # e.g. an EMPTY store although a main policy file exists, half of a directory file applied, registered
                # defaults on a store that still lacks the directory files although nobody ran a load step on it
                return 'store-state-outside-rebuild-sequence'
        return 'partial-rebuild-view'
    if ex['sig_old'] in sigs and ex['sig_new'] in sigs and ex['sig_old'] != ex['sig_new']:
        return 'old-new-reference-mix'
    return 'wrong-decision-on-complete-store'


def check_plan(ctx, case):
    sc = SCEN[case['scenario']]
    pX, pY, plan = case['pX'], case['pY'], case['plan']
    try:
        ex = execute(sc, pX, pY, plan, preload=case.get('preload', True))
    except sched.Watchdog as e:
        ctx.inconclusive('scheduler watchdog: %s' % e)
        return None
    defs = layer_defs(sc)
    inside = False
    for step in plan:
        if step[0] != 'EDIT' and step[1] is not None:
            inside = True
    ctx.case([case['scenario'], pX, pY, plan], nontrivial=inside, stratum=case['family'])
    ctx.count('store_reads_logged', len(ex['log']))
    ctx.count('store_mutations_logged', len(ex['mut']))
    for n, st in ex['stopped'].items():
        ctx.observe('preemption_points', '%s:%d(%s)' % st)
        if n == 'X' or st[2] in ('load_rules', '_load_policy_file', 'set_rules', '_record_file_rules', '_walk_through_policy_directory',
                                 'read_cached_file', '_is_directory_updated', '_handle_deprecated_rule', 'check_rules'):
            ctx.count('preemptions_inside_reload')
    for w, i, k, sg in ex['log']:
        if sg not in (ex['sig_old'], ex['sig_new']):
            ctx.observe('partial_store_signatures', json.dumps(sg))
    for who, p in (('X', pX), ('Y', pY)):
        rr = ex['res'].get(who)
        ctx.count('decisions_observed')
        if rr not in (ex['old'][pkey(p)], ex['new'][pkey(p)]):
            key = classify(who, p, ex, defs, sc)
            ctx.count('violating_decisions.' + key)
            ctx.violation(key, case, {'thread': who, 'probe': p, 'decision': rr, 'under_old_policy': ex['old'][pkey(p)],
                                      'under_new_policy': ex['new'][pkey(p)], 'plan': plan, 'scenario': case['scenario'],
                                      'stores_read': [[k, list(sg)] for w, i, k, sg in ex['log'] if w == who][:6],
                                      'preempted_at': {n: list(s) for n, s in ex['stopped'].items()}})
    if ex['settled'] != ex['new']:
        # a decision taken after the race is still based on a rule set that is neither old nor new
        dep_names = {n for n, cs, dep in sc['defaults'] if dep}
        differing = {k.split('/')[0] for k in ex['new'] if ex['settled'][k] != ex['new'][k]}
        explained = all(e in defs for e in ex['sig_settled'])
        plain_defaults = {n: env.printed(cs) for n, cs, dep in sc['defaults'] if not dep}
        settled_defs = dict(ex['sig_settled'])
        if not case.get('preload', True) and ex['sig_settled'] == ex['sig_old'] and ex['sig_old'] != ex['sig_new']:
            # two loads raced (the deciding thread was inside its FIRST load when the files changed and the other thread
            # loaded the new files completely): the older load finished last and the complete OLD policy stays in force
            key = 'older-load-finishes-last'
        elif differing and differing <= dep_names and explained:
            key = 'stale-deprecated-merge-after-race'
        elif (differing and explained and differing <= set(plain_defaults) and
              all(settled_defs.get(n) == plain_defaults[n] for n in differing)):
            # a decider on the half-built store saw the name missing, the reloader then applied the operator's override
            # from a policy file, and the decider finally wrote the registered default over it: the override is lost
            # until the next file change
            key = 'registered-default-overwrites-override-after-race'
        else:
            key = 'settled-state-differs-from-fresh-enforcer'
        ctx.violation(key, case,
                      {'plan': plan, 'scenario': case['scenario'], 'settled': ex['settled'], 'fresh': ex['new']})
    return ex


def calibrate(name):
    sc = SCEN[name]
    p = sc['probes'][0]
    # warm-up (first-call branches inside the library), then measure
    execute(sc, p, p, [['EDIT'], ['X', None], ['Y', None]])
    a = execute(sc, p, p, [['EDIT'], ['X', None], ['Y', None]], trace=True)
    b = execute(sc, p, p, [['Y', None], ['EDIT'], ['X', None]], trace=True)
    return a['counts']['X'], b['counts']['Y'], b


def first_load_boundaries(name):
    """Number of library line boundaries of a decision whose own load step is the enforcer's FIRST load."""
    sc = SCEN[name]
    p = sc['probes'][0]
    ex = execute(sc, p, p, [['Y', None], ['EDIT'], ['X', None]], preload=False)
    return ex['counts']['Y']


def post_fetch_points(sc, probe, limit):
    """Boundaries of a quiescent decision at which the deciding thread has just fetched a check from the rule store and is
    about to evaluate it (entry of the library's evaluation helper): pre-empting there lets a reload run underneath a
    decision that already holds a check object."""
    ex = execute(sc, probe, probe, [['Y', None], ['EDIT'], ['X', None]], trace=True)
    pts = [i + 1 for i, (f, line, fn) in enumerate(ex['points'].get('Y', [])) if fn == '_check']
    # the first line of each evaluation-helper activation
    out = []
    prev = None
    for i in pts:
        if prev is None or i != prev + 1:
            out.append(i)
        prev = i
    return out[:limit]


def state_change_points(name, nX):
    """Boundaries k of X's reload around which the shared rule store changes (signature or identity)."""
    sc = SCEN[name]
    p = sc['probes'][0]
    out = set()
    from oslo_policy import policy
    # run X alone, pausing at each boundary is too slow; instead log mutations with the boundary count
    marks = []
    orig_len = len(MUT)
    enf, tree = build(sc)
    try:
        dec(enf, p)
        del MUT[:]
        r = sched.Run({'X': lambda: dec(enf, p)}, [['EDIT'], ['X', None]], lambda: apply_new(sc, tree))
        def state():
            # everything a concurrent decision (or its own load step) can read: the store object and its content,
            # which names came from files, the caches that decide whether anything is re-read
            fc = getattr(enf, '_file_cache', None) or {}
            dm = getattr(enf, '_policy_dir_mtimes', None) or {}
            return (id(enf.rules), len(MUT), len(enf.rules), tuple(sorted(getattr(enf, 'file_rules', None) or ())),
                    tuple(sorted((k, v.get('mtime') if isinstance(v, dict) else repr(v)) for k, v in fc.items())) if isinstance(fc, dict) else repr(fc),
                    tuple(sorted((k, v.get('mtime') if isinstance(v, dict) else repr(v)) for k, v in dm.items())) if isinstance(dm, dict) else repr(dm),
                    str(getattr(enf.rules, 'default_rule', None)), getattr(enf, '_need_check_rule', None))
        last = [state()]

        def on_line(code, line, _orig=r.on_line):
            try:
                cur = state()
            except Exception:
                cur = last[0]
            if cur != last[0]:
                marks.append(r.counts['X'])
                last[0] = cur
            _orig(code, line)
        r.on_line = on_line
        r.run()
    finally:
        tree.cleanup()
    for m in marks:
        for d in (0, 1):
            if 1 <= m + d <= nX:
                out.add(m + d)
    return sorted(out)


def run(ctx):
    install_store_log()
    try:
        names = sorted(SCEN)
        idx = 0
        done = True
        # The enumerated families (P1, P2, P6, P5, P4-targeted) are bounded and are what the check is FOR: every single
        # pre-emption point.  They always run to their end, whatever the wall budget says (a budget-cut P1 missed a seeded
        # change whose window is one source line); the shares below then only order the families.  The hard watchdog of
        # the runner stays.  The sampled family and the thorough tier's exhaustive two-pre-emption family obey the budget.
        enumerations_may_stop = False
        calib = {}
        for name in names:
            calib[name] = calibrate(name)
            ctx.count('boundaries_reload.' + name, calib[name][0] if ctx.shard == 0 else 0)
            ctx.count('boundaries_decision.' + name, calib[name][1] if ctx.shard == 0 else 0)
        # ---- P1, P2: every single pre-emption point ----------------------------
        ctx.reserve(0.42)         # every family keeps a share of the wall budget (matters on a loaded machine only)
        for name in names:
            sc = SCEN[name]
            nX, nY0, _ = calib[name]
            for pY in sc['probes']:
                pX = sc['probes'][0]
                for k in range(1, nX + 1):
                    idx += 1
                    if not ctx.mine(idx):
                        continue
                    if enumerations_may_stop and ((idx // ctx.nshards) & 0x3) == 0 and ctx.expired():
                        done = False
                        break
                    case = dict(family='P1', scenario=name, pX=pX, pY=pY, plan=[['EDIT'], ['X', k], ['Y', None], ['X', None]])
                    check_plan(ctx, case)
                    if idx % 3000 == 0:
                        ctx.sample(case, 'P1')
                if not done:
                    break
                for k in range(1, nY0 + 1):
                    idx += 1
                    if not ctx.mine(idx):
                        continue
                    if enumerations_may_stop and ((idx // ctx.nshards) & 0x3) == 0 and ctx.expired():
                        done = False
                        break
                    case = dict(family='P2', scenario=name, pX=pX, pY=pY, plan=[['Y', k], ['EDIT'], ['X', None], ['Y', None]])
                    check_plan(ctx, case)
                    if idx % 1000 == 0:
                        ctx.sample(case, 'P2')
                if not done:
                    break
            if not done:
                break
        ctx.stratum('P1', exhaustive=done)
        ctx.stratum('P2', exhaustive=done)
        # ---- P6: the decider is inside its FIRST load (never-loaded enforcer) at EVERY boundary when the files change and
        # the other thread loads them completely ------------------------------------------------------------------------
        done6 = True
        ctx.reserve(0.62)
        if True:
            for name in names:
                sc = SCEN[name]
                nF = first_load_boundaries(name)
                ctx.count('boundaries_first_load.' + name, nF if ctx.shard == 0 else 0)
                for pY in (sc['probes'] if ctx.tier == 'thorough' else sc['probes'][:2]):
                    for k in range(1, nF + 1):
                        idx += 1
                        if not ctx.mine(idx):
                            continue
                        if enumerations_may_stop and ((idx // ctx.nshards) & 0x3) == 0 and ctx.expired():
                            done6 = False
                            break
                        case = dict(family='P6', scenario=name, pX=sc['probes'][0], pY=pY, preload=False,
                                    plan=[['Y', k], ['EDIT'], ['X', None], ['Y', None]])
                        check_plan(ctx, case)
                        ctx.count('first_load_races')
                        if idx % 3000 == 0:
                            ctx.sample(case, 'P6')
                    if not done6:
                        break
                if not done6:
                    break
        ctx.stratum('P6', exhaustive=done6)
        # ---- P5: the decider already holds a fetched check; the reload is pre-empted at EVERY boundary ----------------
        done5 = True
        ctx.reserve(0.76)
        if True:
            for name in names:
                sc = SCEN[name]
                nX, nY0, _ = calib[name]
                probes5 = sc['probes'] if ctx.tier == 'thorough' else sc['probes'][:1]
                for pY in probes5:
                    kfs = post_fetch_points(sc, pY, 6 if ctx.tier == 'thorough' else 1)
                    for kf in kfs:
                        for k1 in range(1, nX + 1):
                            idx += 1
                            if not ctx.mine(idx):
                                continue
                            if enumerations_may_stop and ((idx // ctx.nshards) & 0x3) == 0 and ctx.expired():
                                done5 = False
                                break
                            case = dict(family='P5', scenario=name, pX=sc['probes'][0], pY=pY,
                                        plan=[['Y', kf], ['EDIT'], ['X', k1], ['Y', None], ['X', None]])
                            check_plan(ctx, case)
                            if idx % 3000 == 0:
                                ctx.sample(case, 'P5')
                        if not done5:
                            break
                    if not done5:
                        break
                if not done5:
                    break
        ctx.stratum('P5', exhaustive=done5)
        # ---- P4 targeted: the decider is stopped at EVERY boundary of its (preloaded) call, the files change, the reloader runs
        # up to each boundary at which anything a concurrent load step can read has just changed, the decider finishes, the
        # reloader finishes - for the directory scenarios, where a load step lists the directory on every call -------------------
        done4 = True
        ctx.reserve(0.9)
        if True:
            for name in P4_TARGETED:
                sc = SCEN[name]
                nX, nY0, _ = calib[name]
                pts = state_change_points(name, nX)
                ctx.count('state_change_points.' + name, len(pts) if ctx.shard == 0 else 0)
                pX, pY = sc['probes'][0], sc['probes'][0]
                for k1 in pts:
                    for k2 in range(1, nY0 + 1):
                        idx += 1
                        if not ctx.mine(idx):
                            continue
                        if enumerations_may_stop and ((idx // ctx.nshards) & 0x3) == 0 and ctx.expired():
                            done4 = False
                            break
                        check_plan(ctx, dict(family='P4', scenario=name, pX=pX, pY=pY,
                                             plan=[['Y', k2], ['EDIT'], ['X', k1], ['Y', None], ['X', None]]))
                        ctx.count('targeted_double_preemptions')
                    if not done4:
                        break
                if not done4:
                    break
        ctx.stratum('P4-targeted', exhaustive=done4)
        ctx.release()
        # ---- P3, P4: two pre-emptions -------------------------------------------
        rnd = ctx.rnd
        if ctx.tier == 'thorough' and done:
            done34 = True
            ctx.reserve(0.8)          # the sampled family below keeps a fifth of the budget
            for name in names:
                sc = SCEN[name]
                nX, nY0, _ = calib[name]
                pts = state_change_points(name, nX)
                ctx.count('state_change_points.' + name, len(pts) if ctx.shard == 0 else 0)
                for pY in sc['probes'][:2]:
                    pX = sc['probes'][0]
                    for k1 in pts:
                        for k2 in range(1, nX + 1):
                            idx += 1
                            if not ctx.mine(idx):
                                continue
                            if ((idx // ctx.nshards) & 0x3) == 0 and ctx.expired():      # counted per shard: idx itself is filtered by mine()
                                done34 = False
                                break
                            check_plan(ctx, dict(family='P3', scenario=name, pX=pX, pY=pY,
                                                 plan=[['EDIT'], ['X', k1], ['Y', k2], ['X', None], ['Y', None]]))
                        if not done34:
                            break
                        for k2 in range(1, nY0 + 1):
                            idx += 1
                            if not ctx.mine(idx):
                                continue
                            if ((idx // ctx.nshards) & 0x3) == 0 and ctx.expired():
                                done34 = False
                                break
                            check_plan(ctx, dict(family='P4', scenario=name, pX=pX, pY=pY,
                                                 plan=[['Y', k2], ['EDIT'], ['X', k1], ['Y', None], ['X', None]]))
                    if not done34:
                        break
                if not done34:
                    break
            ctx.stratum('P3P4-around-state-changes', exhaustive=done34)
            ctx.release()
        per = SAMPLES_P34[ctx.tier] // ctx.nshards + 1
        for name in names:
            sc = SCEN[name]
            nX, nY0, _ = calib[name]
            for i in range(per):
                # the quick tier's share of samples per scenario is a guaranteed minimum (a loaded run that skipped this family
                # missed seeded change C20-i); beyond it - the thorough tier - the family obeys the wall budget
                if i >= SAMPLES_P34['quick'] // ctx.nshards + 1 and (i & 0xf) == 0 and ctx.expired():
                    break
                pX, pY = rnd.choice(sc['probes']), rnd.choice(sc['probes'])
                if rnd.random() < 0.5:
                    case = dict(family='P3', scenario=name, pX=pX, pY=pY,
                                plan=[['EDIT'], ['X', rnd.randint(1, nX)], ['Y', rnd.randint(1, nX)], ['X', None], ['Y', None]])
                else:
                    case = dict(family='P4', scenario=name, pX=pX, pY=pY,
                                plan=[['Y', rnd.randint(1, nY0)], ['EDIT'], ['X', rnd.randint(1, nX)], ['Y', None], ['X', None]])
                check_plan(ctx, case)
                if i % 200 == 0:
                    ctx.sample(case, case['family'])
        ctx.stratum('P3P4-sampled', exhaustive=False)
    finally:
        uninstall_store_log()
        sched.uninstall()


def replay(ctx, case):
    install_store_log()
    try:
        calibrate(case['scenario'])         # same warm-up as the run, so that boundary counts line up
        ex = check_plan(ctx, case)
    finally:
        uninstall_store_log()
        sched.uninstall()
