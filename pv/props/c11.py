"""C11 - deprecated-policy merging follows the documented override table.

Differential monitor: a real file-backed Enforcer with registered defaults that
carry deprecated predecessors is asked to enforce every new policy name under
all 16 role subsets; the reference evaluates the generator's ASTs according to
the statement's table (never the library's parser)."""
import itertools

from pv.core import env
from pv.gen import expr, files

ID = 'C11'
LEVEL = 'exploration'
TECHNIQUE = ('differential runtime monitor: real Enforcer with deprecated defaults and operator files vs the statement\'s '
             'override table evaluated on generator ASTs; exhaustive row skeleton, random check strings')
RULE = ('row skeleton (exhaustive): renamed / same-name deprecation x same / different default check strings x '
        'enforce_new_defaults on/off x new-name override absent/present x old-name override absent / arbitrary / alias '
        'rule:<new> x each override in the main file or in a policy directory x 1-3 new policies sharing the predecessor x the old name itself still registered or not (its override possibly repeating the default of that registration) x old-name override in one layer or in both with different values; '
        'per row several random (new default, old default, overrides) from the expression generator over 4 roles, '
        'decided under all 16 role subsets; deprecated reason/since texts and the two warning-suppression knobs of the enforcer varied (they must not matter); in half of the cases the operator files are then rewritten (overrides added / removed / moved, main file deleted) and the SAME enforcer is re-checked against the table for the new files. Rows whose old-name override is textually '
        'the deprecated default are skipped (unconstrained by the statement). Non-trivial = a deprecated predecessor '
        'actually influences the row (override under the old name, or OR-ing with a different old default); distinct = distinct configuration. '
        'Extra rows (renamed, differing defaults, flag on/off, main file / policy directory): the old-name override is a textually DIFFERENT spelling of the deprecated default (redundant parentheses, keyword case, whitespace, `@` for the empty string and back, commuted operands, double negation) - an arbitrary override by the statement, so it governs, also after a phase-2 rewrite. '
        'In about a third of all cases a predecessor enforcer with its own files and (mostly) the opposite enforce_new_defaults is first built from the SAME RuleDefault / DeprecatedRule objects, loaded and asked once; the enforcer under test is then built from those objects and judged by the unchanged table, with the top-level shape of the new defaults forced to or / and / not / leaf in turn. '
        'ORDER as a further dimension of every row (the three orders rotate over the fillings of a row): after the register-then-load enforcer, a second enforcer over the same unchanged files is built with another history - '
        'files read first (load_rules() or an early enforce()) and all defaults registered afterwards; files read, some of the defaults registered, an enforce, the rest registered; '
        'or defaults registered (and possibly loaded / asked), Enforcer.clear(), the same defaults registered again and the enforcer taken back into use by a forced load before or after that registration - '
        'and all its decisions are judged by the unchanged table: the order of registration and loading must not matter. '
        'SPLIT stratum (runs first, own share of the budget; skeleton exhaustive: every ordering of 1-3 successors of ONE predecessor - renamed ones and at most one that KEEPS the old name with a changed default - x flag x old-name override absent / arbitrary / alias x override under a renamed name absent / present): '
        'every successor is judged SEPARATELY by the table (an entry under the old name is the new-name override of the successor that keeps that name and the old-name override of the renamed ones), defaults registered before or after the files are read, '
        'while every other attribute of the registered default is varied per successor - deprecated_for_removal with its reason/since, scope_types (matching the token, or not matching with enforce_scope off), DocumentedRuleDefault description/operations, reason/since given on the DeprecatedRule, on the new default (legacy form), on both or nowhere - none of which the table mentions.')
ASSUMPTIONS = ['role leaves evaluate as C01/C04 state',
               'an old-name override textually equal to the deprecated default is left unconstrained (statement)']
LEVEL_TEXT = ('The table of the statement is finite in its skeleton and enumerated completely; the check strings are '
              'sampled from the expression generator and compared semantically under all role subsets.')
LEVEL_NOTE = 'trusted: the reference implementation of the override table (20 lines) and the AST evaluator'
PLAN = {'quick': dict(shards=4, wall=120), 'thorough': dict(shards=16, wall=400)}
SPLIT_FLOOR = (70, 10, 15, 10)        # about a fifth of what an idle quick run reaches (352, 48, ~75, ~52)
MIN = {'evaluations': 500, 'decisions': 10000, 'rows_old_override_governs': 50, 'rows_or_merge': 50,
       'rows_new_override_governs': 50, 'rows_alias': 50, 'phase2_cases': 100, 'rows_old_name_still_registered': 50, 'rows_old_override_in_both_layers': 20,
       'rows_old_override_lexical_variant': 60, 'phase2_old_override_lexical_variant': 10,
       'rows_predecessor_enforcer': 150, 'rows_predecessor_merged_then_new_defaults_enforced': 20,
       'predecessor_newdef_top_or': 30,
       'rows_order_load-register': 150, 'rows_order_load-partial-enforce-rest': 150, 'rows_order_clear-reuse': 150,
       'rows_files_read_before_registration_old_override_governs': 100, 'rows_files_read_before_registration_or_merge': 100,
       'split_cases': SPLIT_FLOOR[0], 'split_renamed_registered_before_same_name_successor_no_old_override': SPLIT_FLOOR[1],
       'split_for_removal_successor_old_override_governs': SPLIT_FLOOR[2], 'split_for_removal_successor_or_merge': SPLIT_FLOOR[3]}
ANCHORS = ['oslo_policy.policy:Enforcer._handle_deprecated_rule', 'oslo_policy.policy:Enforcer._record_file_rules',
           'oslo_policy.policy:Enforcer.load_rules', 'oslo_policy.policy:Enforcer.enforce']
REQUIRED_ANCHORS = ['oslo_policy.policy:Enforcer.enforce', 'oslo_policy.policy:Enforcer.load_rules']
PER_ROW = {'quick': 12, 'thorough': 600}

ROLES = ['a', 'b', 'c', 'd']
SUBSETS = [[r for i, r in enumerate(ROLES) if m >> i & 1] for m in range(16)]
REASONS = [('r', 's'), ('because: "quotes" #hash\nnewline', '2024.1'), ('', ''), ('rule:svc:new0', 'role:a')]


def gen_expr(rnd):
    ast = expr.random_ast(rnd, rnd.randint(0, 3), 4, p_const=0.1)
    return ast, expr.spell(expr.to_tokens(ast, lambda i: 'role:' + ROLES[i]))


def skeleton():
    for renamed, samedef, flag, new_ov, old_ov, loc_new, loc_old, nshare in itertools.product(
            (True, False), (True, False), (True, False), (False, True), ('absent', 'arbitrary', 'alias'),
            ('main', 'dir'), ('main', 'dir'), (1, 2, 3)):
        if not renamed and old_ov != 'absent':
            continue               # same-name deprecation: an override under the old name IS the new-name override
        if not new_ov and loc_new == 'dir':
            continue
        if old_ov == 'absent' and loc_old == 'dir':
            continue
        yield dict(renamed=renamed, samedef=samedef, flag=flag, new_ov=new_ov, old_ov=old_ov, loc_new=loc_new,
                   loc_old=loc_old, nshare=nshare)
    # appended AFTER the original rows (their case numbers and random streams stay what they were): the old-name override
    # is a lexical variant of the deprecated default - textually different, hence an arbitrary override that governs
    for flag, new_ov, loc_new, loc_old, nshare in itertools.product((True, False), (False, True), ('main', 'dir'),
                                                                    ('main', 'dir'), (1, 2, 3)):
        if not new_ov and loc_new == 'dir':
            continue
        yield dict(renamed=True, samedef=False, flag=flag, new_ov=new_ov, old_ov='variant', loc_new=loc_new,
                   loc_old=loc_old, nshare=nshare)


GOVERNS = ('arbitrary', 'variant')        # kinds of old-name override that are "an override under the old, renamed name"
VARIANT_KINDS = ('parens', 'wrap', 'case', 'ws', 'random', 'true-spelling') * 2 + ('commute', 'double-not')
SHAPES = ('or', 'and', 'not', 'leaf')
# histories of ONE living enforcer other than "register every default, then load" (the table does not mention the order)
ORDERS = ('load-register', 'load-partial-enforce-rest', 'clear-reuse')
EARLY = ('load_rules', 'enforce-new-name', 'enforce-other-name')


def _leaf(i):
    return 'role:' + ROLES[i]


def lexical_variant(rnd, ast, text):
    """(kind, (ast', text')): another spelling of the expression `ast` whose text differs from `text`.  ast' has the
    meaning of ast under the reference semantics (identical except for commuted operands / a double negation)."""
    ast = expr_tuple(ast)
    for _ in range(30):
        kind = rnd.choice(VARIANT_KINDS)
        a = ast
        if kind == 'true-spelling':
            if ast != ('const', True):
                continue
            cand = rnd.choice(['', '@', '(@)', ' @ ', '( @ )'])
        elif kind == 'parens':
            cand = expr.spell(expr.to_tokens(ast, _leaf, full=True))
        elif kind == 'wrap':
            if not text.strip():
                continue
            cand = rnd.choice(['(%s)', '( %s )', '((%s))']) % text
        elif kind == 'case':
            cand = expr.spell(expr.to_tokens(ast, _leaf), rnd, case=True)
        elif kind == 'ws':
            cand = expr.spell(expr.to_tokens(ast, _leaf), rnd, ws=True)
        elif kind == 'random':
            cand = expr.variants(ast, _leaf, rnd, 3)[2][1]
        elif kind == 'commute':
            if ast[0] not in ('and', 'or'):
                continue
            a = (ast[0], list(reversed(ast[1])))
            cand = expr.spell(expr.to_tokens(a, _leaf))
        else:
            a = ('not', ('not', ast))
            cand = expr.spell(expr.to_tokens(a, _leaf))
        if cand != text:
            return kind, (a, cand)
    return 'true-spelling' if not text.strip() else 'wrap', (ast, '@' if not text.strip() else '(%s)' % text)


def gen_shaped(rnd, shape):
    """random expression whose TOP level is the given shape"""
    sub = lambda: expr.random_ast(rnd, rnd.randint(0, 2), 4, p_const=0.1)
    if shape == 'leaf':
        ast = ('leaf', rnd.randrange(4))
    elif shape == 'not':
        ast = ('not', sub())
    else:
        ast = (shape, [sub() for _ in range(rnd.randint(2, 3))])
    return ast, expr.spell(expr.to_tokens(ast, _leaf))


def fill(rnd, row, j=None):
    case = dict(row)
    n = row['nshare']
    case['newdefs'] = [gen_expr(rnd) for _ in range(n)]
    old = gen_expr(rnd)
    if row['samedef']:
        old = case['newdefs'][0]
    case['olddef'] = old
    case['new_override'] = gen_expr(rnd) if row['new_ov'] else None
    case['old_override'] = gen_expr(rnd) if row['old_ov'] == 'arbitrary' else None
    case['main_exists'] = rnd.random() < 0.7
    case['reason'] = rnd.randrange(len(REASONS))
    # the deprecated old name may itself still be a registered policy with a default of its own; the operator's override
    # under that name may even repeat that default (a "redundant" file entry is still an override of the old name)
    if row['renamed'] and rnd.random() < 0.35:
        case['old_registered_def'] = gen_expr(rnd)
        if row['old_ov'] == 'arbitrary' and rnd.random() < 0.5:
            case['old_override'] = case['old_registered_def']
    # the old-name override may be present in BOTH layers with different values: the later layer (policy.d) is the override
    if row['renamed'] and row['old_ov'] in GOVERNS and rnd.random() < 0.25:
        case['old_override_main'] = gen_expr(rnd)
    # knobs that only silence warnings - they must not influence a decision
    case['suppress_default_change'] = rnd.random() < 0.3
    case['suppress_deprecation'] = rnd.random() < 0.3
    # a second configuration of the operator files, applied later to the SAME long-lived enforcer
    if rnd.random() < 0.5:
        case['phase2'] = dict(new_ov=rnd.random() < 0.4, old_ov=rnd.choice(['absent', 'absent', 'arbitrary', 'alias']) if row['renamed'] else 'absent',
                              loc_new=rnd.choice(['main', 'dir']), loc_old=rnd.choice(['main', 'dir']),
                              new_override=gen_expr(rnd), old_override=gen_expr(rnd), drop_main=rnd.random() < 0.2)
    # ---- everything below is drawn LAST, so that the earlier draws of the original rows are what they always were ----
    # a predecessor: another enforcer built earlier from the very same RuleDefault / DeprecatedRule objects, with its own
    # files and (mostly) the opposite enforce_new_defaults; the table for the enforcer under test does not mention it
    if rnd.random() < 0.3:
        case['predecessor'] = dict(flag=(not row['flag']) if rnd.random() < 0.85 else row['flag'],
                                   files=rnd.choice(['none', 'empty', 'empty', 'old-override', 'new-override']),
                                   override=gen_expr(rnd), roles=rnd.choice(SUBSETS))
        if rnd.random() < 0.8:
            # force the top-level shape of the new defaults (or / and / not / leaf), keeping the row's same/different relation
            shapes = [rnd.choice(SHAPES) for _ in range(n)]
            case['newdefs'] = [gen_shaped(rnd, sh) for sh in shapes]
            if row['samedef']:
                case['olddef'] = case['newdefs'][0]
    if row['old_ov'] == 'variant':
        if rnd.random() < 0.15:
            # a deprecated default that allows everybody: written as the empty string or as `@`
            case['olddef'] = (('const', True), rnd.choice(['', '', '@']))
        case['variant_kind'], case['old_override'] = lexical_variant(rnd, case['olddef'][0], case['olddef'][1])
        if case.get('phase2') and rnd.random() < 0.4:
            case['phase2']['old_ov'] = 'variant'
            case['phase2']['variant_kind'], case['phase2']['old_override'] = lexical_variant(
                rnd, case['olddef'][0], case['olddef'][1])
    # ---- drawn after ALL of the above: the order of registration and loading on a second enforcer over the same files ----
    k = n + (1 if row['renamed'] and case.get('old_registered_def') else 0)        # number of defaults the service owns
    kind = rnd.choice(ORDERS)
    if j is not None:
        kind = ORDERS[j % len(ORDERS)]            # every row meets every order within three consecutive fillings
    first = sorted(rnd.sample(range(k), rnd.randint(1, k - 1))) if k > 1 else rnd.choice([[], [0]])
    case['order'] = dict(kind=kind, early=rnd.choice(EARLY), roles=rnd.choice(SUBSETS), first=first,
                         mid=rnd.randrange(n), first_life=rnd.choice(['load_rules', 'enforce', 'nothing']),
                         reload_before_registering=rnd.random() < 0.4)
    return case


def untuple(x):
    if isinstance(x, list) and len(x) == 2 and isinstance(x[1], str) and isinstance(x[0], list):
        return (expr_tuple(x[0]), x[1])
    return x


def expr_tuple(x):
    if isinstance(x, list) and x and x[0] in ('leaf', 'const'):
        return (x[0], x[1])
    if isinstance(x, list) and x and x[0] == 'not':
        return ('not', expr_tuple(x[1]))
    if isinstance(x, list) and x and x[0] in ('and', 'or'):
        return (x[0], [expr_tuple(y) for y in x[1]])
    return x


def check_case(ctx, case):
    from oslo_policy import policy
    n = case['nshare']
    newnames = ['svc:new%d' % i for i in range(n)]
    newdefs = [untuple(x) for x in case['newdefs']]
    olddef = untuple(case['olddef'])
    new_override = untuple(case['new_override']) if case['new_override'] else None
    old_override = untuple(case['old_override']) if case['old_override'] else None
    renamed = case['renamed']
    oldname = 'svc:old' if renamed else None
    if old_override and old_override[1] == olddef[1]:
        ctx.unconstrained('old-override-equals-deprecated-default')
        return
    main, dirf = {}, {}
    if new_override:
        (main if case['loc_new'] == 'main' else dirf)[newnames[0]] = new_override[1]
    if renamed and case['old_ov'] in GOVERNS:
        (main if case['loc_old'] == 'main' else dirf)[oldname] = old_override[1]
        if case.get('old_override_main'):
            # both layers define the old name: main says one thing, policy.d (applied later) says `old_override`
            main[oldname] = untuple(case['old_override_main'])[1]
            dirf[oldname] = old_override[1]
            ctx.count('rows_old_override_in_both_layers')
    if renamed and case['old_ov'] == 'alias':
        (main if case['loc_old'] == 'main' else dirf)[oldname] = 'rule:' + newnames[0]
    tree = files.Tree(dirs=('pd',))
    tree0 = None
    try:
        if main or case['main_exists']:
            tree.write('policy.yaml', main, 'json')
        if dirf:
            tree.write('pd/x.yaml', dirf, 'yaml-lines')
        reason, since = REASONS[case['reason']]

        def make_defaults():
            # what the service owns: one RuleDefault (with its DeprecatedRule) per new policy, possibly the old name too
            out = []
            for i, nm in enumerate(newnames):
                dep = policy.DeprecatedRule(oldname if renamed else nm, olddef[1], deprecated_reason=reason or None,
                                            deprecated_since=since or None)
                out.append(policy.RuleDefault(nm, newdefs[i][1], deprecated_rule=dep))
            if renamed and case.get('old_registered_def'):
                out.append(policy.RuleDefault(oldname, untuple(case['old_registered_def'])[1]))
            return out

        def build(conf, defaults):
            e = policy.Enforcer(conf)
            if case.get('suppress_default_change'):
                e.suppress_default_change_warnings = True
            if case.get('suppress_deprecation'):
                e.suppress_deprecation_warnings = True
            for d in defaults:
                e.register_default(d)
            return e

        defaults = make_defaults()
        pre = case.get('predecessor')
        pre_enf = None
        if pre:
            # an earlier enforcer of the same process, built from the SAME objects, with its own files and flag; it loads
            # and decides once.  The table for the enforcer under test knows nothing about it.
            tree0 = files.Tree(dirs=('pd',))
            pmain = {}
            if pre['files'] == 'old-override' and renamed:
                pmain[oldname] = untuple(pre['override'])[1]
            elif pre['files'] == 'new-override':
                pmain[newnames[0]] = untuple(pre['override'])[1]
            if pre['files'] != 'none':
                tree0.write('policy.yaml', pmain, 'json')
            pre_enf = build(tree0.conf(enforce_new_defaults=pre['flag']), defaults)
            pre_enf.load_rules()
            for nm in newnames:
                try:
                    pre_enf.enforce(nm, {}, {'roles': list(pre['roles'])})
                except Exception:
                    pass                                   # the predecessor is history, not the subject
            ctx.count('rows_predecessor_enforcer')
            top = expr_tuple(newdefs[0][0])[0]
            ctx.count('predecessor_newdef_top_' + ('leaf' if top in ('leaf', 'const') else top))
            if (not pre['flag'] and case['flag'] and not pmain and any(olddef[1] != d[1] for d in newdefs)):
                ctx.count('rows_predecessor_merged_then_new_defaults_enforced')
        enf = build(tree.conf(enforce_new_defaults=case['flag']), defaults)
        if renamed and case.get('old_registered_def'):
            ctx.count('rows_old_name_still_registered')

        def without_predecessor(nm, roles):
            # diagnosis only (after a mismatch): the same decision from an enforcer built from freshly constructed objects
            try:
                return bool(build(tree.conf(enforce_new_defaults=case['flag']), make_defaults()).enforce(
                    nm, {}, {'roles': list(roles)}))
            except Exception as e:
                return 'EXC:' + type(e).__name__

        # ---- reference: the statement's table -------------------------------
        def effective(i, truth):
            if i == 0 and new_override:
                return expr.ev(new_override[0], truth)                       # new-name override governs
            if renamed and case['old_ov'] in GOVERNS:
                return expr.ev(old_override[0], truth)                       # old-name override governs (any text other than the deprecated default's)
            if renamed and case['old_ov'] == 'alias' and i > 0:
                return effective(0, truth)                                   # for the others it is just a rule: reference
            v = expr.ev(newdefs[i][0], truth)
            if not case['flag'] and olddef[1] != newdefs[i][1]:
                v = v or expr.ev(olddef[0], truth)                           # OR-ed with the old default
            return v
        influenced = (renamed and case['old_ov'] != 'absent') or (not case['flag'] and any(olddef[1] != d[1] for d in newdefs))
        ctx.case(case, nontrivial=influenced)
        if new_override:
            ctx.count('rows_new_override_governs')
        if renamed and case['old_ov'] == 'arbitrary' and (n > 1 or not new_override):
            ctx.count('rows_old_override_governs')
        if renamed and case['old_ov'] == 'variant' and (n > 1 or not new_override):
            ctx.count('rows_old_override_lexical_variant')
            ctx.count('variant_kind_' + str(case.get('variant_kind')))
        if renamed and case['old_ov'] == 'alias':
            ctx.count('rows_alias')
        if not case['flag'] and any(olddef[1] != d[1] for d in newdefs):
            ctx.count('rows_or_merge')
        for i, nm in enumerate(newnames):
            for roles in SUBSETS:
                truth = [r in roles for r in ROLES]
                want = effective(i, truth)
                try:
                    got = bool(enf.enforce(nm, {}, {'roles': list(roles)}))
                except Exception as e:
                    got = 'EXC:' + type(e).__name__
                ctx.count('decisions')
                if got != want:
                    clean = without_predecessor(nm, roles) if pre else None
                    if isinstance(got, str):
                        key = 'enforce-raises'
                    elif pre and clean == want:
                        key = 'decision-depends-on-earlier-enforcer-sharing-the-defaults'
                    elif i == 0 and new_override:
                        key = 'new-name-override-not-governing'
                    elif renamed and case['old_ov'] == 'arbitrary':
                        key = 'old-name-override-not-governing'
                    elif renamed and case['old_ov'] == 'variant':
                        key = 'old-name-override-spelled-differently-from-deprecated-default-not-governing'
                    elif renamed and case['old_ov'] == 'alias':
                        key = 'alias-override-not-ignored'
                    elif case['flag']:
                        key = 'old-default-used-with-enforce_new_defaults'
                    else:
                        key = 'old-default-not-ored'
                    ctx.violation(key, case, {'policy': nm, 'roles': roles, 'expected': want, 'observed': got,
                                              'new_defaults': [d[1] for d in newdefs], 'old_default': olddef[1],
                                              'files': {'main': main, 'dir': dirf}, 'enforce_new_defaults': case['flag'],
                                              'predecessor': dict(pre, same_decision_without_predecessor=clean) if pre else None,
                                              'warning_knobs': [case.get('suppress_default_change'), case.get('suppress_deprecation')]})
                    return
        # ---- order: another enforcer over the SAME (unchanged) files meets registration and loading in another order;
        #      the table does not mention the order, so its decisions are judged by the unchanged `effective` ----
        od = case.get('order')
        if od:
            steps = []

            def knobs(e):
                if case.get('suppress_default_change'):
                    e.suppress_default_change_warnings = True
                if case.get('suppress_deprecation'):
                    e.suppress_deprecation_warnings = True

            def ask(e, nm, roles):
                steps.append('enforce(%s, roles=%s)' % (nm, ','.join(roles)))
                try:
                    e.enforce(nm, {}, {'roles': list(roles)})
                except Exception:
                    pass                                   # history, not the subject

            def register(e, idxs):
                for x in idxs:
                    steps.append('register_default(%s)' % defaults[x].name)
                    e.register_default(defaults[x])

            def early(e):
                if od['early'] == 'load_rules':
                    steps.append('load_rules()')
                    e.load_rules()
                else:
                    ask(e, newnames[od['mid'] % n] if od['early'] == 'enforce-new-name' else 'svc:unrelated', od['roles'])

            everything = list(range(len(defaults)))
            oe = policy.Enforcer(tree.conf(enforce_new_defaults=case['flag']))
            knobs(oe)
            if od['kind'] == 'load-register':
                early(oe)
                register(oe, everything)
            elif od['kind'] == 'load-partial-enforce-rest':
                first = [x for x in od['first'] if x < len(defaults)]
                early(oe)
                register(oe, first)
                ask(oe, newnames[od['mid'] % n], od['roles'])
                register(oe, [x for x in everything if x not in first])
            else:
                # a first life (defaults registered, possibly loaded / asked), Enforcer.clear(), then the same defaults again;
                # clear() leaves the enforcer detached from its files until a forced load, which is how it is taken back
                # into use here - before or after the registration
                register(oe, everything)
                if od['first_life'] == 'load_rules':
                    steps.append('load_rules()')
                    oe.load_rules()
                elif od['first_life'] == 'enforce':
                    ask(oe, newnames[od['mid'] % n], od['roles'])
                steps.append('clear()')
                oe.clear()
                knobs(oe)
                if od['reload_before_registering']:
                    steps.append('load_rules(force_reload=True)')
                    oe.load_rules(force_reload=True)
                    register(oe, everything)
                else:
                    register(oe, everything)
                    steps.append('load_rules(force_reload=True)')
                    oe.load_rules(force_reload=True)
            ctx.count('rows_order_' + od['kind'])
            files_read_first = od['kind'] != 'clear-reuse' or od['reload_before_registering']
            if files_read_first and renamed and case['old_ov'] in GOVERNS and (n > 1 or not new_override):
                ctx.count('rows_files_read_before_registration_old_override_governs')
            if files_read_first and not case['flag'] and any(olddef[1] != d[1] for d in newdefs):
                ctx.count('rows_files_read_before_registration_or_merge')
            for i, nm in enumerate(newnames):
                for roles in SUBSETS:
                    truth = [r in roles for r in ROLES]
                    want = effective(i, truth)
                    try:
                        got = bool(oe.enforce(nm, {}, {'roles': list(roles)}))
                    except Exception as e:
                        got = 'EXC:' + type(e).__name__
                    ctx.count('decisions')
                    if got != want:
                        if isinstance(got, str):
                            key = 'enforce-raises'
                        elif od['kind'] == 'load-register':
                            key = 'decision-differs-when-files-were-read-before-the-defaults-were-registered'
                        elif od['kind'] == 'load-partial-enforce-rest':
                            key = 'decision-differs-when-defaults-were-registered-in-two-batches-around-an-enforce'
                        else:
                            key = 'decision-differs-on-cleared-and-reused-enforcer'
                        ctx.violation(key, case, {'policy': nm, 'roles': roles, 'expected': want, 'observed': got,
                                                  'history_of_this_enforcer': steps,
                                                  'register_everything_then_load': 'gave the expected decisions on the same files',
                                                  'new_defaults': [d[1] for d in newdefs], 'old_default': olddef[1],
                                                  'files': {'main': main, 'dir': dirf}, 'enforce_new_defaults': case['flag']})
                        return
        # ---- phase 2: the operator edits the files; the same enforcer must now follow the table for the NEW files ----
        ph = case.get('phase2')
        if ph:
            ctx.count('phase2_cases')
            p_new = untuple(ph['new_override']) if ph['new_ov'] else None
            p_old = untuple(ph['old_override']) if ph['old_ov'] in GOVERNS else None
            if p_old and p_old[1] == olddef[1]:
                return
            main2, dir2 = {}, {}
            if p_new:
                (main2 if ph['loc_new'] == 'main' else dir2)[newnames[0]] = p_new[1]
            if renamed and ph['old_ov'] in GOVERNS:
                (main2 if ph['loc_old'] == 'main' else dir2)[oldname] = p_old[1]
            if renamed and ph['old_ov'] == 'variant':
                ctx.count('phase2_old_override_lexical_variant')
            if renamed and ph['old_ov'] == 'alias':
                (main2 if ph['loc_old'] == 'main' else dir2)[oldname] = 'rule:' + newnames[0]
            if ph['drop_main'] and not main2:
                tree.delete('policy.yaml')
            else:
                tree.write('policy.yaml', main2, 'json')
            if dir2:
                tree.write('pd/x.yaml', dir2, 'yaml-lines')
            else:
                tree.delete('pd/x.yaml')

            def effective2(i, truth):
                if i == 0 and p_new:
                    return expr.ev(p_new[0], truth)
                if renamed and ph['old_ov'] in GOVERNS:
                    return expr.ev(p_old[0], truth)
                if renamed and ph['old_ov'] == 'alias' and i > 0:
                    return effective2(0, truth)
                v = expr.ev(newdefs[i][0], truth)
                if not case['flag'] and olddef[1] != newdefs[i][1]:
                    v = v or expr.ev(olddef[0], truth)
                return v
            for i, nm in enumerate(newnames):
                for roles in SUBSETS:
                    truth = [r in roles for r in ROLES]
                    want = effective2(i, truth)
                    try:
                        got = bool(enf.enforce(nm, {}, {'roles': list(roles)}))
                    except Exception as e:
                        got = 'EXC:' + type(e).__name__
                    ctx.count('decisions')
                    if got != want:
                        ctx.violation('stale-merge-after-file-edit' if not isinstance(got, str) else 'enforce-raises', case,
                                      {'policy': nm, 'roles': roles, 'expected': want, 'observed': got,
                                       'files_before': {'main': main, 'dir': dirf}, 'files_now': {'main': main2, 'dir': dir2},
                                       'main_deleted': bool(ph['drop_main'] and not main2)})
                        return
    finally:
        tree.cleanup()
        if tree0 is not None:
            tree0.cleanup()


# ---------------------------------------------------------------------------------------------------------------------
# SPLIT stratum: ONE deprecated predecessor `svc:old`, 1-3 successors in a given registration order - renamed ones ('R') and
# at most one that keeps the old name with a changed default ('S') - each judged separately by the table, while every other
# attribute of the registered defaults varies (the table mentions none of them).
SPLIT_COMPS = (('R',), ('S',), ('R', 'S'), ('S', 'R'), ('R', 'R'), ('R', 'R', 'S'), ('R', 'S', 'R'), ('S', 'R', 'R'))
SPLIT_PER_ROW = {'quick': 4, 'thorough': 120}
SPLIT_SCOPES = (None, None, ['project'], ['system', 'project'], ['project', 'domain'], ['system'], ['domain', 'system'])
SPLIT_WHERE = ('dep', 'dep', 'default', 'both', 'none')
OLDNAME = 'svc:old'


def split_skeleton():
    for comp, flag, old_ov, new_ov in itertools.product(SPLIT_COMPS, (True, False), ('absent', 'arbitrary', 'alias'),
                                                        (False, True)):
        if 'R' not in comp and (old_ov == 'alias' or new_ov):
            continue               # nothing renamed: no alias target, and the old-name entry IS the new-name override
        yield dict(kind='split', comp=list(comp), flag=flag, old_ov=old_ov, new_ov=new_ov)


def split_fill(rnd, row):
    case = dict(row)
    comp = row['comp']
    succ, r = [], 0
    for kd in comp:
        nm = OLDNAME
        if kd == 'R':
            nm, r = 'svc:new%d' % r, r + 1
        succ.append(dict(kind=kd, name=nm, default=gen_expr(rnd),
                         removal=rnd.random() < 0.5, where=rnd.choice(SPLIT_WHERE), reason=rnd.randrange(len(REASONS)),
                         removal_reason=rnd.choice(['going away', '', 'rule:svc:old']), removal_since=rnd.choice(['N', '', '2025.1']),
                         scope=rnd.randrange(len(SPLIT_SCOPES)), documented=rnd.random() < 0.4))
    case['succ'] = succ
    case['olddef'] = gen_expr(rnd)
    if rnd.random() < 0.25:
        case['olddef'] = rnd.choice(succ)['default']          # one successor kept the check string
    renamed = [s['name'] for s in succ if s['kind'] == 'R']
    case['old_override'] = gen_expr(rnd) if row['old_ov'] == 'arbitrary' else None
    case['alias_to'] = rnd.choice(renamed) if row['old_ov'] == 'alias' else None
    case['new_ov_name'] = rnd.choice(renamed) if row['new_ov'] else None
    case['new_override'] = gen_expr(rnd) if row['new_ov'] else None
    case['loc_old'] = rnd.choice(['main', 'dir'])
    case['loc_new'] = rnd.choice(['main', 'dir'])
    case['main_exists'] = rnd.random() < 0.7
    case['history'] = rnd.choice(['register-load', 'register-load', 'load-register', 'enforce-register'])
    case['enforce_scope'] = rnd.random() < 0.5
    case['suppress_default_change'] = rnd.random() < 0.2
    case['suppress_deprecation'] = rnd.random() < 0.2
    return case


def check_split(ctx, case):
    from oslo_policy import policy
    succ = case['succ']
    names = [s['name'] for s in succ]
    defs = [untuple(s['default']) for s in succ]
    olddef = untuple(case['olddef'])
    old_override = untuple(case['old_override']) if case['old_override'] else None
    new_override = untuple(case['new_override']) if case['new_override'] else None
    flag = case['flag']
    # a scope that does not contain the (project) scope of the probe credentials is only ever declared with scope enforcement
    # off; then, as with a matching scope, the decision is that of the check
    enforce_scope = case['enforce_scope'] and all(
        SPLIT_SCOPES[s['scope']] is None or 'project' in SPLIT_SCOPES[s['scope']] for s in succ)
    main, dirf = {}, {}
    ov = {}                                       # name -> ('expr', ast) | ('alias', target name): what the operator wrote
    if case['old_ov'] == 'arbitrary':
        (main if case['loc_old'] == 'main' else dirf)[OLDNAME] = old_override[1]
        ov[OLDNAME] = ('expr', old_override[0], old_override[1])
    elif case['old_ov'] == 'alias':
        (main if case['loc_old'] == 'main' else dirf)[OLDNAME] = 'rule:' + case['alias_to']
        ov[OLDNAME] = ('alias', case['alias_to'], 'rule:' + case['alias_to'])
    if new_override:
        (main if case['loc_new'] == 'main' else dirf)[case['new_ov_name']] = new_override[1]
        ov[case['new_ov_name']] = ('expr', new_override[0], new_override[1])

    def make_defaults(order, plain=False):
        out = []
        for k in order:
            s = succ[k]
            reason, since = REASONS[s['reason']]
            on_dep = plain or s['where'] in ('dep', 'both')
            dep = policy.DeprecatedRule(OLDNAME, olddef[1], deprecated_reason=(reason or None) if on_dep else None,
                                        deprecated_since=(since or None) if on_dep else None)
            kw = dict(deprecated_rule=dep)
            if not plain:
                if s['removal']:
                    kw.update(deprecated_for_removal=True, deprecated_reason=s['removal_reason'],
                              deprecated_since=s['removal_since'])
                elif s['where'] in ('default', 'both'):
                    kw.update(deprecated_reason=reason or None, deprecated_since=since or None)      # legacy placement
                if SPLIT_SCOPES[s['scope']] is not None:
                    kw['scope_types'] = list(SPLIT_SCOPES[s['scope']])
            if s['documented'] and not plain:
                out.append(policy.DocumentedRuleDefault(s['name'], defs[k][1], 'what %s does' % s['name'],
                                                        [{'path': '/v1/x', 'method': 'GET'}], **kw))
            else:
                out.append(policy.RuleDefault(s['name'], defs[k][1], **kw))
        return out

    tree = files.Tree(dirs=('pd',))
    try:
        if main or case['main_exists']:
            tree.write('policy.yaml', main, 'json')
        if dirf:
            tree.write('pd/x.yaml', dirf, 'yaml-lines')

        def build(order, plain=False, history=None):
            e = policy.Enforcer(tree.conf(enforce_new_defaults=flag, enforce_scope=enforce_scope))
            if case.get('suppress_default_change'):
                e.suppress_default_change_warnings = True
            if case.get('suppress_deprecation'):
                e.suppress_deprecation_warnings = True
            h = history or case['history']
            if h == 'load-register':
                e.load_rules()
            elif h == 'enforce-register':
                try:
                    e.enforce('svc:unrelated', {}, {'roles': []})
                except Exception:
                    pass
            for d in make_defaults(order, plain):
                e.register_default(d)
            return e

        def decide(e, nm, roles):
            try:
                return bool(e.enforce(nm, {}, {'roles': list(roles)}))
            except Exception as exc:
                return 'EXC:' + type(exc).__name__

        # ---- reference: the statement's table, for each successor separately ----
        def ev_entry(entry, truth):
            if entry[0] == 'alias':
                return effective(names.index(entry[1]), truth)            # `rule:<name>`: whatever that policy decides
            return expr.ev(entry[1], truth)

        def effective(k, truth):
            nm = names[k]
            if nm in ov:
                return ev_entry(ov[nm], truth)                               # override under the new name governs
            if succ[k]['kind'] == 'R' and OLDNAME in ov and not (ov[OLDNAME][0] == 'alias' and ov[OLDNAME][1] == nm):
                return ev_entry(ov[OLDNAME], truth)                          # override under the old, renamed name governs
            v = expr.ev(defs[k][0], truth)
            if not flag and olddef[1] != defs[k][1]:
                v = v or expr.ev(olddef[0], truth)
            return v

        def open_(k):
            # statement: an old-name override textually equal to the deprecated default is unconstrained (renamed successors)
            return (succ[k]['kind'] == 'R' and names[k] not in ov and OLDNAME in ov and ov[OLDNAME][2] == olddef[1])

        by_old = [k for k in range(len(succ)) if succ[k]['kind'] == 'R' and names[k] not in ov and OLDNAME in ov
                  and not (ov[OLDNAME][0] == 'alias' and ov[OLDNAME][1] == names[k]) and not open_(k)]
        by_or = [k for k in range(len(succ)) if names[k] not in ov and k not in by_old and not open_(k)
                 and not flag and olddef[1] != defs[k][1]]
        ctx.case(case, nontrivial=bool(by_old or by_or), stratum='split')
        ctx.count('split_cases')
        if 'S' in case['comp'] and case['comp'].index('S') > 0 and case['old_ov'] == 'absent':
            ctx.count('split_renamed_registered_before_same_name_successor_no_old_override')
        if any(succ[k]['removal'] for k in by_old):
            ctx.count('split_for_removal_successor_old_override_governs')
        if any(succ[k]['removal'] for k in by_or):
            ctx.count('split_for_removal_successor_or_merge')
        order = list(range(len(succ)))
        enf = build(order)
        for k, nm in enumerate(names):
            if open_(k):
                ctx.unconstrained('old-override-equals-deprecated-default')
                continue
            for roles in SUBSETS:
                truth = [r in roles for r in ROLES]
                want = effective(k, truth)
                got = decide(enf, nm, roles)
                ctx.count('decisions')
                if got == want:
                    continue
                # diagnosis from further observations: the same files and check strings with (1) defaults that carry nothing
                # but name, check string and DeprecatedRule, (2) this successor registered before its siblings
                plain = decide(build(order, plain=True), nm, roles)
                rev = decide(build([k] + [x for x in order if x != k]), nm, roles) if len(order) > 1 else None
                if isinstance(got, str):
                    key = 'enforce-raises'
                elif plain == want:
                    key = 'other-attribute-of-the-registered-default-changes-the-deprecated-rule-merge'
                elif rev == want:
                    key = 'decision-depends-on-registration-order-of-successors-sharing-one-predecessor'
                elif nm in ov:
                    key = 'new-name-override-not-governing'
                elif k in by_old:
                    key = 'old-name-override-not-governing'
                elif succ[k]['kind'] == 'R' and OLDNAME in ov:
                    key = 'alias-override-not-ignored'
                elif flag:
                    key = 'old-default-used-with-enforce_new_defaults'
                else:
                    key = 'old-default-not-ored'
                s = succ[k]
                ctx.violation(key, case, {'policy': nm, 'roles': roles, 'expected': want, 'observed': got,
                                          'successors_in_registration_order': [
                                              dict(name=x['name'], default=untuple(x['default'])[1],
                                                   deprecated_for_removal=x['removal'], scope_types=SPLIT_SCOPES[x['scope']],
                                                   documented=x['documented'], reason_since_on=x['where']) for x in succ],
                                          'deprecated': {'name': OLDNAME, 'check_str': olddef[1]},
                                          'files': {'main': main, 'dir': dirf}, 'enforce_new_defaults': flag,
                                          'enforce_scope': enforce_scope, 'history': case['history'],
                                          'same_decision_with_bare_defaults': plain,
                                          'same_decision_with_this_successor_registered_first': rev,
                                          'this_successor': dict(deprecated_for_removal=s['removal'], kind=s['kind'])})
                return
    finally:
        tree.cleanup()


def run_split(ctx):
    rows = list(split_skeleton())
    per = SPLIT_PER_ROW[ctx.tier]
    done = True
    ctx.reserve(0.2)
    for j in range(per):
        for r, row in enumerate(rows):
            idx = r * per + j + 1
            if not ctx.mine(idx):
                continue
            if ctx.expired():
                done = False
                break
            check_split(ctx, split_fill(ctx.sub_rnd('split', idx), row))
        if not done:
            break
    ctx.release()
    ctx.stratum('split-skeleton', exhaustive=done)


def run(ctx):
    run_split(ctx)
    rows = list(skeleton())
    per = PER_ROW[ctx.tier]
    done = True
    # case numbers are those of the row-major enumeration (row r, filling j -> r * per + j + 1), but the walk is
    # filling-major: a run cut short by its time budget loses the last fillings of EVERY row, not all fillings of the last rows
    for j in range(per):
        for r, row in enumerate(rows):
            idx = r * per + j + 1
            if not ctx.mine(idx):
                continue
            if ctx.expired():
                done = False
                break
            case = fill(ctx.sub_rnd('row', idx), row, j)
            check_case(ctx, case)
            if idx % 150 == 0:
                ctx.sample({k: (v[1] if isinstance(v, tuple) else [x[1] for x in v] if k == 'newdefs' else v)
                            for k, v in case.items()})
        if not done:
            break
    ctx.count('skeleton_rows', len(rows) if ctx.shard == 0 else 0)
    ctx.stratum('row-skeleton', exhaustive=done)
    ctx.stratum('check-strings', exhaustive=False)


def replay(ctx, case):
    if case.get('kind') == 'split':
        return check_split(ctx, case)
    check_case(ctx, case)
