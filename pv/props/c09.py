"""C09 - effective policy is defaults, then policy file, then policy.d in sorted order.

Two monitors on the real Enforcer:
 * layering: every layer defines a name as `role:<layer id>`; after load, exactly the role of the last layer in the
   documented order may pass (decisions, not internals, are observed);
 * file selection: the finite table (how the option was set x which files exist x fallback switch x explicit argument)
   enumerated completely; the chosen file is identified through the decisions it produces."""
import atexit
import copy
import itertools
import json
import os
import random

from pv.core import env
from pv.gen import files

ID = 'C09'
LEVEL = 'exploration'
TECHNIQUE = ('differential runtime monitor: decisions of a real file-backed Enforcer vs a fold of the layers in the '
             'documented order; exhaustive file-selection table')
RULE = ('strata: X = exhaustive layering of 2 names over 5 layer slots (registered default, main file, d1/a, d1/b, d2/a: '
        '1024 assignments); Y = random layerings of 4 names over registered default, main file (present/absent), three '
        'configured directories plus a configured-but-missing one, files B.yaml a.yaml a10.json a2.yaml .hidden.yaml '
        'sub/x.yaml Z.yaml z.json m.yaml created in shuffled order, every file independently JSON / YAML / line-style YAML, paths absolute or relative to a configuration directory; '
        'Z = exhaustive file-selection table 7 ways of setting policy_file x 8 existence patterns x fallback switch x '
        'explicit argument (none, a fourth file, or one of the three names themselves) = 560 rows. Each configuration is decided for every name under every single-role credential; in half of the configurations the registered defaults declare scope types and every decision is repeated with a wrongly scoped token (must be denied whichever layer wins). '
        'Non-trivial = at least one name is defined in two or more layers; distinct = distinct configuration. '
        'H = on about half of the X and Y configurations the living enforcer then goes through a history of 2-3 steps, each step one or two '
        'file operations (drop names from a file, re-save the main file / a policy.d file with identical content, re-save with changed '
        'content, delete or add a policy.d file; all through the logical clock so that file and directory mtimes advance) followed by an '
        'implicit, explicit or forced load, and every name is decided again against the fold of the files as they are now. '
        'W = Y configurations (mostly those with relative names) and the whole file-selection table (stratum ZC = 560 rows with every '
        'look-alike + the 112 rows without explicit argument with only the look-alikes of what the configuration directory lacks) are also '
        'run with the process working directory set to a decoy directory holding files and directories of the same relative names with '
        'other contents: relative names are looked up in the configuration directories '
        'only, what is missing there is skipped. '
        'I = layerings whose directories hold many ignored entries: per configured directory zero to four dot-files whose names are '
        'neighbours in the sorted listing (.a.yaml.swp .b.yaml.swp ..yaml .#x.yaml .x.yaml~ ..., also the dot-twin .a.yaml of a regular '
        'a.yaml; the count in the first / a middle / the last directory is enumerated 0-4, the rest drawn), regular names that sort '
        'before the dot (-a.yaml #b.yaml), and zero to three sub-directories (plain, dot-named, named like a policy file, nested, empty; '
        'neighbours in sorted order) that contain files; every ignored file defines EVERY name (also the never-defined one) with a role '
        'of its own (a few hold no policy text at all: empty or editor swap bytes), is created in shuffled order with the regular files, '
        'and no ignored role may ever pass; part of these configurations then go through a history in which dot-files also appear and '
        'disappear (an editor opening / closing a file) between the loads. '
        'R / RX = layerings in which, for some names, one or more FILE layers (main file, any directory file) spell exactly the check '
        'string of the registered default - textually equal, or a textual variant of it with extra spaces / parentheses - while the '
        'other layers keep their own roles: the effective definition is still the last layer\'s, so when the last definer restates '
        'the default the decision is the default\'s and no earlier layer\'s role may pass (RX = exhaustive for one name: main file, '
        'd1/a, d1/b, d2/a each absent / own role / default restated verbatim / restated as a variant = 256 layerings; R = random over '
        'the files of Y, about a third then go through a history whose re-saved files may restate the default as well); the same '
        'layerings carry the ROUTE by which policy_file and policy_dirs are configured as a dimension: set_override with a list (as '
        'everywhere else), conf.set_default, or a real configuration file given as --config-file that holds [oslo_policy] with '
        'policy_file = ... and one policy_dirs = ... line per directory (absolute names, or relative ones that resolve against the '
        'directory of the configuration file); the expected layering does not depend on the route. '
        'P = one world (registered defaults, main file, policy directories: none configured / only a missing one / existing but '
        'empty / holding files / holding files and links - enumerated) over which two or three enforcers are built one after the '
        'other in the same process, each on the same ConfigOpts or on one of its own naming the same paths (any route), each '
        'deciding every name / loading / loading with force / staying idle before the next is built: every enforcer - the earlier '
        'ones when built, the last one, the earlier ones again afterwards and after every step of a history - must decide by the '
        'same documented fold of the files as they are now. '
        'L = layerings whose policy directories hold entries that are symbolic links to regular files kept elsewhere (relative or '
        'absolute link text; target outside the configured directories, in a dot-named or plain sub-directory of one, reached '
        'through a linked directory as in a mounted ConfigMap, or through a second link; target names drawn so that they sort '
        'differently from the entry names): a linked entry that is not a dot-file is a file of the directory and takes the place '
        'its OWN name gives it; dot-named links are ignored; histories also switch a link to another file. Entries that are links '
        'to directories are present too: whether those count as sub-directories is left open by the statement, so the files below '
        'them define only a name of their own and either outcome is accepted (counted as unconstrained); dangling links are not '
        'generated (the unchanged library cannot stat them).')
ASSUMPTIONS = ['lexicographic order = Python sorted() of the file names (code-point order)',
               'oslo_policy.opts._options is swapped for a pristine deep copy around cases that call set_defaults',
               'single-role credentials distinguish the layers because each layer uses its own role',
               'a file layer that restates the registered default is observed through the role of the registered default: such a '
               'layer and the default decide alike, which is all the statement asks of it (strata R / RX)',
               'a configuration file holds a multi-valued option as one line per value (oslo.config accumulates repeated keys in '
               'file order); the configuration file lives in the sandbox tree and no default configuration files / directories of '
               'the host are read',
               'a symbolic link to a regular file, named without a leading dot, inside a configured directory is one of the '
               'files of that directory (the statement excludes only dot-files and sub-directories); links always resolve',
               'enforcers of one process over the same world are independent observers of the statement: none is exempt '
               'because another one has read the files before']
LEVEL_TEXT = ('The file-selection table and the small layering space are enumerated completely; larger layerings '
              '(sort order, dot-files, sub-directories, missing directories, formats) are sampled. Finite parts exhaustive, '
              'the rest structured sampling.')
LEVEL_NOTE = 'trusted: the fold that computes the expected effective layer; PyYAML/json as writers'
PLAN = {'quick': dict(shards=4, wall=120), 'thorough': dict(shards=16, wall=400)}
MIN = {'evaluations': 600, 'decisions': 5000, 'allow_decisions': 300, 'file_selection_rows': 560,
       'configs_with_shadowing': 300, 'scoped_decisions': 500, 'reloads_after_rewrite': 200,
       'reload_histories': 300, 'history_steps': 700, 'history_steps_two_operations': 200,
       'history_steps_main_resaved_identical': 60, 'history_steps_names_dropped_or_file_deleted': 150,
       'history_decisions': 5000, 'cwd_decoy_layerings': 100, 'cwd_decoy_relative_layerings': 80,
       'cwd_decoy_name_missing_in_config_dir': 80, 'file_selection_rows_cwd_decoy': 672,
       'ignored_entry_layerings': 160, 'ignored_entry_decisions': 4000, 'layerings_two_or_more_dot_files_in_one_directory': 100,
       'layerings_three_or_more_dot_files_in_one_directory': 60, 'layerings_adjacent_dot_files_in_first_directory': 40,
       'layerings_adjacent_dot_files_in_middle_directory': 40, 'layerings_adjacent_dot_files_in_last_directory': 40,
       'layerings_dot_file_beside_same_named_regular_file': 50, 'layerings_several_subdirectories_in_one_directory': 60,
       'layerings_dot_named_subdirectory_with_files': 60, 'histories_with_dot_file_appearing_or_disappearing': 25,
       'layerings_file_layer_restates_registered_default': 250, 'layerings_restated_default_as_textual_variant': 120,
       'layerings_last_definer_restates_default_after_differing_layer': 120,
       'layerings_restating_layer_between_differing_layers': 40,
       'history_steps_last_definer_restates_default_after_differing_layer': 30,
       'restated_default_decisions': 4000,
       'layerings_configured_by_set_override': 1500, 'layerings_configured_by_set_default': 100,
       'layerings_configured_by_config_file': 100, 'layerings_config_file_two_or_more_policy_dirs_lines': 100,
       'layerings_config_file_relative_names': 30, 'layerings_config_file_with_missing_directory_line': 40,
       'worlds_with_several_enforcers': 60, 'worlds_later_enforcer_main_file_no_existing_directory': 12,
       'worlds_later_enforcer_main_file_and_directories': 35, 'worlds_enforcers_sharing_one_conf': 45,
       'worlds_enforcers_with_confs_of_their_own': 45, 'worlds_earlier_enforcer_idle_so_far': 20,
       'worlds_earlier_enforcer_has_loaded': 50, 'worlds_three_enforcers': 30, 'worlds_several_enforcers_then_history': 18,
       'decisions_by_other_enforcers_of_the_process': 6000,
       'linked_entry_layerings': 55, 'layerings_entry_is_absolute_link_to_file': 45, 'layerings_entry_is_relative_link_to_file': 45,
       'layerings_entry_links_through_another_link': 35, 'layerings_entry_is_link_to_directory': 40,
       'layerings_linked_file_is_last_definer_of_a_shadowed_name': 35,
       'layerings_order_by_link_name_differs_from_order_by_target_name': 25, 'histories_with_link_switched_to_another_file': 15}
ANCHORS = ['oslo_policy.policy:Enforcer.load_rules', 'oslo_policy.policy:Enforcer._walk_through_policy_directory',
           'oslo_policy.policy:pick_default_policy_file', 'oslo_policy.policy:parse_file_contents',
           'oslo_policy.policy:Enforcer.enforce']
REQUIRED_ANCHORS = ['oslo_policy.policy:Enforcer.enforce', 'oslo_policy.policy:Enforcer.load_rules']
N = {'quick': 1500, 'thorough': 60000}
N_IGNORED = {'quick': 320, 'thorough': 12000}
N_RESTATE = {'quick': 480, 'thorough': 15000}
# spellings of the registered default's check string (the default itself is registered as DEFAULT_SPELLINGS[0]): verbatim, extra
# spaces, parentheses, both - a file layer that restates the default uses one of them (version -1 - <index>, see role_of)
DEFAULT_SPELLINGS = ['role:default', '  role:default ', '(role:default)', '( role:default )']
ROUTES = ['override', 'set_default', 'config_file']

FILESETS = {'d1': ['B.yaml', 'a.yaml', 'a10.json', 'a2.yaml', '.hidden.yaml'], 'd2': ['z.json', 'Z.yaml'], 'd3': ['m.yaml']}
DIRS = ['d1', 'd2', 'dmissing', 'd3']


def lid_role(lid):
    return lid.replace('/', '_').replace('.', '_')


def role_of(lid, ver=0):
    """Role used by version `ver` of layer `lid` (version 0 = the content the configuration starts with; a negative version =
    the layer restates the registered default, spelling -1 - ver: the role is the registered default's)."""
    if ver < 0:
        return 'default'
    return lid_role(lid) + ('_v%d' % ver if ver else '')


def text_of(lid, ver=0):
    """Check string that version `ver` of layer `lid` gives a name."""
    if ver < 0:
        return DEFAULT_SPELLINGS[(-1 - ver) % len(DEFAULT_SPELLINGS)]
    return 'role:' + role_of(lid, ver)


def first_version(case, lid, n):
    """Version of name n in layer lid as the configuration starts: 0, or the restated default (case['restate'] = {lid: {name:
    index of the spelling}}; only file layers restate, and only names the registered default defines)."""
    k = ((case.get('restate') or {}).get(lid) or {}).get(n)
    return 0 if k is None or lid == 'default' else -1 - k


def count_restated(ctx, per_name, prefix):
    """per_name = {name: [version, ...]} of the FILE layers that define the name, in the documented order (names without a
    registered default left out).  Counts the configurations in which a layer restates the default / is the last definer while an
    earlier one differs / sits between two layers that differ."""
    some = variant = last = between = False
    for n, vs in per_name.items():
        if not any(v < 0 for v in vs):
            continue
        some = True
        variant = variant or any(v < -1 for v in vs)
        if vs[-1] < 0 and any(v >= 0 for v in vs[:-1]):
            last = True
        if any(vs[k] < 0 and any(v >= 0 for v in vs[:k]) and any(v >= 0 for v in vs[k + 1:]) for k in range(len(vs))):
            between = True
    if prefix == 'layerings':
        if some:
            ctx.count('layerings_file_layer_restates_registered_default')
        if variant:
            ctx.count('layerings_restated_default_as_textual_variant')
        if between:
            ctx.count('layerings_restating_layer_between_differing_layers')
    if last:
        ctx.count(prefix + '_last_definer_restates_default_after_differing_layer')
    return {n for n, vs in per_name.items() if vs and vs[-1] < 0 and any(v >= 0 for v in vs[:-1])}


class _NoCount:
    """Stands in for ctx where a second ConfigOpts of the same layering is made (the layering is counted once)."""

    @staticmethod
    def count(*a, **k):
        pass


def make_conf(ctx, tree, case):
    """The ConfigOpts of a layering, policy_file / policy_dirs configured by case['route']: set_override (default), set_default, or
    a real configuration file in the tree.  Nothing of the host's configuration is read on any route."""
    route = case.get('route') or 'override'
    relative = bool(case.get('relative'))
    dirs = [tree.path(d) for d in case['dirs']]
    ctx.count('layerings_configured_by_' + {'override': 'set_override', 'set_default': 'set_default', 'config_file': 'config_file'}[route])
    if route == 'override':
        return tree.conf(policy_dirs=dirs, relative=relative)
    from oslo_config import cfg
    from oslo_policy import opts
    rel = (lambda p: os.path.relpath(p, tree.root)) if relative else (lambda p: p)
    conf = cfg.ConfigOpts()
    if route == 'config_file':
        lines = ['policy_dirs = %s' % rel(d) for d in dirs]
        lines.insert(case.get('cfgpos', 0) % (len(lines) + 1), 'policy_file = %s' % rel(tree.main))
        path = tree.write_text('svc.conf', '[DEFAULT]\n\n[oslo_policy]\n' + '\n'.join(lines) + '\n')
        # relative names are looked up in the directory of the configuration file (= the tree root)
        conf(['--config-file', path], default_config_dirs=[], default_config_files=[])
        opts._register(conf)
        if len(dirs) >= 2:
            ctx.count('layerings_config_file_two_or_more_policy_dirs_lines')
        if relative:
            ctx.count('layerings_config_file_relative_names')
        if 'dmissing' in case['dirs']:
            ctx.count('layerings_config_file_with_missing_directory_line')
        return conf
    conf(['--config-dir', tree.root] if relative else [], default_config_dirs=[], default_config_files=[])
    opts._register(conf)
    conf.set_default('policy_file', rel(tree.main), group='oslo_policy')
    conf.set_default('policy_dirs', [rel(d) for d in dirs], group='oslo_policy')
    return conf


def fold_order(dirs, cur, pth):
    """The layers that exist NOW, in the documented order (dot-files left out)."""
    order = [lid for lid in ('default', 'main') if lid in cur]
    for d in dirs:
        in_dir = sorted((lid for lid in cur if pth.get(lid) and os.path.dirname(pth[lid]) == d),
                        key=lambda lid: os.path.basename(pth[lid]))
        order += [lid for lid in in_dir if not os.path.basename(pth[lid]).startswith('.')]
    return order


def fold_now(dirs, cur, pth):
    """Expected effective layer of every name for the files as they are NOW: cur = {lid: {name: version}} of the registered
    default and of every file that currently exists, pth = {lid: path relative to the tree}."""
    eff = {}
    for lid in fold_order(dirs, cur, pth):
        for n, v in cur[lid].items():
            eff[n] = role_of(lid, v)
    return eff


class decoy_cwd:
    """Working directory of the (single-threaded) worker process set to a directory outside every configuration directory that
    holds look-alikes: files / directories with the relative names the configuration uses, with other contents (role CWD...).
    kind 'all': every name in `entries`; kind 'missing': only those that the configuration directory `root` lacks."""

    def __init__(self, kind, root, entries):
        self.kind, self.root, self.entries = kind, root, entries
        self.tree = self.old = None
        self.lacking = 0

    def __enter__(self):
        if not self.kind or not os.path.isabs(self.root):
            return self
        wanted = []
        for rel, content in self.entries:
            missing = not os.path.lexists(os.path.join(self.root, rel.split('/')[0]))
            if self.kind == 'missing' and not missing:
                continue
            if missing:
                self.lacking += 1
            wanted.append((rel, content))
        # nothing may ever read or write a decoy, so one directory per distinct content serves the whole worker process
        key = json.dumps(wanted, sort_keys=True)
        self.tree = _DECOYS.get(key)
        if self.tree is None or not os.path.isdir(self.tree.root):
            if not _DECOYS:
                atexit.register(_drop_decoys)
            self.tree = _DECOYS[key] = files.Tree(dirs=())
            for rel, content in wanted:
                if '/' in rel:
                    self.tree.mkdir(os.path.dirname(rel))
                self.tree.write(rel, content, 'json')
        self.old = os.getcwd()
        os.chdir(self.tree.root)
        return self

    def __exit__(self, *a):
        if self.old is not None:
            os.chdir(self.old)
        return False


_DECOYS = {}


def _drop_decoys():
    for t in _DECOYS.values():
        t.cleanup()
    _DECOYS.clear()


SWAP_BYTES = 'b0VIM 8.2\x00\x00\x00\x00\x10\x00\x00root\x00\x00\x00\x00\x00\x00\x00\x00\x00\x00\x00U3210#"! \x13\x12'


def write_ignored(tree, names, e):
    """One entry the directory walk has to ignore (a dot-file, or anything below a sub-directory of a configured directory):
    e = {path, role, fmt, content}; content 'policy' = defines EVERY name as role:<role>, 'empty' / 'swap' = no policy text,
    'dir' = an empty sub-directory.  Directories are made level by level so that each one carries a logical mtime."""
    parts = e['path'].split('/')
    upto = len(parts) if e['content'] == 'dir' else len(parts) - 1
    for k in range(2, upto + 1):
        sub = '/'.join(parts[:k])
        if not os.path.isdir(tree.path(sub)):
            tree.mkdir(sub)
    if e['content'] == 'policy':
        tree.write(e['path'], {n: 'role:' + e['role'] for n in names}, e['fmt'])
    elif e['content'] == 'empty':
        tree.write_text(e['path'], '')
    elif e['content'] == 'swap':
        tree.write_text(e['path'], SWAP_BYTES)


def count_ignored(ctx, case):
    """Coverage counters of stratum I, computed from the configuration that is about to run."""
    ign = case['ignored']
    regular = {l[1] for l in case['layers'] if l[1]}
    real = [d for d in case['dirs'] if d != 'dmissing']
    dots, subs, dotsubs, twin = {}, {}, set(), False
    for e in ign:
        parts = e['path'].split('/')
        if len(parts) == 2 and e['content'] != 'dir':
            dots[parts[0]] = dots.get(parts[0], 0) + 1
            twin = twin or (parts[0] + '/' + parts[1][1:]) in regular
        else:
            subs.setdefault(parts[0], set()).add(parts[1])
            if parts[1].startswith('.') and e['content'] != 'dir':
                dotsubs.add(parts[0] + '/' + parts[1])
    ctx.count('ignored_entry_layerings')
    if any(v >= 2 for v in dots.values()):
        ctx.count('layerings_two_or_more_dot_files_in_one_directory')
    if any(v >= 3 for v in dots.values()):
        ctx.count('layerings_three_or_more_dot_files_in_one_directory')
    for pos, d in enumerate(real):
        if dots.get(d, 0) >= 2:
            ctx.count('layerings_adjacent_dot_files_in_%s_directory' % ('first' if pos == 0 else 'last' if pos == len(real) - 1 else 'middle'))
    if twin:
        ctx.count('layerings_dot_file_beside_same_named_regular_file')
    if any(len(v) >= 2 for v in subs.values()):
        ctx.count('layerings_several_subdirectories_in_one_directory')
    if dotsubs:
        ctx.count('layerings_dot_named_subdirectory_with_files')
    if any(op['lid'].rsplit('/', 1)[-1].startswith('.') for step in case.get('history') or () for op in step['ops']):
        ctx.count('histories_with_dot_file_appearing_or_disappearing')


def _mkdirs(tree, rel_dir):
    """Directories below the tree root, level by level (each one carries a logical mtime)."""
    parts = [x for x in rel_dir.split('/') if x]
    for k in range(1, len(parts) + 1):
        sub = '/'.join(parts[:k])
        if not os.path.lexists(tree.path(sub)):
            tree.mkdir(sub)


def write_linked(tree, path, spec, mapping, fmt):
    """A policy directory entry `path` that is a symbolic link to a regular file kept elsewhere.  spec = {to: where the file
    really is (outside the configured directories, or in a dot-named / plain sub-directory of one), abs: absolute link text,
    dirlink: [link, directory] = the entry points THROUGH a link to the directory that holds the file (mounted ConfigMap:
    a.yaml -> ..data/a.yaml, ..data -> ..version/), via: an intermediate link (entry -> link -> file)}."""
    real = spec['to']
    _mkdirs(tree, os.path.dirname(real))
    tree.write(real, mapping, fmt)
    aim = real
    if spec.get('dirlink'):
        lk, rd = spec['dirlink']
        if not os.path.lexists(tree.path(lk)):
            tree.symlink(lk, rd, absolute=bool(spec.get('abs')))
        aim = lk + '/' + os.path.basename(real)
    if spec.get('via'):
        _mkdirs(tree, os.path.dirname(spec['via']))
        tree.symlink(spec['via'], aim, absolute=not spec.get('abs'))
        aim = spec['via']
    tree.symlink(path, aim, absolute=bool(spec.get('abs')))


def write_linkdir(tree, e, free):
    """A policy directory entry that is a symbolic link to a DIRECTORY kept elsewhere; the files in that directory define the
    free name only, with the entry's own role.  e = {path, to, abs, role, files: [[name, fmt], ...]}."""
    _mkdirs(tree, e['to'])
    for fn, fmt in e['files']:
        tree.write(e['to'] + '/' + fn, {free: 'role:' + e['role']}, fmt)
    tree.symlink(e['path'], e['to'], absolute=bool(e.get('abs')))


def count_links(ctx, case):
    """Coverage counters of stratum L, computed from the configuration that is about to run."""
    links = case.get('links') or {}
    applied = {lid: sp for lid, sp in links.items() if not os.path.basename(lid).startswith('.')}
    if applied:
        ctx.count('linked_entry_layerings')
    if any(sp.get('abs') for sp in applied.values()):
        ctx.count('layerings_entry_is_absolute_link_to_file')
    if any(not sp.get('abs') for sp in applied.values()):
        ctx.count('layerings_entry_is_relative_link_to_file')
    if any(sp.get('dirlink') or sp.get('via') for sp in applied.values()):
        ctx.count('layerings_entry_links_through_another_link')
    if case.get('linkdirs'):
        ctx.count('layerings_entry_is_link_to_directory')
    # a name whose last definer (documented order, by the names of the ENTRIES) is a linked file while another layer defines it too
    defs_of = {l[0]: l[2] for l in case['layers']}
    doc = [lid for lid in _documented_order(case)]
    for n in case['names']:
        definers = [lid for lid in doc if n in defs_of[lid]]
        if definers and definers[-1] in applied and (len(definers) > 1 or any(l[0] == 'default' and n in l[2] for l in case['layers'])):
            ctx.count('layerings_linked_file_is_last_definer_of_a_shadowed_name')
            break
    for d in case['dirs']:
        entries = [lid for lid in doc if lid != 'main' and os.path.dirname(lid) == d]
        if entries != sorted(entries, key=lambda lid: os.path.basename((applied.get(lid) or {}).get('to', lid))):
            ctx.count('layerings_order_by_link_name_differs_from_order_by_target_name')
            break
    if any(op['op'] == 'relink' for step in case.get('history') or () for op in step['ops']):
        ctx.count('histories_with_link_switched_to_another_file')


def count_process(ctx, case):
    """Coverage counters of stratum P (several enforcers in one process over one world)."""
    before = case['before']
    existing = [d for d in case['dirs'] if d != 'dmissing']
    main = any(l[0] == 'main' and l[2] for l in case['layers'])
    ctx.count('worlds_with_several_enforcers')
    if main and not existing:
        ctx.count('worlds_later_enforcer_main_file_no_existing_directory')
    if main and existing:
        ctx.count('worlds_later_enforcer_main_file_and_directories')
    if any(b['conf'] == 'same' for b in before):
        ctx.count('worlds_enforcers_sharing_one_conf')
    if any(b['conf'] != 'same' for b in before):
        ctx.count('worlds_enforcers_with_confs_of_their_own')
    if any(b['use'] == 'none' for b in before):
        ctx.count('worlds_earlier_enforcer_idle_so_far')
    if any(b['use'] != 'none' for b in before):
        ctx.count('worlds_earlier_enforcer_has_loaded')
    if len(before) >= 2:
        ctx.count('worlds_three_enforcers')
    if case.get('history'):
        ctx.count('worlds_several_enforcers_then_history')


def check_layering(ctx, case):
    """case: names, dirs (configured order), layers: list of [lid, relpath|None, {name: True}], fmts, write_order;
    optional: rewrite, history (list of steps {ops: [{op, lid, path, defs: {name: version}|None, fmt}], load}), cwd (decoy kind),
    ignored (list of {path, role, fmt, content}: entries the walk must ignore, written when 'ign:<index>' comes up in write_order)"""
    tree = files.Tree(dirs=())
    try:
        _check_layering(ctx, case, tree)
    finally:
        tree.cleanup()


def _check_layering(ctx, case, tree):
    from oslo_policy import policy
    names = case['names']
    decoy = None
    try:
        for d in case['dirs']:
            if d != 'dmissing':
                tree.mkdir(d)
        if case.get('subdir'):
            tree.mkdir('d1/sub')
            tree.write('d1/sub/x.yaml', {n: 'role:SUB' for n in names}, 'json')
        content = {l[0]: {n: text_of(l[0], first_version(case, l[0], n)) for n in l[2]} for l in case['layers']}
        paths = {l[0]: l[1] for l in case['layers']}
        ign = case.get('ignored') or []
        ign_by_id = {'ign:%d' % k: e for k, e in enumerate(ign)}
        ign_roles = {e['role'] for e in ign}
        if ign:
            count_ignored(ctx, case)
        links = case.get('links') or {}
        linkdirs = case.get('linkdirs') or []
        ld_by_id = {'ld:%d' % k: e for k, e in enumerate(linkdirs)}
        ld_roles = {e['role'] for e in linkdirs}
        free = case.get('free')

        def open_question(n, r):
            # the statement does not say whether a configured directory's entry that is a LINK to a directory counts as a
            # sub-directory: the files below it (they define the free name only, with a role of their own) may be applied or not
            return n == free and r in ld_roles

        if links or linkdirs:
            count_links(ctx, case)
        for lid in case['write_order']:
            if lid in ign_by_id:
                write_ignored(tree, names, ign_by_id[lid])
            elif lid in ld_by_id:
                write_linkdir(tree, ld_by_id[lid], free)
            elif lid in links:
                write_linked(tree, paths[lid], links[lid], content[lid], case['fmts'].get(lid, 'json'))
            elif paths[lid]:
                tree.write(paths[lid], content[lid], case['fmts'].get(lid, 'json'))
        # expected fold, in the documented order
        eff = {}
        order = [l for l in case['layers'] if l[0] == 'default'] + [l for l in case['layers'] if l[0] == 'main']
        for d in case['dirs']:
            in_dir = sorted((l for l in case['layers'] if l[1] and os.path.dirname(l[1]) == d),
                            key=lambda l: os.path.basename(l[1]))
            order += [l for l in in_dir if not os.path.basename(l[1]).startswith('.')]
        for lid, p, defs in order:
            for n in defs:
                eff[n] = role_of(lid, first_version(case, lid, n))
        defaulted = {n for l in case['layers'] if l[0] == 'default' for n in l[2]}
        last_restates = set()
        if case.get('restate'):
            last_restates = count_restated(ctx, {n: [first_version(case, l[0], n) for l in order if l[0] != 'default' and n in l[2]]
                                                 for n in names if n in defaulted}, 'layerings')
        if case.get('cwd'):
            # look-alikes of every relative name the configuration uses, in the working directory (which is not a configuration
            # directory): the main file and every configured directory, each defining EVERY name (also the never-defined one)
            look = {n: 'role:CWD' for n in names}
            decoy = decoy_cwd(case['cwd'], tree.root, [('policy.yaml', look)] + [(d + '/' + fn, look) for d in case['dirs']
                                                                                for fn in ('zz.yaml',)])
            decoy.__enter__()
            if decoy.tree is not None:
                ctx.count('cwd_decoy_layerings')
                if case.get('relative'):
                    ctx.count('cwd_decoy_relative_layerings')
                    if decoy.lacking:
                        ctx.count('cwd_decoy_name_missing_in_config_dir')
        conf = make_conf(ctx, tree, case)
        roles = sorted({lid_role(l[0]) for l in case['layers']} | {'SUB', 'nobody'} | ({'CWD'} if case.get('cwd') else set()) | ign_roles | ld_roles)
        # enforcers built BEFORE the observed one, in the same process over the same world (the same ConfigOpts or one of their
        # own made the same way); each registers the same defaults and loads / decides / stays idle as the case says
        before = case.get('before') or []
        earlier = []

        def others_decide(phase, eff_now, roles_of, extra=None, who=None):
            """Every earlier enforcer decides every name: the statement's layering holds for each enforcer of the process."""
            for k, e in enumerate(earlier):
                if who is not None and k != who:
                    continue
                for n in names:
                    for r in roles_of(n):
                        try:
                            got = bool(e.enforce(n, {}, {'roles': [r]}))
                        except Exception as ex:
                            got = 'EXC:' + type(ex).__name__
                        ctx.count('decisions_by_other_enforcers_of_the_process')
                        if open_question(n, r) and not isinstance(got, str):
                            if got:
                                ctx.unconstrained('files_below_linked_directory_applied')
                            continue
                        if got != (eff_now.get(n) == r):
                            first = k == 0 and phase == 'built'
                            key = ('load-or-enforce-raises' if isinstance(got, str) else
                                   'wrong-layer-wins' if first and n in eff_now else 'undefined-name-allowed' if first else
                                   'effective-policy-differs-between-enforcers-of-one-process')
                            detail = {'enforcer': k, 'of': len(earlier) + 1, 'when': phase, 'enforcers_before_the_observed_one': before,
                                      'name': n, 'role': r, 'expected_layer': eff_now.get(n), 'observed': got,
                                      'layers': {l[0]: sorted(l[2]) for l in case['layers']}}
                            detail.update(extra or {})
                            ctx.violation(key, case, detail)
                            return True
            return False

        for k, b in enumerate(before):
            e = policy.Enforcer(conf if b['conf'] == 'same' else make_conf(_NoCount, tree, case))
            for l in case['layers']:
                if l[0] == 'default':
                    for n in l[2]:
                        e.register_default(policy.RuleDefault(n, content['default'][n], scope_types=['project'] if case.get('scoped') else None))
            earlier.append(e)
            try:
                if b['use'] == 'load':
                    e.load_rules()
                elif b['use'] == 'force':
                    e.load_rules(True)
            except Exception as ex:
                ctx.violation('load-or-enforce-raises', case, {'enforcer': k, 'raised': type(ex).__name__ + ': ' + str(ex)[:200]})
                return
            if b['use'] == 'decide' and others_decide('built', eff, lambda n: roles, who=k):
                return
        if before:
            count_process(ctx, case)
        enf = policy.Enforcer(conf)
        scoped = set()
        for lid, p, defs in case['layers']:
            if lid == 'default':
                for n in defs:
                    # registered defaults declare scope types: whichever layer wins, the gate uses these
                    st = ['project'] if case.get('scoped') else None
                    if st:
                        scoped.add(n)
                    enf.register_default(policy.RuleDefault(n, content['default'][n], scope_types=st))
        shadow = any(sum(1 for l in case['layers'] if n in l[2] and not (l[1] and os.path.basename(l[1]).startswith('.'))) > 1
                     for n in names)
        ctx.case(case, nontrivial=shadow, stratum=case['s'])
        if shadow:
            ctx.count('configs_with_shadowing')
        for n in names:
            for r in roles:
                try:
                    got = bool(enf.enforce(n, {}, {'roles': [r]}))
                except Exception as e:
                    got = 'EXC:' + type(e).__name__
                want = eff.get(n) == r
                ctx.count('decisions')
                if r in ign_roles:
                    ctx.count('ignored_entry_decisions')
                if case.get('restate'):
                    ctx.count('restated_default_decisions')
                if got is True:
                    ctx.count('allow_decisions')
                if n in scoped:
                    # the same request with a system-scoped token: denied by the scope gate of the registered default,
                    # no matter which layer defines the check
                    try:
                        sgot = bool(enf.enforce(n, {}, {'roles': [r], 'system_scope': 'all'}))
                    except Exception as e:
                        sgot = 'EXC:' + type(e).__name__
                    ctx.count('scoped_decisions')
                    if sgot is not False:
                        ctx.violation('scope-types-not-from-registered-default', case,
                                      {'name': n, 'role': r, 'winning_layer': eff.get(n), 'registered_scope_types': ['project'],
                                       'credentials': 'system-scoped', 'observed': sgot, 'expected': False})
                        return
                if open_question(n, r) and not isinstance(got, str):
                    if got:
                        ctx.unconstrained('files_below_linked_directory_applied')
                    continue
                if got != want:
                    if isinstance(got, str):
                        key = 'load-or-enforce-raises'
                    elif r == 'CWD':
                        key = 'relative-name-taken-from-working-directory'
                    elif n not in eff:
                        key = 'undefined-name-allowed'
                    elif r in ('SUB',) or r.endswith('_hidden_yaml') or r in ign_roles:
                        key = 'ignored-file-applied'
                    elif n in last_restates:
                        # the last definer spells the registered default, an earlier file layer does not, and the decision is
                        # not the default's
                        key = 'layer-restating-registered-default-is-not-the-last-word'
                    else:
                        key = 'wrong-layer-wins'
                    detail = {'name': n, 'role': r, 'expected_layer': eff.get(n), 'observed': got,
                              'layers': {l[0]: sorted(l[2]) for l in case['layers']}}
                    if case.get('restate'):
                        detail['layers_restating_the_registered_default'] = {
                            lid: {m: DEFAULT_SPELLINGS[k % len(DEFAULT_SPELLINGS)] for m, k in d.items()}
                            for lid, d in case['restate'].items()}
                        detail['documented_order'] = [l[0] for l in order]
                    if (case.get('route') or 'override') != 'override' and not isinstance(got, str) and r != 'CWD':
                        # the same files, the same registered defaults, the options given with set_override: if that enforcer
                        # decides as expected, the route by which the options were configured changed the layering
                        detail['route'] = case['route']
                        try:
                            other = policy.Enforcer(tree.conf(policy_dirs=[tree.path(d) for d in case['dirs']],
                                                              relative=bool(case.get('relative'))))
                            for l in case['layers']:
                                if l[0] == 'default':
                                    for m in l[2]:
                                        other.register_default(policy.RuleDefault(m, content['default'][m]))
                            detail['observed_with_set_override'] = bool(other.enforce(n, {}, {'roles': [r]}))
                            detail['policy_dirs_as_configured'] = list(conf.oslo_policy.policy_dirs)
                            detail['policy_dirs_with_set_override'] = list(other.conf.oslo_policy.policy_dirs)
                            if detail['observed_with_set_override'] == want:
                                key = 'configuration-route-changes-the-layering'
                        except Exception as e:
                            detail['observed_with_set_override'] = 'EXC:' + type(e).__name__
                    if ign:
                        # which entry decides instead: the roles that do pass for this name
                        passing = []
                        for r2 in roles:
                            try:
                                if enf.enforce(n, {}, {'roles': [r2]}) is True:
                                    passing.append(r2)
                            except Exception:
                                pass
                        detail['roles_that_pass'] = passing
                        by_role = {e['role']: e['path'] for e in ign}
                        detail['ignored_entries_applied'] = [by_role[r2] for r2 in passing if r2 in by_role]
                        if detail['ignored_entries_applied'] and not isinstance(got, str) and r != 'CWD':
                            key = 'ignored-file-applied' if n in eff else 'undefined-name-allowed'
                    if links and not isinstance(got, str) and r != 'CWD':
                        # the decisions for this name as they would be if the linked entries were not there at all
                        passing = []
                        for r2 in roles:
                            try:
                                if enf.enforce(n, {}, {'roles': [r2]}) is True:
                                    passing.append(r2)
                            except Exception:
                                pass
                        unlinked = None
                        for lid, p, defs in order:
                            if lid not in links and n in defs:
                                unlinked = role_of(lid, first_version(case, lid, n))
                        detail['roles_that_pass'] = passing
                        detail['linked_entries'] = {lid: sp['to'] for lid, sp in links.items()}
                        detail['documented_order'] = [l[0] for l in order]
                        if passing == ([unlinked] if unlinked else []) and unlinked != eff.get(n):
                            key = 'linked-policy-file-left-out-of-the-layering'
                    if earlier and not isinstance(got, str) and r != 'CWD' and key in ('wrong-layer-wins', 'undefined-name-allowed'):
                        # the same question to the first enforcer of the process (same world, same registered defaults)
                        detail['enforcers_before_the_observed_one'] = before
                        try:
                            detail['observed_by_first_enforcer'] = bool(earlier[0].enforce(n, {}, {'roles': [r]}))
                            if detail['observed_by_first_enforcer'] == want:
                                key = 'effective-policy-differs-between-enforcers-of-one-process'
                        except Exception as e:
                            detail['observed_by_first_enforcer'] = 'EXC:' + type(e).__name__
                    ctx.violation(key, case, detail)
                    return
        if others_decide('after the observed enforcer decided', eff, lambda n: roles):
            return
        if case.get('rewrite') and not case.get('_second_pass'):
            # an operator re-saves one policy.d file (same content, newer mtime): the long-lived enforcer reloads and must
            # arrive at the very same effective policy
            victims = [l for l in case['layers'] if l[1] and os.path.dirname(l[1]) in case['dirs'] and not os.path.basename(l[1]).startswith('.')]
            if victims:
                v = victims[case['rewrite'] % len(victims)]
                tree.write(v[1], content[v[0]], case['fmts'].get(v[0], 'json'))
                ctx.count('reloads_after_rewrite')
                for n in names:
                    for r in roles:
                        try:
                            got = bool(enf.enforce(n, {}, {'roles': [r]}))
                        except Exception as e:
                            got = 'EXC:' + type(e).__name__
                        if open_question(n, r) and not isinstance(got, str):
                            continue
                        if got != (eff.get(n) == r):
                            ctx.violation('layering-wrong-after-reload', case,
                                          {'rewritten': v[1], 'name': n, 'role': r, 'expected_layer': eff.get(n), 'observed': got})
                            return
                if others_decide('after a policy.d file was re-saved', eff, lambda n: roles, {'rewritten': v[1]}):
                    return
        if case.get('history'):
            # the operator keeps editing the files under the living enforcer; after every step (file operations, then a load)
            # each name must be decided by the documented fold of the files AS THEY ARE NOW
            cur = {l[0]: {n: first_version(case, l[0], n) for n in l[2]} for l in case['layers']}
            pth = {l[0]: l[1] for l in case['layers'] if l[1]}
            # a check string can only stem from content that existed at some time: per name, the roles of every (layer, version)
            # that ever defined it, plus the ignored sub-directory, the decoy and a role nobody uses
            cand = {n: {'SUB', 'nobody'} | ({'CWD'} if case.get('cwd') else set()) | ign_roles | ld_roles for n in names}
            for lid, defs in cur.items():
                for n, v in defs.items():
                    cand[n].add(role_of(lid, v))
            for step in case['history']:
                for op in step['ops']:
                    for n, v in (op.get('defs') or {}).items():
                        cand[n].add(role_of(op['lid'], v))
            ctx.count('reload_histories')
            for k, step in enumerate(case['history']):
                dropped = False
                for op in step['ops']:
                    if op['op'] == 'delete':
                        tree.delete(op['path'])
                        dropped = dropped or bool(cur.get(op['lid']))
                        cur.pop(op['lid'], None)
                        pth.pop(op['lid'], None)
                    else:
                        if op['op'] == 'relink':
                            # the entry is switched to another file (a new version of a mounted ConfigMap, a link re-pointed
                            # by the operator): new target written, old link removed, new link made
                            _mkdirs(tree, os.path.dirname(op['to']))
                            tree.write(op['to'], {n: text_of(op['lid'], v) for n, v in op['defs'].items()}, op['fmt'])
                            tree.delete(op['path'])
                            tree.symlink(op['path'], op['to'], absolute=bool(op.get('abs')))
                        else:
                            tree.write(op['path'], {n: text_of(op['lid'], v) for n, v in op['defs'].items()}, op['fmt'])
                        dropped = dropped or bool(set(cur.get(op['lid'], ())) - set(op['defs']))
                        if op['lid'] == 'main' and cur.get('main') == op['defs']:
                            ctx.count('history_steps_main_resaved_identical')
                        cur[op['lid']] = dict(op['defs'])
                        pth[op['lid']] = op['path']
                ctx.count('history_steps')
                if len(step['ops']) > 1:
                    ctx.count('history_steps_two_operations')
                if dropped:
                    ctx.count('history_steps_names_dropped_or_file_deleted')
                eff = fold_now(case['dirs'], cur, pth)
                if case.get('restate') is not None:
                    count_restated(ctx, {n: [cur[lid][n] for lid in fold_order(case['dirs'], cur, pth) if lid != 'default' and n in cur[lid]]
                                         for n in names if n in defaulted}, 'history_steps')
                try:
                    if step['load'] == 'explicit':
                        enf.load_rules()
                    elif step['load'] == 'force':
                        enf.load_rules(True)
                except Exception as e:
                    ctx.violation('load-or-enforce-raises', case, {'history_step': k, 'step': step, 'raised': type(e).__name__ + ': ' + str(e)[:200]})
                    return
                for n in names:
                    for r in sorted(cand[n]):
                        try:
                            got = bool(enf.enforce(n, {}, {'roles': [r]}))
                        except Exception as e:
                            got = 'EXC:' + type(e).__name__
                        ctx.count('history_decisions')
                        if open_question(n, r) and not isinstance(got, str):
                            continue
                        if got != (eff.get(n) == r):
                            key = ('relative-name-taken-from-working-directory' if r == 'CWD' and got is True
                                   else 'layering-wrong-after-reload')
                            ctx.violation(key, case,
                                          {'history_step': k, 'step': step, 'name': n, 'role': r, 'expected_layer': eff.get(n),
                                           'observed': got, 'files_now': {lid: cur[lid] for lid in sorted(cur)}})
                            return
                if others_decide('after history step %d' % k, eff, lambda n: sorted(cand[n]),
                                 {'history_step': k, 'step': step, 'files_now': {lid: cur[lid] for lid in sorted(cur)}}):
                    return
    finally:
        if decoy is not None:
            decoy.__exit__()


def gen_layering(rnd):
    names = ['n1', 'n2', 'n3', 'n4']
    slots = [('default', None), ('main', 'policy.yaml')]
    for d in DIRS:
        if d == 'dmissing':
            continue
        for fn in FILESETS[d]:
            slots.append((d + '/' + fn, d + '/' + fn))
    present = [s for s in slots if rnd.random() < 0.6]
    layers = []
    for lid, p in present:
        defs = {n: True for n in names[:3] if rnd.random() < 0.5}
        layers.append([lid, p, defs])
    fmts = {}
    for lid, p in present:
        if p:
            fmts[lid] = 'json' if p.endswith('.json') else rnd.choice(['json', 'yaml', 'yaml-lines'])
    order = [l[0] for l in layers]
    rnd.shuffle(order)
    dirs = list(DIRS)
    if rnd.random() < 0.3:
        rnd.shuffle(dirs)
    case = dict(s='Y', names=names, dirs=dirs, layers=layers, fmts=fmts, write_order=order, subdir=True, scoped=rnd.random() < 0.5, rewrite=rnd.choice([0, 0, 1, 2, 3]),
                relative=rnd.random() < 0.4)
    # (drawn after everything above so that the older strata keep their distribution)
    if rnd.random() < (0.6 if case['relative'] else 0.05):
        case['cwd'] = rnd.choice(['all', 'all', 'missing'])
    if rnd.random() < 0.35:
        case['history'] = gen_history(rnd, case)
    return case


H_OPS = ['drop', 'drop', 'resave-main', 'resave', 'change', 'delete', 'add']
EXTRA_FILES = ['k1.yaml', 'A.yaml', 'zz9.json']


def gen_history(rnd, case, restate_p=0.0):
    """2-3 steps on the living enforcer.  Each step: one or two operations on different files, then a load.
    Operations are stored by their outcome (the mapping name -> version the file holds afterwards) so that replay needs no
    generator: {op, lid, path, defs|None, fmt}.
    restate_p > 0 (stratum R only; no draw is made otherwise): a name that gets new content in a regular file restates the
    registered default with that probability (a negative version, see role_of)."""
    may_define = case['names'][:-1]                 # the last name stays defined nowhere, whatever happens
    cur = {l[0]: {n: first_version(case, l[0], n) for n in l[2]} for l in case['layers'] if l[1]}
    defaulted = {n for l in case['layers'] if l[0] == 'default' for n in l[2]}
    pth = {l[0]: l[1] for l in case['layers'] if l[1]}
    fmts = dict(case['fmts'])
    real_dirs = [d for d in case['dirs'] if d != 'dmissing']
    ver = [0]

    def fresh():
        ver[0] += 1
        return ver[0]

    steps = []
    for _ in range(rnd.choice([2, 2, 3])):
        ops, touched = [], set()
        for kind in rnd.sample(H_OPS, rnd.choice([1, 2, 2])):
            in_dirs = sorted(lid for lid in cur if lid != 'main' and lid not in touched)
            anyfile = sorted(lid for lid in cur if lid not in touched)
            lid = defs = None
            if kind == 'drop':
                pool = [l for l in (in_dirs if rnd.random() < 0.8 else anyfile) if cur[l]]
                if pool:
                    lid = rnd.choice(pool)
                    gone = set(rnd.sample(sorted(cur[lid]), rnd.randint(1, len(cur[lid]))))
                    defs = {n: v for n, v in cur[lid].items() if n not in gone}
            elif kind == 'resave-main':
                if 'main' in cur and 'main' not in touched:
                    lid, defs = 'main', dict(cur['main'])
            elif kind == 'resave':
                if in_dirs:
                    lid = rnd.choice(in_dirs)
                    defs = dict(cur[lid])
            elif kind == 'change':
                if anyfile:
                    lid = rnd.choice(anyfile)
                    defs = {}
                    for n in may_define:
                        if rnd.random() < 0.5:
                            defs[n] = cur[lid][n] if (n in cur[lid] and rnd.random() < 0.5) else fresh()
                    if defs == cur[lid]:
                        defs[may_define[0]] = fresh()
                    if restate_p and not os.path.basename(pth[lid]).startswith('.'):
                        for n in sorted(defs):
                            if n in defaulted and defs[n] != cur[lid].get(n) and rnd.random() < restate_p:
                                defs[n] = -1 - rnd.randrange(len(DEFAULT_SPELLINGS))
                        if defs == cur[lid]:
                            defs[may_define[0]] = fresh()
            elif kind == 'delete':
                if in_dirs:
                    lid = rnd.choice(in_dirs)
                    ops.append({'op': 'delete', 'lid': lid, 'path': pth[lid], 'defs': None, 'fmt': None})
                    touched.add(lid)
                    del cur[lid], pth[lid]
                continue
            elif kind == 'add':
                d = rnd.choice(real_dirs)
                free = [d + '/' + fn for fn in FILESETS.get(d, []) + EXTRA_FILES if d + '/' + fn not in cur and d + '/' + fn not in touched]
                if free:
                    lid = rnd.choice(free)
                    pth[lid] = lid
                    fmts[lid] = 'json' if lid.endswith('.json') else rnd.choice(['json', 'yaml', 'yaml-lines'])
                    v = fresh()
                    defs = {n: v for n in may_define if rnd.random() < 0.6} or {may_define[0]: v}
                    if restate_p and not os.path.basename(lid).startswith('.'):
                        for n in sorted(defs):
                            if n in defaulted and rnd.random() < restate_p:
                                defs[n] = -1 - rnd.randrange(len(DEFAULT_SPELLINGS))
            if lid is None:
                continue
            ops.append({'op': kind, 'lid': lid, 'path': pth[lid], 'defs': defs, 'fmt': fmts.get(lid, 'json')})
            touched.add(lid)
            cur[lid] = defs
        if ops:
            steps.append({'ops': ops, 'load': rnd.choice(['implicit', 'implicit', 'explicit', 'force'])})
    return steps


# names a directory walk must skip: every one starts with a dot, so in the sorted listing they are neighbours of each other
DOT_NAMES = ['.a.yaml.swp', '.b.yaml.swp', '..yaml', '.#x.yaml', '.x.yaml~', '.a.yaml', '.b.yaml', '.a.yaml.swo', '.hidden.yaml',
             '.B.yaml', '.z.json', '.gitkeep', '.~lock.a.yaml#', '.a10.json']
# regular names (applied, in sorted order): some sort before every dot-file, most after
# (no two of them equal up to letter case: roles are matched caselessly, and each layer needs a role of its own)
REGULAR_NAMES = ['-a.yaml', '#b.yaml', 'B.yaml', 'Z.yaml', 'a.yaml', 'a10.json', 'a2.yaml', 'k.yaml', 'm.yaml', 'x.yaml', 'z.json']
SUBDIR_NAMES = ['.a.yaml.d', '.git', '.sub', '.sub2', 'a.yaml.d', 'c.yaml', 'sub', 'zz']
SUBDIR_FILES = ['x.yaml', 'a.yaml', '.y.yaml', 'deeper/x.yaml', 'z.json']


def _some(rnd, pool, k):
    """k names of the pool: half of the time a run of neighbours in sorted order, else any k."""
    pool = sorted(pool)
    k = min(k, len(pool))
    if k and rnd.random() < 0.5:
        at = rnd.randrange(len(pool) - k + 1)
        return pool[at:at + k]
    return rnd.sample(pool, k)


def gen_ignored_layering(rnd, i):
    """Stratum I.  The number of dot-files in one focus directory (first / a middle / the last existing one) is enumerated by the
    index i (0-4, with / without the dot-twin of a regular file); everything else is drawn."""
    names = ['n1', 'n2', 'n3', 'n4']                  # n4 is defined by ignored entries only
    dirs = ['d1', 'd2', 'd3']
    if rnd.random() < 0.3:
        rnd.shuffle(dirs)
    focus = dirs[(i // 5) % 3]
    focus_dots = i % 5
    want_twin = bool((i // 15) % 2)
    if rnd.random() < 0.5:
        dirs.insert(rnd.randrange(len(dirs) + 1), 'dmissing')
    layers, ignored = [], []
    for lid, p in (('default', None), ('main', 'policy.yaml')):
        if rnd.random() < 0.7:
            layers.append([lid, p, {n: True for n in names[:3] if rnd.random() < 0.5}])
    for d in dirs:
        if d == 'dmissing':
            continue
        regular = _some(rnd, REGULAR_NAMES, rnd.choice([0, 1, 1, 2, 2, 3]))
        for fn in regular:
            layers.append([d + '/' + fn, d + '/' + fn, {n: True for n in names[:3] if rnd.random() < 0.5}])
        ndots = focus_dots if d == focus else rnd.choice([0, 0, 1, 1, 2, 3, 4])
        dots = []
        if regular and ndots and (want_twin if d == focus else rnd.random() < 0.3):
            dots.append('.' + rnd.choice(regular))
        dots += _some(rnd, [x for x in DOT_NAMES if x not in dots], ndots - len(dots))
        for fn in dots:
            ignored.append({'path': d + '/' + fn})
        for sd in _some(rnd, [x for x in SUBDIR_NAMES if x not in regular], rnd.choice([0, 0, 1, 2, 2, 3])):
            inside = rnd.sample(SUBDIR_FILES, rnd.choice([0, 1, 1, 2]))
            if not inside:
                ignored.append({'path': d + '/' + sd, 'content': 'dir'})
            for fn in inside:
                ignored.append({'path': d + '/' + sd + '/' + fn})
    for k, e in enumerate(ignored):
        e['role'] = 'IGN%d' % k
        e['fmt'] = 'json' if e['path'].endswith('.json') else rnd.choice(['json', 'yaml', 'yaml-lines'])
        e.setdefault('content', rnd.choice(['policy'] * 8 + ['empty', 'swap']))
    fmts = {l[0]: ('json' if l[1].endswith('.json') else rnd.choice(['json', 'yaml', 'yaml-lines'])) for l in layers if l[1]}
    order = [l[0] for l in layers] + ['ign:%d' % k for k in range(len(ignored))]
    rnd.shuffle(order)
    case = dict(s='I', names=names, dirs=dirs, layers=layers, fmts=fmts, write_order=order, ignored=ignored,
                scoped=rnd.random() < 0.3, rewrite=rnd.choice([0, 0, 0, 1, 2, 3]), relative=rnd.random() < 0.3)
    if case['relative'] and rnd.random() < 0.3:
        case['cwd'] = rnd.choice(['all', 'missing'])
    if rnd.random() < 0.3:
        case['history'] = gen_ignored_history(rnd, case)
    return case


def gen_ignored_history(rnd, case):
    """A history of stratum H in which, besides the operations on regular files, dot-files appear (defining every name) and
    disappear in the configured directories before a load - what an editor does when a file is opened and closed."""
    steps = gen_history(rnd, case) or [{'ops': [], 'load': rnd.choice(['implicit', 'explicit', 'force'])}]
    real_dirs = [d for d in case['dirs'] if d != 'dmissing']
    there = sorted(e['path'] for e in case['ignored'] if e['path'].count('/') == 1 and e['content'] != 'dir')
    ver = 100
    for step in steps:
        for _ in range(rnd.choice([0, 1, 1, 2])):
            busy = {op['path'] for op in step['ops']}
            if there and rnd.random() < 0.35:
                p = rnd.choice(there)
                if p not in busy:
                    there.remove(p)
                    step['ops'].append({'op': 'delete', 'lid': p, 'path': p, 'defs': None, 'fmt': None})
                continue
            d = rnd.choice(real_dirs)
            near = [x for x in there if x.startswith(d + '/')]
            if near and rnd.random() < 0.5:
                # the neighbour of a dot-file that is already there: .a.yaml.swp -> .a.yaml.swo / .a.yaml.swq
                p = near[0][:-1] + ('o' if not near[0].endswith('o') else 'q')
            else:
                p = d + '/' + rnd.choice(DOT_NAMES)
            if p in busy:
                continue
            ver += 1
            step['ops'].append({'op': 'add', 'lid': p, 'path': p, 'defs': {n: ver for n in case['names']},
                                'fmt': 'json' if p.endswith('.json') else rnd.choice(['json', 'yaml', 'yaml-lines'])})
            if p not in there:
                there.append(p)
                there.sort()
    return [s for s in steps if s['ops']]


def _documented_order(case):
    """Layer ids of the regular files of a configuration, in the documented order."""
    order = [l[0] for l in case['layers'] if l[0] == 'main']
    for d in case['dirs']:
        in_dir = sorted((l for l in case['layers'] if l[1] and os.path.dirname(l[1]) == d), key=lambda l: os.path.basename(l[1]))
        order += [l[0] for l in in_dir if not os.path.basename(l[1]).startswith('.')]
    return order


def gen_restate_layering(rnd, i):
    """Stratum R.  The layerings of Y (same files, own random source), the registered default always present; for the names it
    defines, file layers may spell exactly the registered default (verbatim or as a textual variant) instead of their own role.
    On every second index one name is arranged so that its LAST definer restates the default while the definer before it does
    not.  The route by which policy_file / policy_dirs are configured is enumerated by the index."""
    names = ['n1', 'n2', 'n3', 'n4']
    slots = [('main', 'policy.yaml')]
    for d in DIRS:
        if d != 'dmissing':
            slots += [(d + '/' + fn, d + '/' + fn) for fn in FILESETS[d]]
    layers = [['default', None, {n: True for n in names[:3] if rnd.random() < 0.8} or {'n1': True}]]
    for lid, p in slots:
        if rnd.random() < 0.6:
            layers.append([lid, p, {n: True for n in names[:3] if rnd.random() < 0.55}])
    fmts = {l[0]: ('json' if l[1].endswith('.json') else rnd.choice(['json', 'yaml', 'yaml-lines'])) for l in layers if l[1]}
    order = [l[0] for l in layers]
    rnd.shuffle(order)
    dirs = list(DIRS)
    if rnd.random() < 0.3:
        rnd.shuffle(dirs)
    if rnd.random() < 0.25:
        dirs.remove('dmissing')
    case = dict(s='R', names=names, dirs=dirs, layers=layers, fmts=fmts, write_order=order, subdir=True, scoped=rnd.random() < 0.4,
                rewrite=rnd.choice([0, 0, 1, 2, 3]), relative=rnd.random() < 0.4, route=ROUTES[i % 3], cfgpos=rnd.randrange(5))
    defs_of = {l[0]: l[2] for l in layers}
    doc = _documented_order(case)
    restate = {}
    for n in sorted(layers[0][2]):
        definers = [lid for lid in doc if n in defs_of[lid]]
        if rnd.random() < 0.75:
            for lid in definers:
                if rnd.random() < 0.35:
                    restate.setdefault(lid, {})[n] = rnd.choice([0, 0, 1, 2, 3])
    if i % 2 == 0:
        # one name: the last definer restates the default, the one before it keeps its own role
        able = [n for n in sorted(layers[0][2]) if sum(1 for lid in doc if n in defs_of[lid]) >= 2]
        if able:
            n = rnd.choice(able)
            definers = [lid for lid in doc if n in defs_of[lid]]
            restate.setdefault(definers[-1], {})[n] = rnd.choice([0, 0, 1, 2, 3])
            restate.get(definers[-2], {}).pop(n, None)
    case['restate'] = {lid: d for lid, d in restate.items() if d}
    if rnd.random() < (0.6 if case['relative'] else 0.05):
        case['cwd'] = rnd.choice(['all', 'all', 'missing'])
    if rnd.random() < 0.35:
        case['history'] = gen_history(rnd, case, restate_p=0.3)
    return case


def exhaustive_restate_layerings():
    """Stratum RX.  One name with a registered default; the main file, d1/a.yaml, d1/b.yaml and d2/a.yaml each either do not
    define it, give it their own role, restate the default verbatim, or restate it as a textual variant: 4^4 layerings.  A second
    name keeps the per-layer roles in every file, a third is defined nowhere."""
    slots = [('main', 'policy.yaml'), ('d1/a.yaml', 'd1/a.yaml'), ('d1/b.yaml', 'd1/b.yaml'), ('d2/a.yaml', 'd2/a.yaml')]
    for i, states in enumerate(itertools.product(range(4), repeat=4)):
        layers = [['default', None, {'n1': True, 'n2': True}]]
        restate = {}
        for j, ((lid, p), st) in enumerate(zip(slots, states)):
            defs = {'n2': True} if (i + j) % 3 else {}
            if st:
                defs['n1'] = True
            if st == 2:
                restate[lid] = {'n1': 0}
            elif st == 3:
                restate[lid] = {'n1': 1 + (i + j) % 3}
            if defs or (lid == 'main' and i % 2):
                layers.append([lid, p, defs])
        fmts = {l[0]: ('json', 'yaml', 'yaml-lines')[(i + k) % 3] for k, l in enumerate(layers) if l[1]}
        yield dict(s='RX', names=['n1', 'n2', 'n3'], dirs=['d1', 'd2'], layers=layers, fmts=fmts,
                   write_order=[l[0] for l in reversed(layers)], scoped=bool(i % 2), rewrite=(i % 3), restate=restate,
                   route=ROUTES[i % 3], relative=bool((i // 3) % 2), cfgpos=i % 4)


N_PROCESS = {'quick': 240, 'thorough': 9000}
N_LINKS = {'quick': 240, 'thorough': 9000}
DIR_MODES = ['none', 'missing', 'empty', 'files', 'links', 'files']
USES = ['decide', 'load', 'none', 'force']
LINKDIR_NAMES = ['00-first.d', 'c.yaml', 'conf.d', 'zz.d', 'lnk', '.dotlnk']
LINK_PLACES = ['store', 'dotsub', 'dirlink', 'sub']
LINK_FILESETS = dict(FILESETS, d3=['m.yaml', 'k.yaml', '-a.yaml'])


def gen_before(rnd, i):
    """The enforcers built before the observed one (one or two): each on the SAME ConfigOpts or on one of its own naming the same
    paths, and deciding every name / loading / loading with force / staying idle before the next one is built."""
    out = []
    for k in range(1 + (i // 2) % 2):
        out.append({'conf': 'same' if (i + k) % 2 == 0 else 'own', 'use': USES[(i // 4 + k) % 4] if k == 0 else rnd.choice(USES)})
    return out


def gen_dir_layers(rnd, dirs, names, filesets, p=0.5):
    layers = []
    for d in dirs:
        for fn in filesets.get(d, ()):
            if rnd.random() < p:
                layers.append([d + '/' + fn, d + '/' + fn, {n: True for n in names[:3] if rnd.random() < 0.5}])
    return layers


def add_links(rnd, case, i, p=0.45):
    """Some directory entries of the case become symbolic links to files kept elsewhere (the ENTRY's name stays what it was: it
    decides the place in the order; the target's name is drawn so that it would sort differently), and up to two entries that are
    links to directories are added (their files define the free name only)."""
    real = [d for d in case['dirs'] if d != 'dmissing']
    cands = sorted(l[0] for l in case['layers'] if l[1] and l[0] != 'main')
    chosen = [lid for lid in cands if rnd.random() < p]
    plain = [lid for lid in cands if not os.path.basename(lid).startswith('.')]
    if plain and not set(plain) & set(chosen):
        chosen.append(rnd.choice(plain))
    links = {}
    for j, lid in enumerate(sorted(chosen)):
        d = os.path.dirname(lid)
        place = LINK_PLACES[(i + j) % len(LINK_PLACES)]
        tname = rnd.choice(['00', 'M', 'a', 'k', 'zz']) + '-t%d' % j + rnd.choice(['.yaml', '.json', '.txt', ''])
        sp = {'abs': bool((i // 4 + j) % 2)}
        if place == 'store':
            sp['to'] = 'store/' + tname
        elif place == 'dotsub':
            sp['to'] = d + '/..ver1/' + tname
        elif place == 'dirlink':
            sp['to'] = d + '/..ver2/' + tname
            sp['dirlink'] = [d + '/..data', d + '/..ver2']
        else:
            sp['to'] = d + '/tgt/' + tname
        if rnd.random() < 0.2:
            sp['via'] = 'store/hop%d' % j
        links[lid] = sp
    linkdirs = []
    for j in range(rnd.choice([0, 1, 1, 2]) if real else 0):
        path = rnd.choice(real) + '/' + LINKDIR_NAMES[(i + 2 * j) % len(LINKDIR_NAMES)]
        if any(e['path'] == path for e in linkdirs):
            continue
        linkdirs.append({'path': path, 'to': 'store/dir%d' % j, 'abs': rnd.random() < 0.5, 'role': 'LD%d' % j,
                         'files': [[fn, 'json' if fn.endswith('.json') else rnd.choice(['json', 'yaml', 'yaml-lines'])]
                                   for fn in rnd.sample(['00.yaml', 'a.yaml', 'zz.json'], rnd.choice([1, 2]))]})
    case['links'] = links
    if linkdirs:
        case['linkdirs'] = linkdirs
        case['free'] = case['names'][-1]
        order = case['write_order'] + ['ld:%d' % k for k in range(len(linkdirs))]
        rnd.shuffle(order)
        case['write_order'] = order


def add_relinks(rnd, case, steps):
    """History steps get operations that switch a linked entry to another file with new content."""
    alive = set(case.get('links') or ())
    ver = 500
    for sk, step in enumerate(steps):
        for op in step['ops']:
            if op['op'] == 'delete':
                alive.discard(op['lid'])
        pool = sorted(alive - {op['lid'] for op in step['ops']})
        if pool and rnd.random() < 0.6:
            lid = rnd.choice(pool)
            ver += 1
            defs = {n: ver for n in case['names'][:3] if rnd.random() < 0.6} or {case['names'][0]: ver}
            step['ops'].append({'op': 'relink', 'lid': lid, 'path': lid, 'defs': defs,
                                'fmt': 'json' if lid.endswith('.json') else rnd.choice(['json', 'yaml', 'yaml-lines']),
                                'to': 'store/%s-r%d.yaml' % (rnd.choice(['00', 'zz']), sk), 'abs': rnd.random() < 0.5})
    return [s for s in steps if s['ops']]


def gen_main_history(rnd, case):
    """A history for a world without an existing policy directory: the main file (if there is one) is re-saved unchanged, changed,
    or loses names; 2-3 steps, each followed by a load."""
    main = [l for l in case['layers'] if l[0] == 'main']
    if not main:
        return []
    cur = {n: 0 for n in main[0][2]}
    steps, ver = [], 0
    for _ in range(rnd.choice([2, 2, 3])):
        kind = rnd.choice(['resave-main', 'change', 'change', 'drop'])
        defs = dict(cur)
        if kind == 'drop' and cur:
            for n in rnd.sample(sorted(cur), rnd.randint(1, len(cur))):
                del defs[n]
        elif kind == 'change':
            ver += 1
            defs = {n: (cur[n] if n in cur and rnd.random() < 0.4 else ver) for n in case['names'][:3] if rnd.random() < 0.6}
            if defs == cur:
                defs[case['names'][0]] = ver
        steps.append({'ops': [{'op': kind, 'lid': 'main', 'path': 'policy.yaml', 'defs': defs, 'fmt': case['fmts'].get('main', 'json')}],
                      'load': rnd.choice(['implicit', 'implicit', 'explicit', 'force'])})
        cur = defs
    return steps


def gen_process_world(rnd, i):
    """Stratum P.  One world (registered defaults, main file, policy directories: none configured / only a missing one / existing
    but empty / holding files / holding files and links - enumerated by the index), two or three enforcers built one after the
    other in the process over it."""
    names = ['n1', 'n2', 'n3', 'n4']
    mode = DIR_MODES[i % len(DIR_MODES)]
    layers = []
    if rnd.random() < 0.85:
        layers.append(['default', None, {n: True for n in names[:3] if rnd.random() < 0.6}])
    if rnd.random() < 0.9:
        layers.append(['main', 'policy.yaml', {n: True for n in names[:3] if rnd.random() < 0.65}])
    if mode == 'none':
        dirs = []
    elif mode == 'missing':
        dirs = ['dmissing']
    elif mode == 'empty':
        dirs = rnd.choice([['d1'], ['d1', 'dmissing'], ['dmissing', 'd2'], ['d1', 'd2']])
    else:
        dirs = list(DIRS)
        if rnd.random() < 0.3:
            rnd.shuffle(dirs)
        layers += gen_dir_layers(rnd, dirs, names, LINK_FILESETS, 0.45)
    fmts = {l[0]: ('json' if l[1].endswith('.json') else rnd.choice(['json', 'yaml', 'yaml-lines'])) for l in layers if l[1]}
    order = [l[0] for l in layers]
    rnd.shuffle(order)
    case = dict(s='P', names=names, dirs=dirs, layers=layers, fmts=fmts, write_order=order, scoped=rnd.random() < 0.3,
                rewrite=rnd.choice([0, 0, 1, 2]), relative=rnd.random() < 0.3, route=ROUTES[(i // len(DIR_MODES)) % 3],
                cfgpos=rnd.randrange(4), before=gen_before(rnd, i))
    if mode == 'links':
        add_links(rnd, case, i)
    if rnd.random() < 0.3:
        steps = gen_history(rnd, case) if mode not in ('none', 'missing') else gen_main_history(rnd, case)
        if case.get('links'):
            steps = add_relinks(rnd, case, steps)
        if steps:
            case['history'] = steps
    return case


def gen_link_world(rnd, i):
    """Stratum L.  The layerings of Y in which some policy directory entries are symbolic links to files kept elsewhere (relative /
    absolute link text, target outside the configured directories / in a dot-named or plain sub-directory of one / reached through
    a linked directory or a second link - enumerated by the index), plus entries that are links to directories."""
    names = ['n1', 'n2', 'n3', 'n4']
    layers = [[lid, p, {n: True for n in names[:3] if rnd.random() < 0.5}]
              for lid, p in (('default', None), ('main', 'policy.yaml')) if rnd.random() < 0.7]
    dirs = list(DIRS)
    if rnd.random() < 0.3:
        rnd.shuffle(dirs)
    if rnd.random() < 0.3:
        dirs.remove('dmissing')
    layers += gen_dir_layers(rnd, dirs, names, LINK_FILESETS, 0.55)
    if not any(l[1] and l[0] != 'main' and not os.path.basename(l[1]).startswith('.') for l in layers):
        layers.append(['d1/a.yaml', 'd1/a.yaml', {'n1': True}])
    fmts = {l[0]: ('json' if l[1].endswith('.json') else rnd.choice(['json', 'yaml', 'yaml-lines'])) for l in layers if l[1]}
    order = [l[0] for l in layers]
    rnd.shuffle(order)
    case = dict(s='L', names=names, dirs=dirs, layers=layers, fmts=fmts, write_order=order, scoped=rnd.random() < 0.3,
                rewrite=rnd.choice([0, 0, 1, 2, 3]), relative=rnd.random() < 0.3, route=ROUTES[(i // 8) % 3], cfgpos=rnd.randrange(4))
    add_links(rnd, case, i)
    if rnd.random() < 0.3:
        case['before'] = gen_before(rnd, i)
    if rnd.random() < 0.35:
        steps = add_relinks(rnd, case, gen_history(rnd, case) or [{'ops': [], 'load': rnd.choice(['implicit', 'explicit', 'force'])}])
        if steps:
            case['history'] = steps
    return case


def exhaustive_layerings():
    slots = [('default', None), ('main', 'policy.yaml'), ('d1/a.yaml', 'd1/a.yaml'), ('d1/b.yaml', 'd1/b.yaml'), ('d2/a.yaml', 'd2/a.yaml')]
    i = 0
    for m1 in range(32):
        for m2 in range(32):
            layers = []
            for j, (lid, p) in enumerate(slots):
                defs = {}
                if m1 >> j & 1:
                    defs['n1'] = True
                if m2 >> j & 1:
                    defs['n2'] = True
                if defs or (lid == 'main' and (m1 + m2) % 2):
                    layers.append([lid, p, defs])
            fmts = {l[0]: ('json', 'yaml', 'yaml-lines')[(i + k) % 3] for k, l in enumerate(layers) if l[1]}
            order = [l[0] for l in reversed(layers)]
            case = dict(s='X', names=['n1', 'n2', 'n3'], dirs=['d1', 'd2'], layers=layers, fmts=fmts, write_order=order, scoped=bool(i % 2), rewrite=(i % 3))
            hr = random.Random('C09/X/history/%d' % i)
            if hr.random() < 0.3:
                case['history'] = gen_history(hr, case)
            yield case
            i += 1


# ---------------------------------------------------------------------------
SEL_FILES = ('policy.yaml', 'policy.json', 'other.yaml', 'explicit.yaml')
HOW = ['default', 'setdef_yaml', 'setdef_other', 'cfgfile_yaml', 'cfgfile_other', 'override_yaml', 'override_other']


def check_selection(ctx, case):
    from oslo_config import cfg
    from oslo_policy import opts, policy
    how, ex_yaml, ex_json, ex_other, fallback, explicit = (case['how'], case['yaml'], case['json'], case['other'],
                                                          case['fallback'], case['explicit'])
    # set_defaults() mutates a module-level option list shared by every ConfigOpts of the process: work on a copy
    pristine = getattr(opts, '_options', None)
    if pristine is not None:
        opts._options = copy.deepcopy(pristine)
    tree = files.Tree(dirs=())
    decoy = None
    try:
        d = tree.root
        for fn, ex in (('policy.yaml', ex_yaml), ('policy.json', ex_json), ('other.yaml', ex_other), ('explicit.yaml', 1)):
            if ex:
                tree.write(fn, {'which': 'role:' + fn.replace('.', '_')}, 'json')
        conf = cfg.ConfigOpts()
        if case.get('cwd'):
            # every name of this table is relative: the working directory holds look-alikes (it is not a configuration directory)
            decoy = decoy_cwd(case['cwd'], d, [(fn, {'which': 'role:CWD_' + fn.replace('.', '_')}) for fn in SEL_FILES])
            decoy.__enter__()
        if how.startswith('cfgfile'):
            tree.write_text('svc.conf', '[oslo_policy]\npolicy_file=%s\npolicy_dirs=\n'
                            % ('policy.yaml' if how.endswith('yaml') else 'other.yaml'))
        conf(['--config-dir', d], default_config_dirs=[], default_config_files=[])
        opts._register(conf)
        if how == 'setdef_yaml':
            opts.set_defaults(conf, policy_file='policy.yaml')
        if how == 'setdef_other':
            opts.set_defaults(conf, policy_file='other.yaml')
        if how == 'override_yaml':
            conf.set_override('policy_file', 'policy.yaml', 'oslo_policy')
        if how == 'override_other':
            conf.set_override('policy_file', 'other.yaml', 'oslo_policy')
        conf.set_override('policy_dirs', [], 'oslo_policy')
        enf = policy.Enforcer(conf, policy_file=explicit, fallback_to_json_file=fallback)
        value = 'other.yaml' if how.endswith('other') else 'policy.yaml'
        configured = how in ('cfgfile_yaml', 'cfgfile_other', 'override_yaml', 'override_other')
        if explicit:
            want = explicit                                   # the one given to the enforcer
        elif (not configured) and value == 'policy.yaml' and not ex_yaml and ex_json and fallback:
            want = 'policy.json'                              # never configured, no policy.yaml, legacy policy.json
        else:
            want = value                                      # the configured one
        exists = {'policy.yaml': ex_yaml, 'policy.json': ex_json, 'other.yaml': ex_other, 'explicit.yaml': 1}[want]
        if explicit:
            ctx.count('explicit_file_rows')
        got = []
        for fn in ('policy.yaml', 'policy.json', 'other.yaml', 'explicit.yaml'):
            try:
                if enf.enforce('which', {}, {'roles': [fn.replace('.', '_')]}):
                    got.append(fn)
            except Exception as e:
                got.append('EXC:' + type(e).__name__)
        expd = [want] if exists else []
        if case.get('cwd'):
            # same table, same expectation: the file is looked up in the configuration directory only; one that is missing there
            # is skipped, whatever the working directory holds
            ctx.case(case, nontrivial=True, stratum='ZC')
            if decoy.tree is not None:
                ctx.count('file_selection_rows_cwd_decoy')
            for fn in SEL_FILES:
                try:
                    if enf.enforce('which', {}, {'roles': ['CWD_' + fn.replace('.', '_')]}):
                        got.append('CWD:' + fn)
                except Exception as e:
                    got.append('EXC:' + type(e).__name__)
            if got != expd:
                key = ('relative-name-taken-from-working-directory' if any(g.startswith('CWD:') for g in got) else
                       'legacy-json-fallback-wrong' if ('policy.json' in got or want == 'policy.json') else 'wrong-policy-file-selected')
                ctx.violation(key, case, {'row': case, 'expected_file': expd, 'observed_file': got})
            return
        ctx.case(case, nontrivial=True, stratum='Z')
        ctx.count('file_selection_rows')
        ctx.observe('selected_files', ','.join(got) or 'none')
        if got != expd:
            key = 'legacy-json-fallback-wrong' if ('policy.json' in got or want == 'policy.json') else 'wrong-policy-file-selected'
            ctx.violation(key, case, {'row': case, 'expected_file': expd, 'observed_file': got})
    finally:
        if decoy is not None:
            decoy.__exit__()
        if pristine is not None:
            opts._options = pristine
        tree.cleanup()


def run(ctx):
    # P / L: several enforcers of one process over one world; policy directory entries that are symbolic links (own random source
    # per index; a bounded share of the wall budget, early, so that a cut budget does not lose them)
    ctx.reserve(0.3)
    for i in range(max(N_PROCESS[ctx.tier], N_LINKS[ctx.tier])):
        if not ctx.mine(i):
            continue
        if ctx.expired():
            break
        for s, n, gen in (('P', N_PROCESS, gen_process_world), ('L', N_LINKS, gen_link_world)):
            if i < n[ctx.tier]:
                case = gen(ctx.sub_rnd(s, ctx.tier, i), i)
                check_layering(ctx, case)
                if i % 100 < ctx.nshards:
                    ctx.sample({'layers': {l[0]: sorted(l[2]) for l in case['layers']}, 'dirs': case['dirs'],
                                'enforcers_before_the_observed_one': case.get('before'), 'linked_entries': case.get('links'),
                                'links_to_directories': [e['path'] for e in case.get('linkdirs') or ()], 'route': case['route'],
                                'written_in_order': case['write_order']}, s)
    ctx.release()
    ctx.stratum('P', exhaustive=False)
    ctx.stratum('L', exhaustive=False)
    # Z: exhaustive file-selection table
    idx = 0
    done = True
    for how, y, j, o, fb, ex in itertools.product(HOW, [0, 1], [0, 1], [0, 1], [True, False], [None, 'explicit.yaml', 'policy.yaml', 'policy.json', 'other.yaml']):
        idx += 1
        if not ctx.mine(idx):
            continue
        check_selection(ctx, dict(s='Z', how=how, yaml=y, json=j, other=o, fallback=fb, explicit=ex))
    ctx.stratum('Z', exhaustive=True)
    # ZC: the same table with look-alike files in the working directory
    idx = 0
    for how, y, j, o, fb, ex in itertools.product(HOW, [0, 1], [0, 1], [0, 1], [True, False], [None, 'explicit.yaml', 'policy.yaml', 'policy.json', 'other.yaml']):
        # every look-alike present: the whole table; only the look-alikes of what the configuration directory lacks: the rows
        # without an explicit argument
        for kind in ('all', 'missing') if ex is None else ('all',):
            idx += 1
            if not ctx.mine(idx):
                continue
            check_selection(ctx, dict(s='ZC', how=how, yaml=y, json=j, other=o, fallback=fb, explicit=ex, cwd=kind))
    ctx.stratum('ZC', exhaustive=True)
    ctx.sample(dict(s='Z', how='default', yaml=0, json=1, other=0, fallback=True, explicit=None), 'Z')
    # X: exhaustive small layering
    for i, case in enumerate(exhaustive_layerings()):
        if not ctx.mine(i):
            continue
        if ctx.expired():
            done = False
            break
        check_layering(ctx, case)
        if i % 300 == 0:
            ctx.sample({'layers': {l[0]: sorted(l[2]) for l in case['layers']}, 'formats': case['fmts']}, 'X')
    ctx.stratum('X', exhaustive=done)
    # RX / R: file layers that restate the registered default; the route by which the options are configured
    done = True
    for i, case in enumerate(exhaustive_restate_layerings()):
        if not ctx.mine(i):
            continue
        if ctx.expired():
            done = False
            break
        check_layering(ctx, case)
        if i % 60 == 0:
            ctx.sample({'layers': {l[0]: sorted(l[2]) for l in case['layers']}, 'restating': case['restate'], 'route': case['route'],
                        'relative': case['relative']}, 'RX')
    ctx.stratum('RX', exhaustive=done)
    for i in range(N_RESTATE[ctx.tier]):
        if not ctx.mine(i):
            continue
        if ctx.expired():
            break
        case = gen_restate_layering(ctx.sub_rnd('R', ctx.tier, i), i)
        check_layering(ctx, case)
        if i % 100 < ctx.nshards:
            ctx.sample({'layers': {l[0]: sorted(l[2]) for l in case['layers']}, 'dirs': case['dirs'], 'restating': case['restate'],
                        'route': case['route'], 'relative': case['relative'], 'written_in_order': case['write_order']}, 'R')
    ctx.stratum('R', exhaustive=False)
    # I: layerings with many ignored entries (own random source per index: the draws of Y stay what they were)
    for i in range(N_IGNORED[ctx.tier]):
        if not ctx.mine(i):
            continue
        if ctx.expired():
            break
        case = gen_ignored_layering(ctx.sub_rnd('I', ctx.tier, i), i)
        check_layering(ctx, case)
        if i % 100 < ctx.nshards:
            ctx.sample({'layers': {l[0]: sorted(l[2]) for l in case['layers']}, 'dirs': case['dirs'],
                        'ignored': [e['path'] for e in case['ignored']], 'written_in_order': case['write_order']}, 'I')
    ctx.stratum('I', exhaustive=False)
    # Y: random layerings
    for i in range(N[ctx.tier] // ctx.nshards + 1):
        if ctx.expired():
            break
        case = gen_layering(ctx.rnd)
        check_layering(ctx, case)
        if i % 100 == 0:
            ctx.sample({'layers': {l[0]: sorted(l[2]) for l in case['layers']}, 'dirs': case['dirs'],
                        'written_in_order': case['write_order']}, 'Y')
    ctx.stratum('Y', exhaustive=False)


def replay(ctx, case):
    if case.get('s') in ('Z', 'ZC'):
        check_selection(ctx, case)
    else:
        check_layering(ctx, case)
