"""C09 - effective policy is defaults, then policy file, then policy.d in sorted order.

Two monitors on the real Enforcer:
 * layering: every layer defines a name as `role:<layer id>`; after load, exactly the role of the last layer in the
   documented order may pass (decisions, not internals, are observed);
 * file selection: the finite table (how the option was set x which files exist x fallback switch x explicit argument)
   enumerated completely; the chosen file is identified through the decisions it produces."""
import copy
import itertools
import json
import os

from pv.core import env
from pv.gen import files

ID = 'C09'
LEVEL = 'exploration'
TECHNIQUE = ('differential runtime monitor: decisions of a real file-backed Enforcer vs a fold of the layers in the '
             'documented order; exhaustive file-selection table')
RULE = ('strata: X = exhaustive layering of 2 names over 5 layer slots (registered default, main file, d1/a, d1/b, d2/a: '
        '1024 assignments); Y = random layerings of 4 names over registered default, main file (present/absent), three '
        'configured directories plus a configured-but-missing one, files B.yaml a.yaml a10.json a2.yaml .hidden.yaml '
        'sub/x.yaml Z.yaml z.json m.yaml created in shuffled order, every file independently JSON / YAML / line-style YAML, paths absolute or relative to a configuration directory; '
        'Z = exhaustive file-selection table 7 ways of setting policy_file x 8 existence patterns x fallback switch x '
        'explicit argument (none, a fourth file, or one of the three names themselves) = 560 rows. Each configuration is decided for every name under every single-role credential; in half of the configurations the registered defaults declare scope types and every decision is repeated with a wrongly scoped token (must be denied whichever layer wins). '
        'Non-trivial = at least one name is defined in two or more layers; distinct = distinct configuration.')
ASSUMPTIONS = ['lexicographic order = Python sorted() of the file names (code-point order)',
               'oslo_policy.opts._options is swapped for a pristine deep copy around cases that call set_defaults',
               'single-role credentials distinguish the layers because each layer uses its own role']
LEVEL_TEXT = ('The file-selection table and the small layering space are enumerated completely; larger layerings '
              '(sort order, dot-files, sub-directories, missing directories, formats) are sampled. Finite parts exhaustive, '
              'the rest structured sampling.')
LEVEL_NOTE = 'trusted: the fold that computes the expected effective layer; PyYAML/json as writers'
PLAN = {'quick': dict(shards=4, wall=60), 'thorough': dict(shards=16, wall=400)}
MIN = {'evaluations': 600, 'decisions': 5000, 'allow_decisions': 300, 'file_selection_rows': 560,
       'configs_with_shadowing': 300, 'scoped_decisions': 500, 'reloads_after_rewrite': 200}
ANCHORS = ['oslo_policy.policy:Enforcer.load_rules', 'oslo_policy.policy:Enforcer._walk_through_policy_directory',
           'oslo_policy.policy:pick_default_policy_file', 'oslo_policy.policy:parse_file_contents',
           'oslo_policy.policy:Enforcer.enforce']
REQUIRED_ANCHORS = ['oslo_policy.policy:Enforcer.enforce', 'oslo_policy.policy:Enforcer.load_rules']
N = {'quick': 1500, 'thorough': 60000}

FILESETS = {'d1': ['B.yaml', 'a.yaml', 'a10.json', 'a2.yaml', '.hidden.yaml'], 'd2': ['z.json', 'Z.yaml'], 'd3': ['m.yaml']}
DIRS = ['d1', 'd2', 'dmissing', 'd3']


def lid_role(lid):
    return lid.replace('/', '_').replace('.', '_')


def check_layering(ctx, case):
    """case: names, dirs (configured order), layers: list of [lid, relpath|None, {name: True}], fmts, write_order"""
    from oslo_policy import policy
    names = case['names']
    tree = files.Tree(dirs=())
    try:
        for d in case['dirs']:
            if d != 'dmissing':
                tree.mkdir(d)
        if case.get('subdir'):
            tree.mkdir('d1/sub')
            tree.write('d1/sub/x.yaml', {n: 'role:SUB' for n in names}, 'json')
        content = {l[0]: {n: 'role:' + lid_role(l[0]) for n in l[2]} for l in case['layers']}
        paths = {l[0]: l[1] for l in case['layers']}
        for lid in case['write_order']:
            if paths[lid]:
                tree.write(paths[lid], content[lid], case['fmts'].get(lid, 'json'))
        # expected fold, in the documented order
        eff = {}
        order = [l for l in case['layers'] if l[0] == 'default'] + [l for l in case['layers'] if l[0] == 'main']
        for d in case['dirs']:
            in_dir = sorted((l for l in case['layers'] if l[1] and os.path.dirname(l[1]) == d),
                            key=lambda l: os.path.basename(l[1]))
            order += [l for l in in_dir if not os.path.basename(l[1]).startswith('.')]
        for lid, p, defs in order:
            for n in defs:
                eff[n] = lid_role(lid)
        conf = tree.conf(policy_dirs=[tree.path(d) for d in case['dirs']], relative=bool(case.get('relative')))
        enf = policy.Enforcer(conf)
        scoped = set()
        for lid, p, defs in case['layers']:
            if lid == 'default':
                for n in defs:
                    # registered defaults declare scope types: whichever layer wins, the gate uses these
                    st = ['project'] if case.get('scoped') else None
                    if st:
                        scoped.add(n)
                    enf.register_default(policy.RuleDefault(n, content['default'][n], scope_types=st))
        roles = sorted({lid_role(l[0]) for l in case['layers']} | {'SUB', 'nobody'})
        shadow = any(sum(1 for l in case['layers'] if n in l[2] and not (l[1] and os.path.basename(l[1]).startswith('.'))) > 1
                     for n in names)
        ctx.case(case, nontrivial=shadow, stratum=case['s'])
        if shadow:
            ctx.count('configs_with_shadowing')
        for n in names:
            for r in roles:
                try:
                    got = bool(enf.enforce(n, {}, {'roles': [r]}))
                except Exception as e:
                    got = 'EXC:' + type(e).__name__
                want = eff.get(n) == r
                ctx.count('decisions')
                if got is True:
                    ctx.count('allow_decisions')
                if n in scoped:
                    # the same request with a system-scoped token: denied by the scope gate of the registered default,
                    # no matter which layer defines the check
                    try:
                        sgot = bool(enf.enforce(n, {}, {'roles': [r], 'system_scope': 'all'}))
                    except Exception as e:
                        sgot = 'EXC:' + type(e).__name__
                    ctx.count('scoped_decisions')
                    if sgot is not False:
                        ctx.violation('scope-types-not-from-registered-default', case,
                                      {'name': n, 'role': r, 'winning_layer': eff.get(n), 'registered_scope_types': ['project'],
                                       'credentials': 'system-scoped', 'observed': sgot, 'expected': False})
                        return
                if got != want:
                    if isinstance(got, str):
                        key = 'load-or-enforce-raises'
                    elif n not in eff:
                        key = 'undefined-name-allowed'
                    elif r in ('SUB',) or r.endswith('_hidden_yaml'):
                        key = 'ignored-file-applied'
                    else:
                        key = 'wrong-layer-wins'
                    ctx.violation(key, case, {'name': n, 'role': r, 'expected_layer': eff.get(n), 'observed': got,
                                              'layers': {l[0]: sorted(l[2]) for l in case['layers']}})
                    return
        if case.get('rewrite') and not case.get('_second_pass'):
            # an operator re-saves one policy.d file (same content, newer mtime): the long-lived enforcer reloads and must
            # arrive at the very same effective policy
            victims = [l for l in case['layers'] if l[1] and os.path.dirname(l[1]) in case['dirs'] and not os.path.basename(l[1]).startswith('.')]
            if victims:
                v = victims[case['rewrite'] % len(victims)]
                tree.write(v[1], content[v[0]], case['fmts'].get(v[0], 'json'))
                ctx.count('reloads_after_rewrite')
                for n in names:
                    for r in roles:
                        try:
                            got = bool(enf.enforce(n, {}, {'roles': [r]}))
                        except Exception as e:
                            got = 'EXC:' + type(e).__name__
                        if got != (eff.get(n) == r):
                            ctx.violation('layering-wrong-after-reload', case,
                                          {'rewritten': v[1], 'name': n, 'role': r, 'expected_layer': eff.get(n), 'observed': got})
                            return
    finally:
        tree.cleanup()


def gen_layering(rnd):
    names = ['n1', 'n2', 'n3', 'n4']
    slots = [('default', None), ('main', 'policy.yaml')]
    for d in DIRS:
        if d == 'dmissing':
            continue
        for fn in FILESETS[d]:
            slots.append((d + '/' + fn, d + '/' + fn))
    present = [s for s in slots if rnd.random() < 0.6]
    layers = []
    for lid, p in present:
        defs = {n: True for n in names[:3] if rnd.random() < 0.5}
        layers.append([lid, p, defs])
    fmts = {}
    for lid, p in present:
        if p:
            fmts[lid] = 'json' if p.endswith('.json') else rnd.choice(['json', 'yaml', 'yaml-lines'])
    order = [l[0] for l in layers]
    rnd.shuffle(order)
    dirs = list(DIRS)
    if rnd.random() < 0.3:
        rnd.shuffle(dirs)
    return dict(s='Y', names=names, dirs=dirs, layers=layers, fmts=fmts, write_order=order, subdir=True, scoped=rnd.random() < 0.5, rewrite=rnd.choice([0, 0, 1, 2, 3]),
                relative=rnd.random() < 0.4)


def exhaustive_layerings():
    slots = [('default', None), ('main', 'policy.yaml'), ('d1/a.yaml', 'd1/a.yaml'), ('d1/b.yaml', 'd1/b.yaml'), ('d2/a.yaml', 'd2/a.yaml')]
    i = 0
    for m1 in range(32):
        for m2 in range(32):
            layers = []
            for j, (lid, p) in enumerate(slots):
                defs = {}
                if m1 >> j & 1:
                    defs['n1'] = True
                if m2 >> j & 1:
                    defs['n2'] = True
                if defs or (lid == 'main' and (m1 + m2) % 2):
                    layers.append([lid, p, defs])
            fmts = {l[0]: ('json', 'yaml', 'yaml-lines')[(i + k) % 3] for k, l in enumerate(layers) if l[1]}
            order = [l[0] for l in reversed(layers)]
            yield dict(s='X', names=['n1', 'n2', 'n3'], dirs=['d1', 'd2'], layers=layers, fmts=fmts, write_order=order, scoped=bool(i % 2), rewrite=(i % 3))
            i += 1


# ---------------------------------------------------------------------------
HOW = ['default', 'setdef_yaml', 'setdef_other', 'cfgfile_yaml', 'cfgfile_other', 'override_yaml', 'override_other']


def check_selection(ctx, case):
    from oslo_config import cfg
    from oslo_policy import opts, policy
    how, ex_yaml, ex_json, ex_other, fallback, explicit = (case['how'], case['yaml'], case['json'], case['other'],
                                                          case['fallback'], case['explicit'])
    # set_defaults() mutates a module-level option list shared by every ConfigOpts of the process: work on a copy
    pristine = getattr(opts, '_options', None)
    if pristine is not None:
        opts._options = copy.deepcopy(pristine)
    tree = files.Tree(dirs=())
    try:
        d = tree.root
        for fn, ex in (('policy.yaml', ex_yaml), ('policy.json', ex_json), ('other.yaml', ex_other), ('explicit.yaml', 1)):
            if ex:
                tree.write(fn, {'which': 'role:' + fn.replace('.', '_')}, 'json')
        conf = cfg.ConfigOpts()
        if how.startswith('cfgfile'):
            tree.write_text('svc.conf', '[oslo_policy]\npolicy_file=%s\npolicy_dirs=\n'
                            % ('policy.yaml' if how.endswith('yaml') else 'other.yaml'))
        conf(['--config-dir', d], default_config_dirs=[], default_config_files=[])
        opts._register(conf)
        if how == 'setdef_yaml':
            opts.set_defaults(conf, policy_file='policy.yaml')
        if how == 'setdef_other':
            opts.set_defaults(conf, policy_file='other.yaml')
        if how == 'override_yaml':
            conf.set_override('policy_file', 'policy.yaml', 'oslo_policy')
        if how == 'override_other':
            conf.set_override('policy_file', 'other.yaml', 'oslo_policy')
        conf.set_override('policy_dirs', [], 'oslo_policy')
        enf = policy.Enforcer(conf, policy_file=explicit, fallback_to_json_file=fallback)
        value = 'other.yaml' if how.endswith('other') else 'policy.yaml'
        configured = how in ('cfgfile_yaml', 'cfgfile_other', 'override_yaml', 'override_other')
        if explicit:
            want = explicit                                   # the one given to the enforcer
        elif (not configured) and value == 'policy.yaml' and not ex_yaml and ex_json and fallback:
            want = 'policy.json'                              # never configured, no policy.yaml, legacy policy.json
        else:
            want = value                                      # the configured one
        exists = {'policy.yaml': ex_yaml, 'policy.json': ex_json, 'other.yaml': ex_other, 'explicit.yaml': 1}[want]
        if explicit:
            ctx.count('explicit_file_rows')
        got = []
        for fn in ('policy.yaml', 'policy.json', 'other.yaml', 'explicit.yaml'):
            try:
                if enf.enforce('which', {}, {'roles': [fn.replace('.', '_')]}):
                    got.append(fn)
            except Exception as e:
                got.append('EXC:' + type(e).__name__)
        expd = [want] if exists else []
        ctx.case(case, nontrivial=True, stratum='Z')
        ctx.count('file_selection_rows')
        ctx.observe('selected_files', ','.join(got) or 'none')
        if got != expd:
            key = 'legacy-json-fallback-wrong' if ('policy.json' in got or want == 'policy.json') else 'wrong-policy-file-selected'
            ctx.violation(key, case, {'row': case, 'expected_file': expd, 'observed_file': got})
    finally:
        if pristine is not None:
            opts._options = pristine
        tree.cleanup()


def run(ctx):
    # Z: exhaustive file-selection table
    idx = 0
    done = True
    for how, y, j, o, fb, ex in itertools.product(HOW, [0, 1], [0, 1], [0, 1], [True, False], [None, 'explicit.yaml', 'policy.yaml', 'policy.json', 'other.yaml']):
        idx += 1
        if not ctx.mine(idx):
            continue
        check_selection(ctx, dict(s='Z', how=how, yaml=y, json=j, other=o, fallback=fb, explicit=ex))
    ctx.stratum('Z', exhaustive=True)
    ctx.sample(dict(s='Z', how='default', yaml=0, json=1, other=0, fallback=True, explicit=None), 'Z')
    # X: exhaustive small layering
    for i, case in enumerate(exhaustive_layerings()):
        if not ctx.mine(i):
            continue
        if ctx.expired():
            done = False
            break
        check_layering(ctx, case)
        if i % 300 == 0:
            ctx.sample({'layers': {l[0]: sorted(l[2]) for l in case['layers']}, 'formats': case['fmts']}, 'X')
    ctx.stratum('X', exhaustive=done)
    # Y: random layerings
    for i in range(N[ctx.tier] // ctx.nshards + 1):
        if ctx.expired():
            break
        case = gen_layering(ctx.rnd)
        check_layering(ctx, case)
        if i % 100 == 0:
            ctx.sample({'layers': {l[0]: sorted(l[2]) for l in case['layers']}, 'dirs': case['dirs'],
                        'written_in_order': case['write_order']}, 'Y')
    ctx.stratum('Y', exhaustive=False)


def replay(ctx, case):
    if case.get('s') == 'Z':
        check_selection(ctx, case)
    else:
        check_layering(ctx, case)
