"""C19 - oslopolicy-checker reports what the library would decide.

Differential monitor: the real checker (oslo_policy.shell.tool) is run on
generated policy / token / target files; its stdout is compared line by line
with the decisions of a real file-backed Enforcer on the same policy file, with
credentials and target derived by the harness as documented."""
import contextlib
import copy
import io
import json
import os
import re

from pv.core import env
from pv.gen import files

ID = 'C19'
LEVEL = 'exploration'
TECHNIQUE = ('differential runtime monitor: stdout of the real oslopolicy-checker entry vs Enforcer.enforce on the same '
             'files, credentials/target derived independently by the harness')
RULE = ('cases = policy files from the expression generator (role, attribute, system/system_scope, rule: leaves over the '
        'token\'s fields; with/without a default rule; aliases; undefined references; some rules in the legacy list-of-lists spelling) x tokens (the three sample tokens of '
        'the repository, generated project- / domain- / system-scoped tokens with varying roles) x is_admin on/off x with / '
        'without a nested target file x requested rule (none, defined, undefined, helper without colon). Non-trivial = at '
        'least one verdict is `passed` and one `failed`, or a rule is requested; distinct = distinct (policy, token, target, options). '
        'Order stratum: about a third of the policy files additionally carry families of 2..7-segment names built on one stem, in which one name '
        'continues the stem with `:` and its siblings continue it with a character that sorts below `:` (- . / digit ! # + , $ & *) or above it '
        '(; = @ _ ~ letter, non-ASCII letter), plus names with an empty segment, a trailing or leading colon, many segments, other letter case, and '
        'colon-less siblings; the expected listing is Python\'s sorted() over the names that contain a colon, compared line by line; such names '
        'are also requested singly. '
        'Large-file stratum: files with 20..60 colon-named policies plus colon-less aliases (chains of up to four defined aliases, aliases that themselves '
        'end in an undefined name), of which 0, 5, 15, 16, 17, 30 or all but one refer - alone, under not / and / or, in the list spelling, through such an alias - '
        'to a name the file does not define, placed first, last or anywhere in sorted order among policies that go through defined aliases or are plain '
        'leaf checks; with and without a default rule; listing mode and requested-rule mode; same tokens, targets and options; every printed verdict of '
        'the one checker run is compared with one Enforcer.enforce call per policy.')
ASSUMPTIONS = ['credentials: token dict + role names + user_id + project_id + system_scope (all) + is_admin; target: the '
               'flattened target file, or user_id/project_id of the token (the derivation the tool documents)',
               'http(s) leaves are not generated (the tool needs an enforcer config for them; transport is C16\'s subject)',
               'where the library itself raises an undocumented exception the verdict line is unconstrained (C14 covers it)']
LEVEL_TEXT = ('Seeded sampling of (policy, token, target, options); every printed verdict is compared with the library\'s '
              'decision, and the set and order of lines with the statement. None of the suite\'s six scenarios compares with the library.')
LEVEL_NOTE = 'trusted: the harness\'s derivation of credentials/target from the files; a real Enforcer as decision oracle'
PLAN = {'quick': dict(shards=4, wall=120), 'thorough': dict(shards=16, wall=400)}
MIN = {'evaluations': 500, 'verdict_lines': 1500, 'passed_lines': 200, 'failed_lines': 200, 'system_tokens': 50,
       'requested_rule_runs': 100, 'order_name_listings': 100, 'listings_sibling_below_colon': 80, 'listings_sibling_above_colon': 80,
       'listings_empty_segment': 30, 'listings_case_only_pair': 30, 'order_name_requested': 10,
       'large_listings': 100, 'large_listings_no_undefined_ref': 8, 'large_listings_16plus_undefined_refs': 40,
       'large_listings_16plus_undefined_refs_no_default': 15, 'large_listings_16plus_undefined_refs_with_default': 15,
       'large_listings_defined_alias_after_16_undefined_refs_no_default': 10, 'large_requested_rule_runs': 30}
ANCHORS = ['oslo_policy.shell:tool', 'oslo_policy.shell:_try_rule', 'oslo_policy.shell:flatten', 'oslo_policy.policy:Enforcer.enforce']
REQUIRED_ANCHORS = ['oslo_policy.shell:tool']
N = {'quick': 4000, 'thorough': 80000}

NL = {'quick': 400, 'thorough': 6000}            # large-file cases (all shards together)

LEAVES = ['role:admin', 'role:member', 'role:x', 'user_id:%(user_id)s', 'project_id:%(project_id)s', 'is_admin:True',
          'system_scope:all', 'system:all', 'system.all:True', 'project.id:%(project_id)s', 'domain.id:d1', '@', '!',
          'user.domain.id:%(a.b)s', 'roles:admin', 'project_id:%(target.project.id)s', 'after-nested:%(a.z)s', "'n':%(target.name)s", 'user.id:u1', "'u1':%(user_id)s", 'is_admin:False', 'project.domain.id:dd',
          'system_scope:%(scope)s', 'user_id:%(a.c.d)s']
_SAMPLES = []
# policy-name material for the order stratum: code points on both sides of ':' (0x3a); no blanks, quotes, parentheses or '%'
# (names must survive JSON / YAML and the one-line-per-verdict output unchanged)
BELOW_COLON = list('-./!#+,$&*0123456789')
ABOVE_COLON = list(';=@_~AZazQm') + ['é', 'ß', 'Ж', 'λ']       # and four non-ASCII letters
SEGMENTS = ['api', 'os', 'net', 'v2', 'get', 'list', 'add', 'x', 'a', 'B', 'Flavor', 'flavor', 'compute', 'servers', '_p', 'os-ext', 'v2.1',
            'été', 'Net', 'GET', '0', 'z9']


def sample_tokens():
    if not _SAMPLES:
        d = os.path.join(env.REPO, 'sample_data')
        for fn in sorted(os.listdir(d)):
            if fn.endswith('.json'):
                with open(os.path.join(d, fn)) as f:
                    _SAMPLES.append(json.load(f))
    return _SAMPLES


def gen_rule(rnd, depth, leaves):
    r = rnd.random()
    if depth <= 0 or r < 0.35:
        return rnd.choice(leaves)
    if r < 0.5:
        return 'not ' + gen_rule(rnd, depth - 1, leaves)
    return '(' + (' %s ' % rnd.choice(['and', 'or'])).join(gen_rule(rnd, depth - 1, leaves) for _ in range(rnd.randint(2, 3))) + ')'


def gen_order_names(rnd):
    """Families of names whose sorted() order depends on how ':' compares with its neighbours in code-point order."""
    seg = lambda: rnd.choice(SEGMENTS)
    names = []
    nfam = rnd.randint(1, 2)
    most = 2 if nfam == 1 else 1                    # keeps a file at 4..9 additional names
    for _ in range(nfam):
        stem = ':'.join(seg() for _ in range(rnd.randint(1, 2)))
        tail = ':'.join(seg() for _ in range(rnd.choice([1, 1, 1, 2, 2, 5])))
        fam = [stem + ':' + tail]
        for c in rnd.sample(BELOW_COLON, rnd.randint(1, most)) + rnd.sample(ABOVE_COLON, rnd.randint(1, most)):
            # the sibling continues the stem's last segment: `net:get` / `net-ext:get` / `net_ext:get`, `v2:list` / `v21:list`
            fam.append(stem + c + rnd.choice(['', seg(), seg()]) + ':' + rnd.choice([tail, tail, seg()]))
        opt = [stem + ':',                                        # trailing colon
               stem + '::' + tail,                                # an empty segment
               ':' + stem + ':' + tail,                           # leading colon
               stem + ':' + rnd.choice(BELOW_COLON) + tail,       # the empty segment's rival: `a::b` / `a:-b`
               (stem + ':' + tail).swapcase(), stem.upper() + ':' + tail, stem + ':' + tail.upper(),
               stem + ':' + tail + ':' + ':'.join(seg() for _ in range(rnd.randint(1, 4))),
               stem + rnd.choice(BELOW_COLON + ABOVE_COLON) + seg(),   # may hold no colon: then it must not be listed
               stem]
        fam.extend(rnd.sample(opt, rnd.randint(1, most + 1)))
        names.extend(fam)
    names = list(dict.fromkeys(names))
    return names


def gen_token(rnd):
    """(generated token, index of a sample token or None) - the tokens of every stratum."""
    scope = rnd.choice(['project', 'domain', 'system', 'unscoped'])
    roles = rnd.sample(['admin', 'member', 'reader', 'x'], rnd.randint(0, 3))
    tok = {'token': {'roles': [{'id': 'i%d' % i, 'name': r} for i, r in enumerate(roles)],
                     'user': {'id': 'u1', 'name': 'n', 'domain': {'id': 'default'}}}}
    if scope == 'project':
        tok['token']['project'] = {'id': 'p1', 'name': 'pn', 'domain': {'id': 'dd'}}
    if scope == 'domain':
        tok['token']['domain'] = {'id': 'd1'}
    if scope == 'system':
        tok['token']['system'] = {'all': True}
    sample = None
    if rnd.random() < 0.25:
        sample = rnd.randrange(3)
    return tok, sample


def gen_target(rnd):
    items = [('user_id', rnd.choice(['u1', 'u2'])), ('project_id', rnd.choice(['p1', 'p2'])), ('scope', rnd.choice(['all', 'none'])),
             ('a', {'b': 'default', 'c': {'d': rnd.choice(['u1', 1]), 'e': {}}, 'z': 'after-nested'}),
             ('target', {'project': {'id': 'p1'}, 'name': 'n'}), ('empty', {})]
    rnd.shuffle(items)
    return dict(items[:rnd.randint(3, len(items))])


ALIAS_NAMES = ['admin_required', 'owner', 'admin_or_owner', 'context_is_admin', 'member_or_reader', 'helper', 'Any', 'svc_role', '_internal', 'x-api']
UNDEFINED_NAMES = ['ghost', 'gone_api', 'old:admin', 'Removed', 'x_legacy', 'admin-required', 'context_is_admin_v1', 'no:such:rule']
MANY = [0, 5, 15, 16, 17, 30, 'all-but-one']


def gen_large_case(rnd):
    """A policy file of realistic size: 20..60 listed (colon-named) policies over a handful of aliases, a chosen number of which
    refer to names that the file does not define."""
    tok, sample = gen_token(rnd)
    n = rnd.randint(20, 60)
    names = set()
    while len(names) < n:
        nme = rnd.choice(SEGMENTS) + ':' + rnd.choice(SEGMENTS)
        if rnd.random() < 0.3:
            nme += ':' + rnd.choice(SEGMENTS)
        if nme in names and rnd.random() < 0.5:
            nme += '_%d' % len(names)
        names.add(nme)
    names = sorted(names)
    k = rnd.choice(MANY)
    k = n - 1 if k == 'all-but-one' else min(k, n - 1)
    where = rnd.choice(['first', 'first', 'last', 'anywhere', 'anywhere'])
    if where == 'first':
        dangling = set(names[:k])
    elif where == 'last':
        dangling = set(names[n - k:])
    else:
        dangling = set(rnd.sample(names, k))
    # colon-less helpers: a chain of defined aliases (each may refer to earlier ones only: no cycles) ...
    aliases = rnd.sample(ALIAS_NAMES, rnd.randint(1, 4))
    helpers = {}
    for i, a in enumerate(aliases):
        body = gen_rule(rnd, rnd.randint(0, 1), LEAVES if rnd.random() < 0.6 else ['role:admin', 'is_admin:True', '@', 'role:member', 'user_id:%(user_id)s'])
        if i and rnd.random() < 0.7:
            body = rnd.choice(['rule:<A>', 'rule:<A> or ' + body, body + ' or rule:<A>', 'rule:<A> and ' + body, 'not rule:<A>']).replace('<A>', aliases[rnd.randrange(i)])
        helpers[a] = body
    # ... and the names nothing defines; a stale alias is a defined alias whose body ends in one of them
    undefined = rnd.sample(UNDEFINED_NAMES, rnd.randint(1, 3))
    stale = None
    if k and rnd.random() < 0.4:
        stale = rnd.choice([a for a in ALIAS_NAMES if a not in helpers])
        helpers[stale] = rnd.choice(['rule:%s', 'rule:%s', 'role:admin and rule:%s', 'rule:%s or role:x']) % rnd.choice(undefined)
    plain = [nme for nme in names if nme not in dangling and rnd.random() < 0.35]       # leaf-only policies, usable as `rule:` targets too
    rules = {}
    for nme in names:
        leaf = rnd.choice(LEAVES)
        if nme in dangling:
            u = 'rule:' + (stale if stale and rnd.random() < 0.3 else rnd.choice(undefined))
            shape = rnd.randrange(10)
            if shape < 3:
                body = u
            elif shape == 3:
                body = 'not ' + u
            elif shape == 4:
                body = rnd.choice([leaf + ' and ' + u, u + ' and ' + leaf])
            elif shape == 5:
                body = rnd.choice([leaf + ' or ' + u, u + ' or ' + leaf])
            elif shape == 6:
                body = '(%s or rule:%s)' % (u, rnd.choice(aliases))
            elif shape == 7:
                body = u + rnd.choice([' or ', ' and ']) + 'rule:' + rnd.choice(undefined)
            elif shape == 8:
                body = rnd.choice([[[u]], [[u, leaf]], [[leaf], [u]]])                  # the legacy list spelling
            else:
                body = '(%s and not %s)' % (leaf, u)
        elif nme in plain:
            body = gen_rule(rnd, rnd.randint(0, 1), LEAVES)
        else:
            a = 'rule:' + (rnd.choice(plain) if plain and rnd.random() < 0.15 else rnd.choice(aliases))
            shape = rnd.randrange(8)
            if shape < 3:
                body = a
            elif shape == 3:
                body = 'not ' + a
            elif shape == 4:
                body = rnd.choice([leaf + ' and ' + a, a + ' or ' + leaf, a + ' and ' + leaf, leaf + ' or ' + a])
            elif shape == 5:
                body = [[a], [leaf]]
            else:
                body = gen_rule(rnd, rnd.randint(1, 2), LEAVES + ['rule:' + x for x in aliases])
        rules[nme] = body
    items = list(rules.items()) + list(helpers.items())
    if rnd.random() < 0.5:
        items.append(('default', rnd.choice([gen_rule(rnd, 1, LEAVES), 'role:admin', '!', '@', 'rule:' + aliases[0]])))
    rnd.shuffle(items)                              # file order is not sorted order
    rules = dict(items)
    rule = None
    if rnd.random() < 0.25:
        rule = rnd.choice([rnd.choice(names), rnd.choice(names), rnd.choice(sorted(dangling) or names), rnd.choice(aliases), rnd.choice(undefined)])
    target = gen_target(rnd) if rnd.random() < 0.3 else None
    fmt = rnd.choice(['json', 'yaml'])
    if fmt == 'yaml' and not files.yaml_roundtrips(rules):
        fmt = 'json'
    return dict(rules=rules, token=tok, sample=sample, target=target, is_admin=rnd.random() < 0.5, rule=rule, fmt=fmt)


def gen_case(rnd):
    tok, sample = gen_token(rnd)
    names = ['svc:a', 'svc:b', 'helper', 'svc:c', 'other:x', 'a:b:c', 'Zeta:x', 'svc:B', '_x:y']
    rules = {}
    for nme in names:
        if rnd.random() < 0.8:
            lv = LEAVES + (['rule:helper', 'rule:ghost', 'rule:helper'] if nme != 'helper' else ['rule:ghost'])
            rules[nme] = gen_rule(rnd, rnd.randint(0, 3), lv)
    if rnd.random() < 0.5:
        rules['default'] = gen_rule(rnd, 1, LEAVES)
    for nme in list(rules):
        if rnd.random() < 0.12:
            # the legacy list-of-lists spelling (JSON and YAML both carry it)
            rules[nme] = [[rnd.choice(['role:admin', 'role:member', 'is_admin:True', '@', 'rule:helper'])
                           for _ in range(rnd.randint(1, 2))] for _ in range(rnd.randint(0, 2))]
    if rnd.random() < 0.3:
        rules['alias:x'] = 'rule:svc:a' if 'svc:a' in rules else 'rule:helper'
    target = None
    if rnd.random() < 0.5:
        items = [('user_id', rnd.choice(['u1', 'u2'])), ('project_id', rnd.choice(['p1', 'p2'])), ('scope', rnd.choice(['all', 'none'])),
                 ('a', {'b': 'default', 'c': {'d': rnd.choice(['u1', 1]), 'e': {}}, 'z': 'after-nested'}),
                 ('target', {'project': {'id': 'p1'}, 'name': 'n'}), ('empty', {})]
        rnd.shuffle(items)                      # nested mappings before, between and after plain keys
        target = dict(items[:rnd.randint(3, len(items))])
        if rnd.random() < 0.15:
            # a target file is given, but it holds nothing (or only empty mappings): that is an EMPTY target, not "no file"
            target = rnd.choice([{}, {'target': {'project': {}}}, {'empty': {}}, {'a': {'b': {}}}])
    case = dict(rules=rules, token=tok, sample=sample, target=target, is_admin=rnd.random() < 0.5,
                rule=rnd.choice([None, None, None, 'svc:a', 'ghost:x', 'helper', 'alias:x']), fmt=rnd.choice(['json', 'yaml']))
    if rnd.random() < 0.35:
        # order stratum: names for which the place of ':' in code-point order decides the sorted order of the listing
        extra = gen_order_names(rnd)
        items = list(rules.items())
        for nme in extra:
            body = gen_rule(rnd, rnd.randint(0, 2), LEAVES + ['rule:helper'])
            items.insert(rnd.randint(0, len(items)), (nme, body))     # anywhere in the file, not at its sorted place
        case['rules'] = rules = dict(items)
        if case['rule'] is not None and rnd.random() < 0.25:
            case['rule'] = rnd.choice(extra)
        if case['fmt'] == 'yaml' and not files.yaml_roundtrips(rules):
            case['fmt'] = 'json'                    # the file must say what `rules` says
    return case


def flatten(d, pk=''):
    out = {}
    for k, v in d.items():
        nk = pk + '.' + k if pk else k
        if isinstance(v, dict):
            out.update(flatten(v, nk))
        else:
            out[nk] = v
    return out


def closure_text(rules, key):
    seen, todo, text = set(), [key], ''
    while todo:
        k = todo.pop()
        if k in seen:
            continue
        seen.add(k)
        body = rules.get(k)
        if body is None:
            body = rules.get('default', '')
        if not isinstance(body, str):
            body = json.dumps(body)
        text += ' ' + body
        todo.extend(re.findall(r'rule:([^\s()]+)', body))
    return text


def count_order_features(ctx, requested, keys):
    """Coverage of the order stratum, computed from the names themselves (never from how they were generated)."""
    if requested:
        if requested.endswith(':') or '::' in requested or re.search(r'[^:\w]|[^\x00-\x7f]', requested):
            ctx.count('order_name_requested')
        return
    below = above = False
    for a in keys:
        for b in keys:
            i = 0
            while i < len(a) and i < len(b) and a[i] == b[i]:
                i += 1
            if 0 < i < len(a) and i < len(b) and a[i] == ':':
                # a = p + ':' + ..., b = p + c + ...: the place of c relative to ':' decides which comes first
                if b[i] < ':':
                    below = True
                else:
                    above = True
    if below or above:
        ctx.count('order_name_listings')
    if below:
        ctx.count('listings_sibling_below_colon')
    if above:
        ctx.count('listings_sibling_above_colon')
    if any('::' in k or k.endswith(':') or k.startswith(':') for k in keys):
        ctx.count('listings_empty_segment')
    low = [k.lower() for k in keys]
    if len(set(low)) < len(low):
        ctx.count('listings_case_only_pair')


def rule_refs(body):
    """Names referred to with `rule:` in a policy body (string or list spelling)."""
    if isinstance(body, str):
        return re.findall(r'rule:([^\s()]+)', body)
    if isinstance(body, (list, tuple)):
        return [r for b in body for r in rule_refs(b)]
    return []


def reaches_undefined(rules, key, memo):
    """Syntactically: does the body of `key` refer, directly or through defined names, to a name the file does not define?"""
    if key in memo:
        return memo[key]
    memo[key] = False                               # cuts cycles
    res = False
    for r in rule_refs(rules[key]):
        if r not in rules or reaches_undefined(rules, r, memo):
            res = True
            break
    memo[key] = res
    return res


def count_large_features(ctx, requested, rules, keys):
    """Coverage of the large-file stratum, computed from the file itself (never from how it was generated)."""
    if requested:
        ctx.count('large_requested_rule_runs')
        return
    ctx.count('large_listings')
    memo = {}
    und = [reaches_undefined(rules, k, memo) for k in keys]
    nd = sum(und)
    if nd == 0:
        ctx.count('large_listings_no_undefined_ref')
    if nd >= 16:
        ctx.count('large_listings_16plus_undefined_refs')
        if 'default' in rules:
            ctx.count('large_listings_16plus_undefined_refs_with_default')
        else:
            ctx.count('large_listings_16plus_undefined_refs_no_default')
            seen = 0
            for k, u in zip(keys, und):
                if u:
                    seen += 1
                elif seen >= 16 and any(r in rules for r in rule_refs(rules[k])):
                    # the history "16 or more look-ups of undefined names, then an ordinary alias look-up" within ONE checker run
                    ctx.count('large_listings_defined_alias_after_16_undefined_refs_no_default')
                    break


def check_case(ctx, case):
    from oslo_policy import policy, shell
    tok = copy.deepcopy(sample_tokens()[case['sample']]) if case['sample'] is not None else case['token']
    rules = case['rules']
    tree = files.Tree(dirs=())
    try:
        tree.write('p.' + case['fmt'], rules, case['fmt'])
        tree.write_text('a.json', json.dumps(tok))
        tfile = None
        if case['target'] is not None:
            tfile = tree.write_text('t.json', json.dumps(case['target']))
        out = io.StringIO()
        tool_exc = None
        try:
            with contextlib.redirect_stdout(out):
                shell.tool(tree.path('p.' + case['fmt']), tree.path('a.json'), case['rule'], case['is_admin'], tfile)
        except Exception as e:
            tool_exc = e
        # ---- the documented derivation, done by the harness -------------------
        t = copy.deepcopy(tok['token'])
        creds = t
        creds['roles'] = [r['name'] for r in t['roles']]
        creds['user_id'] = t['user']['id']
        if t.get('project'):
            creds['project_id'] = t['project']['id']
        if t.get('system'):
            creds['system_scope'] = 'all'
            ctx.count('system_tokens')
        creds['is_admin'] = case['is_admin']
        if case['target'] is not None:
            target = flatten(case['target'])
        else:
            target = {'user_id': t['user']['id']}
            if creds.get('project_id'):
                target['project_id'] = creds['project_id']
        enf = policy.Enforcer(tree.conf(policy_file=tree.path('p.' + case['fmt']), policy_dirs=[]))
        keys = [case['rule']] if case['rule'] else sorted(k for k in rules if ':' in k)
        want = []
        for k in keys:
            try:
                r = enf.enforce(k, dict(target), copy.deepcopy(creds))
                want.append(('passed: %s' if r else 'failed: %s') % k)
            except Exception as e:
                want.append(None)                 # library itself raises: verdict unconstrained here
        got = out.getvalue().splitlines()
        nontrivial = bool(case['rule']) or (any(w and w.startswith('passed') for w in want) and any(w and w.startswith('failed') for w in want))
        large = sum(1 for k in rules if ':' in k) >= 20
        ctx.case(case, nontrivial=nontrivial, stratum='large-files' if large else None)
        if case['rule']:
            ctx.count('requested_rule_runs')
        ctx.count('verdict_lines', len(got))
        ctx.count('passed_lines', sum(1 for g in got if g.startswith('passed: ')))
        ctx.count('failed_lines', sum(1 for g in got if g.startswith('failed: ')))
        system_tok = bool(t.get('system'))
        if tool_exc is not None:
            if isinstance(tool_exc, KeyError) and case['rule'] and case['rule'] not in rules and 'default' not in rules:
                key = 'checker-unknown-rule-traceback'
            else:
                key = 'checker-raises-' + type(tool_exc).__name__
            ctx.violation(key, case, {'requested_rule': case['rule'], 'observed': '%s: %s' % (type(tool_exc).__name__, str(tool_exc)[:100]),
                                      'expected_output': want})
            return
        if None in want:
            ctx.unconstrained('library-raises-for-this-input')
            return
        if large:
            count_large_features(ctx, case['rule'], rules, keys)       # (the order counters stay those of the small-file sweep)
        else:
            count_order_features(ctx, case['rule'], keys)
        if got != want:
            diff_keys = [w.split(': ', 1)[1] for g, w in zip(got, want) if g != w] if len(got) == len(want) else []
            if len(got) != len(want) or [g.split(': ', 1)[-1] for g in got] != [w.split(': ', 1)[-1] for w in want]:
                key = 'checker-wrong-set-or-order-of-verdict-lines'
                if any(g.startswith('exception: ') for g in got):
                    key = 'checker-reports-exception'
                    texts = ' '.join(closure_text(rules, k) for k in keys)
                    if system_tok and re.search(r'\bsystem[.:]', texts):
                        key = 'checker-system-attribute'
            elif system_tok and all(re.search(r'\bsystem[.:]', closure_text(rules, k)) for k in diff_keys):
                key = 'checker-system-attribute'
            else:
                key = 'checker-verdict-differs-from-library'
            ctx.violation(key, case, {'printed': got, 'library': want, 'rules': rules, 'credentials_scope': sorted(k for k in ('project', 'domain', 'system') if t.get(k)),
                                      'is_admin': case['is_admin'], 'target': target})
    finally:
        tree.cleanup()


def run(ctx):
    # large-file stratum first, on its own random stream and with a capped share of the budget (the small-file sweep below keeps its stream and the rest)
    lrnd = ctx.sub_rnd('large-files', ctx.tier, ctx.shard, ctx.nshards)
    ctx.reserve(0.25)
    for i in range(NL[ctx.tier] // ctx.nshards + 1):
        if (i & 0x7) == 0 and ctx.expired():
            break
        case = gen_large_case(lrnd)
        check_case(ctx, case)
        if i % 40 == 0:
            ctx.sample(dict(case, token='<generated %s>' % sorted(case['token']['token'])) if case['sample'] is None else
                       dict(case, token='<sample token %d>' % case['sample']), stratum='large-files')
    ctx.release()
    ctx.stratum('large-files', exhaustive=False)
    rnd = ctx.rnd
    for i in range(N[ctx.tier] // ctx.nshards + 1):
        if (i & 0xf) == 0 and ctx.expired():
            break
        case = gen_case(rnd)
        check_case(ctx, case)
        if i % 150 == 0:
            ctx.sample(dict(case, token='<generated %s>' % sorted(case['token']['token'])) if case['sample'] is None else
                       dict(case, token='<sample token %d>' % case['sample']))
    ctx.stratum('random', exhaustive=False)
    ctx.stratum('order-sensitive-names', exhaustive=False)


def replay(ctx, case):
    check_case(ctx, case)
