"""C08 - scope types gate a policy independently of its check string.

Finite table, enumerated completely; every row decided by the real Enforcer and
compared with the statement's reference function."""
import copy
import itertools
import os

from pv.core import env
from pv.gen import files

ID = 'C08'
LEVEL = 'exploration'
TECHNIQUE = 'exhaustive decision-table monitor: real Enforcer.enforce (scope gate + check) vs reference function, every row; overlapping requests under a deterministic line-level thread scheduler (sys.monitoring)'
RULE = ('rows = 16 scope-type declarations (none + every non-empty ordered subset of system/domain/project) x '
        '12 credential combinations (system absent / `system` / `system_scope` x domain_id x project_id) x enforce_scope '
        'x do_raise x check allows/denies/depends on a role x rule overridden in the policy file or not (under its own name, or - for policies registered as renamed - under the deprecated old name) x registered as RuleDefault / DocumentedRuleDefault x rule by name / check object x '
        '4 credential representations (dict, RequestContext, to_policy_values mapping, that mapping with the `system` '
        'spelling added on top; the `system` spelling exists only for dicts and the last form); four more blocks flip '
        'enforce_scope on a LIVING enforcer (on->off->on, off->on->off, ...) and re-run the table after each flip x role content irrelevant to the check. Non-trivial = scope types declared; distinct = distinct row. Stratum `overlap`: two requests with differently scoped tokens on one enforcer at the same time (second one runs at sampled line boundaries of the first, deterministic scheduler), each decided as its row says. Stratum `alias` (counted apart, counters reference_*): registered policies whose check string - registered default, or policy-file override (own name / deprecated old name) of a default saying the opposite - is a reference to ANOTHER registered policy declaring different scope types (none included, both directions): bare `rule:x`, under not / and / or, and through a chain of two references; referenced policy allows / denies / depends on a role, itself overridden in the file or not; by name and as a check object; the gate is that of the scope types the enforced policy itself declares, and when it lets the request through the decision is that of the check (what the check of the referenced policy decides; references inside a check are not gated). Stratum `extras` (counted apart, counter rows_with_other_context_attributes): the table again - 8 scope-type declarations x the 12 credential combinations x enforce_scope x do_raise x check allows/denies/depends on a role x overridden or not x by name / check object - with credentials that carry, besides the scope-defining system scope / domain_id / project_id (varied independently as before), the OTHER attributes of a real request context in 7 profiles (project_domain_id, user_domain_id, user_id, user/project/domain names, is_admin / is_admin_project / read_only, service_* attributes, all of them together), in 5 representations: RequestContext, its to_policy_values() mapping, dict(that mapping), that dict with the `system` spelling added, and a hand-made dict holding only the keys that have a value (e.g. project_domain_id although domain_id is absent; legacy tenant / user keys); the token scope stays the function the statement gives of system scope / domain_id / project_id only, so every representation must decide as the row of the main table does. Stratum `route` (counted apart, counters rows_with_enforce_scope_set_by.*): the main table again, complete, with the option enforce_scope (on and off) set not by conf.set_override but by each of the other public routes a service has - conf.set_default, oslo_policy.opts.set_defaults(conf, enforce_scope=...) alone, opts.set_defaults(conf, policy_file=<the policy file>, enforce_scope=...) in one call, a configuration file `[oslo_policy] enforce_scope = ...` given with --config-file; the statement speaks of enforcement being on or off, not of how it was switched, so every route must decide as the row says. Stratum `placeholders` (counted apart, counters placeholder_*): registered policies whose check strings AND names contain `%(key)s` substitutions and other text that is hostile to string formatting (`project_id:%(project_id)s`, `user_id:%(user_id)s or role:admin`, `\'x\':%(k)s`, dotted keys, braces `{0}` `{name}`, names with `%(x)s`, `%s`, `%d`, a lone `%`, braces), the 16 scope-type declarations x the 12 credential combinations x dict / RequestContext / policy-values mapping x enforce_scope x do_raise x overridden in the file or not x by name / as a check object (whose printed form is that text), evaluated with non-empty targets that make the check allow and deny: whatever the check string, the gate is that of the row and otherwise the decision is exactly that of the check. Stratum `history` (counted apart, counters history_*): enforcers built and fed in every public way - constructed with rules= given or not, use_conf False / True, overwrite True / False; defaults registered with register_default one by one or register_defaults as a list, before and after the first enforce, after set_rules and again (under ANOTHER scope declaration) after clear(); set_rules(overwrite True / False, use_conf True / False) of a Rules.from_dict / plain dict / Rules.load mapping on the living enforcer; clear(); load_rules() and load_rules(force_reload=True); the policy file rewritten - 8 fixed histories plus seeded random ones, and after every stage the scope matrix (8 scope-type declarations x the 12 credential combinations x dict / RequestContext / policy-values mapping x enforce_scope flipped on the living enforcer x do_raise x check allows / denies / depends on a role x by name, and by check object at the first stage) over every policy registered at that moment; registered default, policy file and the rules handed over spell the same decision differently, so the decision of the check is the same whichever source the enforcer reads, and the scope types of the policy as registered NOW gate it however the enforcer came by its rules; where a name resolves to no rule at all (file loading off and nothing handed over) only `a scope mismatch is denied, in whichever form` is demanded.')
ASSUMPTIONS = ['oslo.context RequestContext.to_policy_values is the conversion the statement means',
               'the check decision is made independent of roles by using @ / ! (registered default) and the opposite '
               'constant as file override, so that a gate reading the wrong rule is visible',
               'attributes of the credentials other than system / system_scope / domain_id / project_id (project_domain_id, '
               'user_domain_id, names, is_admin flags, service_* attributes) are neither "a system scope" nor "a domain id" '
               'in the sense of the statement',
               'enforce_scope on/off in the statement means the value the configuration holds, by whichever public route a service set it '
               '(set_override, set_default, opts.set_defaults with or without policy_file, a configuration file)',
               'oslo_policy.opts._options (a module-level list that set_defaults mutates for every ConfigOpts of the process) is swapped '
               'for a pristine deep copy around the blocks that call set_defaults, and put back afterwards',
               'a policy name that resolves to no rule at all (enforcer with use_conf=False that was handed no rules, or after clear()) has no check in the sense '
               'of the statement: any denial is accepted on a scope mismatch, nothing is demanded otherwise',
               'the decision of `a:%(k)s` checks is taken only on targets / credentials where it is beyond doubt: key present in the target and '
               'equal to / different from the value the credentials (or the literal) carry']
LEVEL_TEXT = ('The statement quantifies over a finite product; all of it (about 2.3e4 rows) is executed against the real '
              'enforcer - complete for the stated table.')
LEVEL_NOTE = 'trusted: the reference function (token scope derivation + membership) transcribed from the statement'
PLAN = {'quick': dict(shards=4, wall=120), 'thorough': dict(shards=8, wall=300)}
# the new strata are complete enumerations (their counts do not vary): each floor lies above what the stratum yields with one block missing
MIN = {'history_rows': 24000, 'history_gate_denied_rows': 4500, 'history_gate_denied_rows_by_name_without_configuration_loading': 2400, 'history_rows_enforcer_rules_handed_over': 12000, 'history_rows_enforcer_loads_from_configuration': 9000, 'rows_with_enforce_scope_set_by.set_default': 20000, 'rows_with_enforce_scope_set_by.set_defaults': 20000, 'rows_with_enforce_scope_set_by.set_defaults_with_policy_file': 20000, 'rows_with_enforce_scope_set_by.config_file': 20000, 'rows_switched_off_by_another_route_with_scope_mismatch': 11000, 'gate_denied_rows_switched_on_by_another_route': 11000, 'placeholder_rows': 100000, 'placeholder_gate_denied_rows': 10000, 'placeholder_rows_check_allows_with_scope_mismatch_enforcement_off': 5000, 'placeholder_rows_by_name_with_formatting_text_in_the_name': 42000, 'rows_with_other_context_attributes': 30000, 'gate_denied_rows_with_other_context_attributes': 5000, 'project_token_rows_where_a_domain_named_attribute_would_flip_the_gate': 1500, 'reference_rows': 20000, 'reference_gate_denied_rows': 3000, 'reference_rows_where_referenced_scope_disagrees': 3000, 'overlapping_evaluations': 200, 'option_flips_on_living_enforcer': 2, 'evaluations': 5000, 'gate_denied_rows': 500, 'allow_decisions': 500}
ANCHORS = ['oslo_policy.policy:Enforcer._enforce_scope', 'oslo_policy.policy:Enforcer.enforce',
           'oslo_policy.policy:Enforcer._map_context_attributes_into_creds']
REQUIRED_ANCHORS = ['oslo_policy.policy:Enforcer.enforce']

SCOPES = ['system', 'domain', 'project']
DECLS = [None] + [list(p) for r in (1, 2, 3) for p in itertools.permutations(SCOPES, r)]
ROLESETS = [[], ['admin', 'member']]


def token_scope(sysmode, dom, proj):
    if sysmode != 'none':
        return 'system'
    if dom:
        return 'domain'
    return 'project'


def reference(st, res, sysmode, dom, proj, enforce_scope, do_raise):
    tok = token_scope(sysmode, dom, proj)
    if st and enforce_scope and tok not in st:
        return 'InvalidScope' if do_raise else False
    return True if res else ('PolicyNotAuthorized' if do_raise else False)


def check_value(res, roles):
    return ('admin' in roles) if res == 'role' else res


def make_creds(rep, sysmode, dom, proj, roles):
    from oslo_context import context
    if rep == 'dict':
        creds = {'roles': list(roles)}
        if sysmode != 'none':
            creds[sysmode] = 'all'
        if dom:
            creds['domain_id'] = 'd'
        if proj:
            creds['project_id'] = 'p'
        return creds
    if rep == 'pv+system':
        # the mapping of a context without system scope (it carries system_scope: None), with the older `system`
        # spelling added on top by the service
        c = context.RequestContext(system_scope=None, domain_id='d' if dom else None, project_id='p' if proj else None,
                                   roles=list(roles))
        m = dict(c.to_policy_values())
        if sysmode != 'none':
            m['system'] = 'all'
        return m
    c = context.RequestContext(system_scope='all' if sysmode != 'none' else None,
                               domain_id='d' if dom else None, project_id='p' if proj else None,
                               roles=list(roles))
    return c if rep == 'ctx' else c.to_policy_values()


# -- the routes by which a service sets the option enforce_scope -------------------------------------------------------
# `set_override` is what every other block of this module uses; the statement speaks of enforcement being on or off, not of
# how it was switched, so the table is run again with the option set by each of the other public routes.
ROUTES = ('set_override', 'set_default', 'set_defaults', 'set_defaults_with_policy_file', 'config_file')


def isolate_options():
    """opts.set_defaults() mutates a module-level option list shared by every ConfigOpts of the process: work on a deep copy,
    to be put back by restore_options() (same idiom as pv/props/c09.py).  Returns what restore_options needs."""
    from oslo_policy import opts
    pristine = getattr(opts, '_options', None)
    if pristine is not None:
        opts._options = copy.deepcopy(pristine)
        return (pristine, None)
    # the list has moved: remember the defaults through the public listing and set them back afterwards
    try:
        return (None, {o.name: o.default for grp, lst in opts.list_opts() for o in lst if o.name in ('enforce_scope', 'policy_file')})
    except Exception:
        return (None, None)


def restore_options(saved):
    from oslo_config import cfg
    from oslo_policy import opts
    pristine, defaults = saved
    if pristine is not None:
        opts._options = pristine
    elif defaults:
        try:
            opts.set_defaults(cfg.ConfigOpts(), **defaults)
        except Exception:
            pass


def route_conf(tree, route, enforce_scope):
    """A configuration for `tree` (policy file = the tree's main file, no policy directories) in which the option
    enforce_scope got its value by `route`.  Only public entry points of oslo.config / oslo_policy.opts."""
    from oslo_config import cfg
    from oslo_policy import opts
    if route == 'set_override':
        return tree.conf(policy_dirs=[], enforce_scope=enforce_scope)
    conf = cfg.ConfigOpts()
    args = []
    if route == 'config_file':
        # a real service configuration file
        tree.write_text('service.conf', '[DEFAULT]\ndebug = false\n\n[oslo_policy]\nenforce_scope = %s\npolicy_file = %s\n'
                        % ('true' if enforce_scope else 'false', tree.main))
        args = ['--config-file', tree.path('service.conf')]
    conf(args, default_config_dirs=[], default_config_files=[])
    if route == 'set_defaults':
        opts.set_defaults(conf, enforce_scope=enforce_scope)
    elif route == 'set_defaults_with_policy_file':
        opts.set_defaults(conf, policy_file=tree.main, enforce_scope=enforce_scope)
    else:
        opts.set_defaults(conf)                     # registers the library's options, changes no default
    if route == 'set_default':
        conf.set_default('enforce_scope', enforce_scope, group='oslo_policy')
    if route not in ('set_defaults_with_policy_file', 'config_file'):
        conf.set_override('policy_file', tree.main, group='oslo_policy')
    conf.set_override('policy_dirs', [], group='oslo_policy')
    return conf


def check_block(ctx, enforce_scope, override, flips=(), route='set_override'):
    """One enforcer, all rows on it.  `flips`: further values of enforce_scope applied afterwards TO THE SAME enforcer
    (the option is read from configuration on every call, so a long-lived enforcer must follow it).
    `route`: how the option got its (first) value - see ROUTES; rows of the other routes are counted apart."""
    from oslo_policy import policy, _checks
    other_route = route != 'set_override'

    class ScopedCheck(_checks.BaseCheck):
        def __init__(self, res, st):
            self.res = res
            self.scope_types = st

        def __str__(self):
            return 'scoped-check'

        def __call__(self, target, creds, enforcer, current_rule=None):
            if self.res == 'role':
                return 'admin' in [r.lower() for r in creds.get('roles', [])]
            return self.res

    saved = isolate_options() if other_route else None
    tree = files.Tree(dirs=())
    try:
        conf = route_conf(tree, route, enforce_scope)
        enf = policy.Enforcer(conf)
        names = {}
        filerules = {'unrelated': '@'}
        for i, st in enumerate(DECLS):
            for res in (True, False, 'role'):
                nm = 'pol:%d_%s' % (i, res)
                # when overridden, the registered default says the opposite of the file: a gate or a
                # check taken from the wrong place shows up as a wrong decision
                text = {True: '@', False: '!', 'role': 'role:admin'}[res]
                opposite = {True: '!', False: '@', 'role': 'not role:admin'}[res]
                kind = i % 3
                default_text = opposite if override else text
                if kind == 1:
                    # the documented flavour of a registered default
                    enf.register_default(policy.DocumentedRuleDefault(nm, default_text, 'doc', [{'path': '/p', 'method': 'GET'}],
                                                                      scope_types=st))
                    if override:
                        filerules[nm] = text
                elif kind == 2 and override:
                    # a renamed policy: the operator's file still overrides the OLD name; that override governs the check,
                    # the scope types still come from the registered default
                    dep = policy.DeprecatedRule('old:' + nm, default_text, deprecated_reason='r', deprecated_since='s')
                    enf.register_default(policy.RuleDefault(nm, default_text, deprecated_rule=dep, scope_types=st))
                    filerules['old:' + nm] = text
                else:
                    enf.register_default(policy.RuleDefault(nm, default_text, scope_types=st))
                    if override:
                        filerules[nm] = text
                names[nm] = (st, res)
        tree.write(os.path.basename(tree.main), filerules, 'json')
        passes = [enforce_scope] + list(flips)
        for pass_no, enforce_scope in enumerate(passes):
          if pass_no:
              conf.set_override('enforce_scope', enforce_scope, group='oslo_policy')
              ctx.count('option_flips_on_living_enforcer')
          for nm, (st, res) in names.items():
              for sysmode, dom, proj in itertools.product(['none', 'system', 'system_scope'], [0, 1], [0, 1]):
                  for rep in ('dict', 'ctx', 'pv', 'pv+system'):
                      if rep in ('ctx', 'pv') and sysmode == 'system':
                          continue
                      if rep == 'pv+system' and sysmode == 'system_scope':
                          continue
                      for byobj in (False, True):
                          for do_raise in (False, True):
                              for roles in ROLESETS:
                                  row = dict(scope_types=st, check_allows=res, system=sysmode, domain=dom, project=proj,
                                             rep=rep, by_object=byobj, do_raise=do_raise, enforce_scope=enforce_scope,
                                             override=override, roles=roles)
                                  if other_route:
                                      row['enforce_scope_set_by'] = route
                                  want = reference(st, check_value(res, roles), sysmode, dom, proj, enforce_scope, do_raise)
                                  creds = make_creds(rep, sysmode, dom, proj, roles)
                                  rule = ScopedCheck(res, st) if byobj else nm
                                  try:
                                      got = enf.enforce(rule, {}, creds, do_raise=do_raise)
                                      got = True if got is True else False if got is False else repr(got)
                                  except Exception as e:
                                      got = type(e).__name__
                                  gate = bool(st) and enforce_scope and token_scope(sysmode, dom, proj) not in st
                                  if other_route:
                                      # counted apart: the floors of the main table are reached by the main table alone
                                      ctx.case(['route', row], nontrivial=bool(st), stratum='route')
                                      ctx.count('rows_with_enforce_scope_set_by.' + route)
                                      if gate:
                                          ctx.count('gate_denied_rows_switched_on_by_another_route')
                                      elif st and token_scope(sysmode, dom, proj) not in st:
                                          ctx.count('rows_switched_off_by_another_route_with_scope_mismatch')
                                      ctx.observe('outcomes_by_route', '%s:%s' % (route, got))
                                  else:
                                      ctx.case(row, nontrivial=bool(st))
                                      if gate:
                                          ctx.count('gate_denied_rows')
                                      ctx.count('allow_decisions' if got is True else 'other_decisions')
                                      ctx.observe('outcomes', str(got))
                                  if got != want:
                                      if gate:
                                          key = 'scope-mismatch-not-denied'
                                      elif want in (True, False, 'PolicyNotAuthorized') and got in ('InvalidScope',):
                                          key = 'scope-gate-fires-without-mismatch'
                                      else:
                                          key = 'decision-differs-from-check'
                                      ctx.violation(key, dict(enforce_scope=passes[0], override=override, flips=list(passes[1:]), route=route),
                                                    {'row': row, 'expected': want, 'observed': got, 'enforce_scope_set_by': route})
        ctx.sample(row, 'route' if other_route else 'all')
    finally:
        tree.cleanup()
        if saved is not None:
            restore_options(saved)


# -- policies whose check is a reference to ANOTHER registered policy with different scope types ---------------------
# scope types of the policy that is enforced / of the policy its check string refers to (pairs with equal sets are skipped)
ALIAS_OWN = [None, ['system'], ['domain'], ['project'], ['domain', 'project'], ['system', 'domain', 'project']]
ALIAS_TGT = [None, ['system'], ['project'], ['system', 'domain']]
ALIAS_MID = [['domain'], ['project', 'system'], None, ['system']]     # the middle link of a chain: differs from both ends
# form -> (check string with the reference first, the same with the reference last, its negation, decision is negated)
ALIAS_FORMS = {
    'bare': ('rule:%s', 'rule:%s', 'not rule:%s', False),
    'not': ('not rule:%s', 'not rule:%s', 'rule:%s', True),
    'and': ('rule:%s and @', '@ and rule:%s', 'not rule:%s and @', False),
    'or': ('rule:%s or !', '! or rule:%s', 'not rule:%s or !', False),
    'chain': ('rule:%s', 'rule:%s', 'not rule:%s', False),            # refers to a policy that is itself a bare reference
}
ALIAS_WHERE = ('default', 'file')


def check_alias_block(ctx, enforce_scope, where, only=None):
    """Policies whose check string - the registered default (`where` = default) or the policy-file override of a
    registered default that says the opposite (`where` = file) - refers to another registered policy declaring
    DIFFERENT scope types (possibly none).  The gate is that of the policy being enforced (its own scope types, nothing
    else); when it lets the request through, the decision is that of the check, i.e. of what the check of the referenced
    policy decides - references inside a check string are part of the check and are not gated.
    One enforcer per pair (own scope types, referenced scope types): the library walks over all registered policies on
    every call, small enforcers keep the rows cheap.  `only` = [own index, referenced index] replays a single pair."""
    for oi, own in enumerate(ALIAS_OWN):
        for ti, tst in enumerate(ALIAS_TGT):
            if own == tst or (only and list(only) != [oi, ti]):
                continue
            check_alias_pair(ctx, enforce_scope, where, oi, ti)


def check_alias_pair(ctx, enforce_scope, where, oi, ti):
    from oslo_policy import policy, _checks

    class ScopedRef(_checks.BaseCheck):
        # a check object that carries scope types and whose decision is that of a parsed check string
        def __init__(self, text, st):
            self.inner = policy.RuleDefault('by-object', text).check
            self.scope_types = st

        def __str__(self):
            return 'scoped-ref'

        def __call__(self, target, creds, enforcer, current_rule=None):
            return self.inner(target, creds, enforcer, current_rule)

    own, tst = ALIAS_OWN[oi], ALIAS_TGT[ti]
    tree = files.Tree(dirs=())
    try:
        conf = tree.conf(policy_dirs=[], enforce_scope=enforce_scope)
        enf = policy.Enforcer(conf)
        filerules = {'unrelated': '@'}
        pols = []
        for ri, res in enumerate((True, False, 'role')):
            text = {True: '@', False: '!', 'role': 'role:admin'}[res]
            opposite = {True: '!', False: '@', 'role': 'not role:admin'}[res]
            # the policy referred to; every other one is itself overridden in the file (its registered default
            # then says the opposite), so that "the decision of the check" is that of its effective rule
            tgt = 'tgt:%d_%d_%s' % (oi, ti, res)
            if (oi + ti) % 2:
                enf.register_default(policy.RuleDefault(tgt, opposite, scope_types=tst))
                filerules[tgt] = text
            else:
                enf.register_default(policy.RuleDefault(tgt, text, scope_types=tst))
            mid = 'mid:%d_%d_%s' % (oi, ti, res)
            mst = [m for m in ALIAS_MID if m != own and m != tst][0]
            enf.register_default(policy.RuleDefault(mid, 'rule:' + tgt, scope_types=mst))
            for fi, (form, (first, last, negation, negated)) in enumerate(ALIAS_FORMS.items()):
                idx = ((oi * len(ALIAS_TGT) + ti) * 3 + ri) * len(ALIAS_FORMS) + fi + 1
                nm = 'ref:%s:%d_%d_%s' % (form, oi, ti, res)
                ref = mid if form == 'chain' else tgt
                eff = (first if idx % 2 else last) % ref
                kind = idx % 3
                default_text = (negation % ref) if where == 'file' else eff
                if kind == 1:
                    enf.register_default(policy.DocumentedRuleDefault(nm, default_text, 'doc', [{'path': '/p', 'method': 'GET'}],
                                                                      scope_types=own))
                    if where == 'file':
                        filerules[nm] = eff
                elif kind == 2 and where == 'file':
                    # renamed policy, the operator's file still carries the reference under the OLD name
                    dep = policy.DeprecatedRule('old:' + nm, default_text, deprecated_reason='r', deprecated_since='s')
                    enf.register_default(policy.RuleDefault(nm, default_text, deprecated_rule=dep, scope_types=own))
                    filerules['old:' + nm] = eff
                else:
                    enf.register_default(policy.RuleDefault(nm, default_text, scope_types=own))
                    if where == 'file':
                        filerules[nm] = eff
                pols.append((nm, res, form, negated, eff, idx))
        tree.write(os.path.basename(tree.main), filerules, 'json')
        case = dict(alias=True, enforce_scope=enforce_scope, where=where, pair=[oi, ti])
        row = None
        for nm, res, form, negated, eff, idx in pols:
            # role content is irrelevant to a constant check (the main table has that); both role sets where it matters
            rolesets = ROLESETS if res == 'role' else [ROLESETS[idx % 2]]
            obj = ScopedRef(eff, own)
            for sysmode, dom, proj in itertools.product(['none', 'system', 'system_scope'], [0, 1], [0, 1]):
                for rep, byobj in (('dict', False), ('dict', True), ('ctx', False)):
                    if rep == 'ctx' and sysmode == 'system':
                        continue
                    for do_raise in (False, True):
                        for roles in rolesets:
                            row = dict(scope_types=own, referenced_scope_types=tst, referenced_allows=res, form=form, check=eff,
                                       system=sysmode, domain=dom, project=proj, rep=rep, by_object=byobj, do_raise=do_raise,
                                       enforce_scope=enforce_scope, where=where, roles=roles)
                            val = check_value(res, roles)
                            want = reference(own, (not val) if negated else val, sysmode, dom, proj, enforce_scope, do_raise)
                            creds = make_creds(rep, sysmode, dom, proj, roles)
                            rule = obj if byobj else nm
                            try:
                                got = enf.enforce(rule, {}, creds, do_raise=do_raise)
                                got = True if got is True else False if got is False else repr(got)
                            except Exception as e:
                                got = type(e).__name__
                            ctx.case(['alias', row], nontrivial=True, stratum='alias')
                            ctx.count('reference_rows')
                            tok = token_scope(sysmode, dom, proj)
                            gate = bool(own) and enforce_scope and tok not in own
                            if gate:
                                ctx.count('reference_gate_denied_rows')
                            if enforce_scope and gate != (bool(tst) and tok not in tst):
                                # a gate taken from the referenced policy would decide this row differently
                                ctx.count('reference_rows_where_referenced_scope_disagrees')
                            ctx.observe('reference_outcomes', str(got))
                            if got != want:
                                if gate:
                                    key = 'scope-mismatch-not-denied'
                                elif got == 'InvalidScope':
                                    key = 'scope-gate-fires-without-mismatch'
                                else:
                                    key = 'decision-differs-from-check'
                                ctx.violation(key, case, {'row': row, 'policy': nm, 'expected': want, 'observed': got})
        ctx.sample(row, 'alias')
    finally:
        tree.cleanup()


# -- credentials that carry MORE than the three scope-defining attributes ---------------------------------------------
# What a real request context carries besides system_scope / domain_id / project_id / roles (keyword arguments of
# oslo_context.context.RequestContext).  None of them is "a system scope" or "a domain id" of the credentials: the token
# scope stays the statement's function of system scope / domain_id / project_id only, whatever else is carried.
EXTRA_PROFILES = [
    ('keystone-token', dict(user_id='u', user_domain_id='ud', project_domain_id='pd', user_name='un', project_name='pn',
                            user_domain_name='udn', project_domain_name='pdn')),
    ('project-domain-id', dict(project_domain_id='pd')),
    ('user-domain-id', dict(user_domain_id='ud')),
    ('names', dict(user_id='u', user_name='un', project_name='pn', domain_name='dn', user_domain_name='udn',
                   project_domain_name='pdn')),
    ('admin-flags', dict(is_admin=True, is_admin_project=False, read_only=True, show_deleted=True)),
    ('service-token', dict(service_token='st', service_user_id='su', service_user_name='sun', service_user_domain_id='sud',
                           service_user_domain_name='sudn', service_project_id='sp', service_project_name='spn',
                           service_project_domain_id='spd', service_project_domain_name='spdn',
                           service_roles=['service', 'admin'])),
    ('everything', dict(auth_token='tok', user_id='u', user_domain_id='ud', project_domain_id='pd', is_admin=True,
                        is_admin_project=True, user_name='un', project_name='pn', domain_name='dn', user_domain_name='udn',
                        project_domain_name='pdn', service_token='st', service_user_id='su', service_user_domain_id='sud',
                        service_project_id='sp', service_project_domain_id='spd', service_roles=['service'],
                        request_id='req-1', global_request_id='req-00000000-0000-0000-0000-000000000000',
                        resource_uuid='res')),
]
# older spellings a service may still put into a hand-made credentials dict (hand-made dict form only)
EXTRA_LEGACY_KEYS = {'names': {'tenant': 'pn', 'user': 'u'}, 'everything': {'tenant': 'pn', 'tenant_id': 't', 'user': 'u'}}
# attributes that have "domain" in their name without being the domain id of the token
DOMAIN_LIKE = ('project_domain_id', 'user_domain_id', 'domain_name', 'user_domain_name', 'project_domain_name',
               'service_user_domain_id', 'service_project_domain_id')
# scope-type declarations of the extra pass (orderings included; the complete set of orderings is the main table's)
EXTRA_DECLS = [None, ['system'], ['domain'], ['project'], ['system', 'project'], ['project', 'domain'], ['domain', 'system'],
               ['system', 'domain', 'project']]
EXTRA_REPS = ('handmade', 'ctx', 'pv', 'dict', 'pv+system')


def make_extra_creds(rep, sysmode, dom, proj, roles, extra):
    """The five credential forms of the extra pass.  `handmade`: a plain dict holding only the keys that have a value (so
    e.g. `project_domain_id` although `domain_id` is absent); `ctx`: a RequestContext; `pv`: the mapping its
    to_policy_values() returns; `dict`: dict(that mapping) - the equivalent plain dict; `pv+system`: as in the main table."""
    from oslo_context import context
    kwargs = {k: (list(v) if isinstance(v, list) else v) for k, v in dict(EXTRA_PROFILES)[extra].items()}
    if rep == 'handmade':
        creds = {'roles': list(roles)}
        if sysmode != 'none':
            creds[sysmode] = 'all'
        if dom:
            creds['domain_id'] = 'd'
        if proj:
            creds['project_id'] = 'p'
        creds.update(kwargs)
        creds.update(EXTRA_LEGACY_KEYS.get(extra, {}))
        return creds
    if rep == 'pv+system':
        c = context.RequestContext(system_scope=None, domain_id='d' if dom else None, project_id='p' if proj else None,
                                   roles=list(roles), **kwargs)
        m = dict(c.to_policy_values())
        if sysmode != 'none':
            m['system'] = 'all'
        return m
    c = context.RequestContext(system_scope='all' if sysmode != 'none' else None,
                               domain_id='d' if dom else None, project_id='p' if proj else None,
                               roles=list(roles), **kwargs)
    if rep == 'ctx':
        return c
    return c.to_policy_values() if rep == 'pv' else dict(c.to_policy_values())


def check_extras_block(ctx, enforce_scope, override):
    """One enforcer; every row of a table like the main one, with credentials that carry - besides the scope-defining
    system scope / domain_id / project_id, varied independently as before - the other attributes of a real request context.
    Reference: the same function of system scope / domain_id / project_id as everywhere else."""
    from oslo_policy import policy, _checks

    class ScopedCheck(_checks.BaseCheck):
        def __init__(self, res, st):
            self.res = res
            self.scope_types = st

        def __str__(self):
            return 'scoped-check'

        def __call__(self, target, creds, enforcer, current_rule=None):
            if self.res == 'role':
                return 'admin' in [r.lower() for r in creds.get('roles', [])]
            return self.res

    tree = files.Tree(dirs=())
    try:
        conf = tree.conf(policy_dirs=[], enforce_scope=enforce_scope)
        enf = policy.Enforcer(conf)
        pols = []
        filerules = {'unrelated': '@'}
        for i, st in enumerate(EXTRA_DECLS):
            for ri, res in enumerate((True, False, 'role')):
                nm = 'xpol:%d_%s' % (i, res)
                text = {True: '@', False: '!', 'role': 'role:admin'}[res]
                opposite = {True: '!', False: '@', 'role': 'not role:admin'}[res]
                kind = (i + ri) % 3
                default_text = opposite if override else text
                if kind == 1:
                    enf.register_default(policy.DocumentedRuleDefault(nm, default_text, 'doc', [{'path': '/p', 'method': 'GET'}],
                                                                      scope_types=st))
                    if override:
                        filerules[nm] = text
                elif kind == 2 and override:
                    dep = policy.DeprecatedRule('old:' + nm, default_text, deprecated_reason='r', deprecated_since='s')
                    enf.register_default(policy.RuleDefault(nm, default_text, deprecated_rule=dep, scope_types=st))
                    filerules['old:' + nm] = text
                else:
                    enf.register_default(policy.RuleDefault(nm, default_text, scope_types=st))
                    if override:
                        filerules[nm] = text
                pols.append((nm, st, res, i * 3 + ri))
        tree.write(os.path.basename(tree.main), filerules, 'json')
        case = dict(extras=True, enforce_scope=enforce_scope, override=override)
        row = None
        for nm, st, res, idx in pols:
            # role content is irrelevant to a constant check (the main table has that); both role sets where it matters
            rolesets = ROLESETS if res == 'role' else [ROLESETS[idx % 2]]
            for extra, attrs in EXTRA_PROFILES:
                domain_like = any(attrs.get(k) for k in DOMAIN_LIKE)
                for sysmode, dom, proj in itertools.product(['none', 'system', 'system_scope'], [0, 1], [0, 1]):
                    tok = token_scope(sysmode, dom, proj)
                    gate = bool(st) and enforce_scope and tok not in st
                    for rep in EXTRA_REPS:
                        if rep in ('ctx', 'pv', 'dict') and sysmode == 'system':
                            continue
                        if rep == 'pv+system' and sysmode == 'system_scope':
                            continue
                        for byobj in (False, True):
                            for do_raise in (False, True):
                                for roles in rolesets:
                                    row = dict(scope_types=st, check_allows=res, system=sysmode, domain=dom, project=proj,
                                               other_attributes=extra, rep=rep, by_object=byobj, do_raise=do_raise,
                                               enforce_scope=enforce_scope, override=override, roles=roles)
                                    want = reference(st, check_value(res, roles), sysmode, dom, proj, enforce_scope, do_raise)
                                    creds = make_extra_creds(rep, sysmode, dom, proj, roles, extra)
                                    rule = ScopedCheck(res, st) if byobj else nm
                                    try:
                                        got = enf.enforce(rule, {}, creds, do_raise=do_raise)
                                        got = True if got is True else False if got is False else repr(got)
                                    except Exception as e:
                                        got = type(e).__name__
                                    ctx.case(['extras', row], nontrivial=bool(st), stratum='extras')
                                    ctx.count('rows_with_other_context_attributes')
                                    if gate:
                                        ctx.count('gate_denied_rows_with_other_context_attributes')
                                    if st and enforce_scope and tok == 'project' and domain_like and ('domain' in st) != ('project' in st):
                                        # a project token whose gate would come out differently if one of the attributes that
                                        # merely mention a domain were taken for the token's domain id
                                        ctx.count('project_token_rows_where_a_domain_named_attribute_would_flip_the_gate')
                                    ctx.observe('outcomes_with_other_context_attributes', str(got))
                                    if got != want:
                                        if gate:
                                            key = 'scope-mismatch-not-denied'
                                        elif got == 'InvalidScope':
                                            key = 'scope-gate-fires-without-mismatch'
                                        else:
                                            key = 'decision-differs-from-check'
                                        ctx.violation(key, case, {'row': row, 'policy': nm, 'expected': want, 'observed': got,
                                                                  'attributes_carried_besides_scope': attrs})
        ctx.sample(row, 'extras')
    finally:
        tree.cleanup()


# -- check strings and policy names that contain `%(key)s` substitutions and other formatting-hostile text -------------
# "whatever the check string ... says" / "the decision is exactly that of the check": the real check strings of services are
# mostly of the form `project_id:%(project_id)s`; their decision depends on the TARGET.  Every entry: the check string, a check
# string that says the opposite (the registered default when the policy file overrides), and targets with the decision of the
# check on each: True / False / `role` (allows iff the credentials hold the role admin) / `project` (allows iff the
# credentials carry the project id p) / `brace-role` (allows iff the credentials hold the role spelled `{name}`).
# The credentials of this pass always carry user_id u (no scope-defining attribute).
PLACEHOLDER_CHECKS = [
    ('project_id:%(project_id)s', 'not project_id:%(project_id)s',
     [({'project_id': 'p'}, 'project'), ({'project_id': 'q', 'name': 'n'}, False)]),
    ('user_id:%(user_id)s or role:admin', 'not user_id:%(user_id)s and not role:admin',
     [({'user_id': 'u'}, True), ({'user_id': 'v', 'project_id': 'p'}, 'role')]),
    ("'x':%(k)s", "not 'x':%(k)s", [({'k': 'x'}, True), ({'k': 'y', 'x': 'x'}, False)]),
    ('user_id:%(target.user.id)s', 'not user_id:%(target.user.id)s',
     [({'target.user.id': 'u'}, True), ({'target.user.id': 'w', 'user_id': 'u'}, False)]),
    ('role:{name}', 'not role:{name}', [({'name': 'admin', '0': 'admin'}, 'brace-role')]),
    ("'{0}':%(k)s and user_id:%(user_id)s", "not '{0}':%(k)s or not user_id:%(user_id)s",
     [({'k': '{0}', 'user_id': 'u'}, True), ({'k': '{1}', 'user_id': 'u'}, False)]),
    # plain checks under the names below, evaluated with a target that has something for every placeholder of the names
    ('@', '!', [({'x': 'get', 'project_id': 'p', 'get': 'g', 'name': 'n'}, True)]),
    ('!', '@', [({'x': 'get', 'project_id': 'p', 'get': 'g', 'name': 'n'}, False)]),
    ('role:admin', 'not role:admin', [({'x': 'get', 'project_id': 'p', 'get': 'g', 'name': 'n'}, 'role')]),
]
# name styles (a serial number is appended); the first is plain, the others carry substitutions, positional conversions,
# a lone per-cent sign, braces
PLACEHOLDER_NAMES = ['svc:get:', 'svc:%(x)s:get:', 'svc:{get}:', 'svc:%(project_id)s:show:', 'svc:{0}:{name}:', 'svc:100%:', 'svc:%s:%d:']
PLACEHOLDER_REPS = ('dict', 'ctx', 'pv')
BRACE_ROLESETS = [[], ['{name}', 'member']]


def placeholder_value(val, roles, proj):
    if val == 'role':
        return 'admin' in roles
    if val == 'brace-role':
        return '{name}' in roles
    if val == 'project':
        return bool(proj)
    return val


def make_placeholder_creds(rep, sysmode, dom, proj, roles):
    from oslo_context import context
    if rep == 'dict':
        creds = make_creds('dict', sysmode, dom, proj, roles)
        creds['user_id'] = 'u'
        return creds
    c = context.RequestContext(system_scope='all' if sysmode != 'none' else None, user_id='u',
                               domain_id='d' if dom else None, project_id='p' if proj else None, roles=list(roles))
    return c if rep == 'ctx' else c.to_policy_values()


def check_placeholder_block(ctx, enforce_scope, override):
    """One enforcer; registered policies whose check strings and names are full of formatting syntax; rows as in the main
    table, with targets.  Reference: the gate as everywhere else, otherwise the decision the check has on that target."""
    from oslo_policy import policy, _checks

    class ScopedText(_checks.BaseCheck):
        # a check object that carries scope types, decides as the parsed check string does and prints as that text
        def __init__(self, text, st):
            self.text = text
            self.inner = policy.RuleDefault('by-object', text).check
            self.scope_types = st

        def __str__(self):
            return self.text

        def __call__(self, target, creds, enforcer, current_rule=None):
            return self.inner(target, creds, enforcer, current_rule)

    tree = files.Tree(dirs=())
    try:
        conf = tree.conf(policy_dirs=[], enforce_scope=enforce_scope)
        enf = policy.Enforcer(conf)
        pols = []
        filerules = {'unrelated:%(x)s:{0}': '@'}
        for i, st in enumerate(DECLS):
            for j, (text, opposite, targets) in enumerate(PLACEHOLDER_CHECKS):
                idx = i * len(PLACEHOLDER_CHECKS) + j
                style = (i + j) % len(PLACEHOLDER_NAMES)
                nm = PLACEHOLDER_NAMES[style] + str(idx)
                kind = idx % 3
                default_text = opposite if override else text
                if kind == 1:
                    enf.register_default(policy.DocumentedRuleDefault(nm, default_text, 'doc', [{'path': '/p/{id}', 'method': 'GET'}],
                                                                      scope_types=st))
                    if override:
                        filerules[nm] = text
                elif kind == 2 and override:
                    dep = policy.DeprecatedRule('old:' + nm, default_text, deprecated_reason='r', deprecated_since='s')
                    enf.register_default(policy.RuleDefault(nm, default_text, deprecated_rule=dep, scope_types=st))
                    filerules['old:' + nm] = text
                else:
                    enf.register_default(policy.RuleDefault(nm, default_text, scope_types=st))
                    if override:
                        filerules[nm] = text
                pols.append((nm, st, text, targets, idx, style))
        tree.write(os.path.basename(tree.main), filerules, 'json')
        case = dict(placeholders=True, enforce_scope=enforce_scope, override=override)
        row = None
        for nm, st, text, targets, idx, style in pols:
            obj = ScopedText(text, st)
            for ti, (target, val) in enumerate(targets):
                rolesets = ROLESETS if val == 'role' else BRACE_ROLESETS if val == 'brace-role' else [ROLESETS[(idx + ti) % 2]]
                for sysmode, dom, proj in itertools.product(['none', 'system', 'system_scope'], [0, 1], [0, 1]):
                    tok = token_scope(sysmode, dom, proj)
                    gate = bool(st) and enforce_scope and tok not in st
                    for rep in PLACEHOLDER_REPS:
                        if rep != 'dict' and sysmode == 'system':
                            continue
                        for byobj in (False, True):
                            for do_raise in (False, True):
                                for roles in rolesets:
                                    row = dict(scope_types=st, name=nm, check=text, target=target, system=sysmode, domain=dom, project=proj,
                                               rep=rep, by_object=byobj, do_raise=do_raise, enforce_scope=enforce_scope,
                                               override=override, roles=roles)
                                    allows = placeholder_value(val, roles, proj)
                                    want = reference(st, allows, sysmode, dom, proj, enforce_scope, do_raise)
                                    creds = make_placeholder_creds(rep, sysmode, dom, proj, roles)
                                    try:
                                        got = enf.enforce(obj if byobj else nm, dict(target), creds, do_raise=do_raise)
                                        got = True if got is True else False if got is False else repr(got)
                                    except Exception as e:
                                        got = type(e).__name__
                                    ctx.case(['placeholders', row], nontrivial=bool(st), stratum='placeholders')
                                    ctx.count('placeholder_rows')
                                    if style and not byobj:
                                        ctx.count('placeholder_rows_by_name_with_formatting_text_in_the_name')
                                    if gate:
                                        ctx.count('placeholder_gate_denied_rows')
                                    elif st and tok not in st and allows:
                                        # the row where only a warning about the scope is due and the check lets the request through
                                        ctx.count('placeholder_rows_check_allows_with_scope_mismatch_enforcement_off')
                                    ctx.observe('placeholder_outcomes', str(got))
                                    if got != want:
                                        if gate:
                                            key = 'scope-mismatch-not-denied'
                                        elif got == 'InvalidScope':
                                            key = 'scope-gate-fires-without-mismatch'
                                        else:
                                            key = 'decision-differs-from-check'
                                        ctx.violation(key, case, {'row': row, 'policy': nm, 'expected': want, 'observed': got})
        ctx.sample(row, 'placeholders')
    finally:
        tree.cleanup()


# -- enforcers built and fed in every public way ------------------------------------------------------------------------
# The statement speaks of "a registered policy" and of the decision of "the check": it does not say how the enforcer came by
# its rules.  A history = how an enforcer is constructed (rules= given or not, use_conf, overwrite) followed by operations of
# its public interface; `probe` runs the scope matrix over every policy registered at that moment.
#   ['new', rules_given, use_conf, overwrite] / ['reg', group, 'each' | 'list'] (register_default one by one / register_defaults)
#   ['set', overwrite, use_conf, form] (set_rules of the complete rule set; form = how the mapping was made) / ['clear']
#   ['reload'] (load_rules(force_reload=True)) / ['load'] (load_rules()) / ['touch'] (policy file rewritten) / ['probe']
# Every source of a policy's check (registered default, policy file, rules handed over) spells the SAME decision differently,
# so "the decision of the check" does not depend on which source the enforcer currently reads; the only thing modelled is
# whether the name resolves at all (it does not in an enforcer that neither loads from configuration nor was handed rules).
HISTORY_DECLS = [None, ['system'], ['domain'], ['project'], ['system', 'project'], ['project', 'domain'], ['domain', 'system'],
                 ['system', 'domain', 'project']]
HISTORY_GROUPS = 3
HISTORY_SPELLINGS = {True: ('@', 'not !', '@ or !'), False: ('!', 'not @', '! and @'),
                     'role': ('role:admin', 'role:admin or !', 'role:admin and @')}     # default / file / handed over
HISTORY_FORMS = ('Rules.from_dict', 'dict', 'Rules.load')
HISTORIES = [
    # rules handed over, file loading off, defaults registered as usual (one by one / as a list / in stages between probes)
    [['new', True, False, True], ['reg', 0, 'each'], ['reg', 1, 'list'], ['reg', 2, 'each'], ['probe']],
    [['new', True, False, True], ['reg', 0, 'list'], ['probe'], ['reg', 1, 'each'], ['probe'], ['load'], ['reg', 2, 'list'], ['probe']],
    # a living file-backed enforcer whose rules are replaced / updated, defaults registered afterwards
    [['new', False, True, True], ['reg', 0, 'each'], ['probe'], ['set', True, False, 0], ['reg', 1, 'each'], ['probe'],
     ['set', False, True, 1], ['reg', 2, 'list'], ['probe']],
    [['new', False, True, True], ['reg', 0, 'list'], ['reg', 1, 'list'], ['reg', 2, 'list'], ['probe'], ['set', False, False, 2], ['probe'],
     ['reload'], ['probe'], ['clear'], ['reg', 0, 'each'], ['reg', 1, 'each'], ['probe'], ['set', True, False, 1], ['probe'],
     ['touch'], ['set', True, True, 0], ['reg', 2, 'each'], ['probe']],
    [['new', True, True, False], ['reg', 0, 'each'], ['set', True, False, 2], ['probe'], ['reg', 1, 'list'], ['load'], ['probe'], ['clear'],
     ['set', True, False, 0], ['reg', 2, 'each'], ['probe'], ['reg', 0, 'list'], ['probe'], ['reload'], ['probe']],
    # nothing handed over and file loading off: the names do not resolve until rules arrive
    [['new', False, False, True], ['reg', 0, 'each'], ['reg', 2, 'list'], ['probe'], ['set', False, False, 1], ['probe'], ['reg', 1, 'each'],
     ['probe'], ['clear'], ['reg', 1, 'list'], ['set', True, True, 2], ['probe'], ['set', False, False, 0], ['reg', 0, 'each'], ['probe']],
    [['new', True, False, False], ['reg', 1, 'each'], ['probe'], ['set', False, True, 0], ['probe'], ['touch'], ['probe'],
     ['set', True, False, 1], ['reg', 0, 'list'], ['reg', 2, 'each'], ['probe'], ['clear'], ['reg', 2, 'each'], ['reload'], ['probe']],
    [['new', False, True, False], ['probe'], ['reg', 2, 'each'], ['set', False, False, 2], ['reg', 0, 'each'], ['probe'], ['clear'],
     ['reg', 0, 'list'], ['reg', 1, 'list'], ['reg', 2, 'list'], ['set', True, False, 0], ['probe'], ['load'], ['probe']],
]
HISTORIES_RANDOM = {'quick': 2, 'thorough': 12}       # per shard, besides the fixed ones


def gen_history(ctx, i):
    r = ctx.sub_rnd('H', ctx.tier, ctx.shard, i)
    ops = [['new', r.random() < 0.5, r.random() < 0.4, r.random() < 0.7]]
    registered, probes = set(), 0
    while probes < 5 and len(ops) < 24:
        x = r.random()
        free = [g for g in range(HISTORY_GROUPS) if g not in registered]
        if x < 0.3 and free:
            g = r.choice(free)
            registered.add(g)
            ops.append(['reg', g, r.choice(['each', 'list'])])
        elif x < 0.55:
            ops.append(['set', r.random() < 0.5, r.random() < 0.35, r.randrange(3)])
        elif x < 0.63:
            ops.append(['clear'])
            registered = set()
        elif x < 0.70:
            ops.append([r.choice(['reload', 'load', 'touch'])])
        elif registered and ops[-1] != ['probe']:
            ops.append(['probe'])
            probes += 1
    if ops[-1] != ['probe']:
        ops.append(['probe'])
    return ops


def check_history(ctx, ops):
    from oslo_policy import policy, _checks

    class ScopedCheck(_checks.BaseCheck):
        def __init__(self, res, st):
            self.res = res
            self.scope_types = st

        def __str__(self):
            return 'scoped-check'

        def __call__(self, target, creds, enforcer, current_rule=None):
            if self.res == 'role':
                return 'admin' in [r.lower() for r in creds.get('roles', [])]
            return self.res

    pols = []                      # (name, index of the declaration before any clear(), check decision, serial number)
    for i in range(len(HISTORY_DECLS)):
        for ri, res in enumerate((True, False, 'role')):
            pols.append(('hpol:%d_%s' % (i, res), i, res, i * 3 + ri))
    handed = {nm: HISTORY_SPELLINGS[res][2] for nm, i, res, idx in pols}
    filerules = {'unrelated': '@'}
    for nm, i, res, idx in pols:
        if idx % 2:
            filerules[('old:' + nm) if idx % 3 == 2 and idx % 4 == 1 else nm] = HISTORY_SPELLINGS[res][1]

    def mapping(form):
        if form == 'dict':
            return dict(policy.Rules.from_dict(handed))
        if form == 'Rules.load':
            import json
            return policy.Rules.load(json.dumps(handed))
        return policy.Rules.from_dict(handed)

    def default_of(nm, res, idx, st):
        text = HISTORY_SPELLINGS[res][0]
        if idx % 3 == 1:
            return policy.DocumentedRuleDefault(nm, text, 'doc', [{'path': '/p', 'method': 'GET'}], scope_types=st)
        if idx % 3 == 2:
            dep = policy.DeprecatedRule('old:' + nm, HISTORY_SPELLINGS[res][2], deprecated_reason='r', deprecated_since='s')
            return policy.RuleDefault(nm, text, deprecated_rule=dep, scope_types=st)
        return policy.RuleDefault(nm, text, scope_types=st)

    tree = files.Tree(dirs=())
    try:
        tree.write(os.path.basename(tree.main), filerules, 'json')
        conf = tree.conf(policy_dirs=[], enforce_scope=True)
        enf = None
        use_conf = handed_over = False
        registered = {}                         # name -> (scope types it was registered with, check decision, serial number)
        epoch = 0
        case = dict(history=True, ops=ops)
        hid = repr(ops)
        row, probes_done = None, 0
        for step, op in enumerate(ops):
            if op[0] == 'new':
                rules_given, use_conf, overwrite = op[1:4]
                enf = policy.Enforcer(conf, rules=mapping('Rules.from_dict') if rules_given else None, use_conf=use_conf, overwrite=overwrite)
                handed_over = bool(rules_given)
            elif op[0] == 'reg':
                todo = []
                for nm, i, res, idx in pols:
                    if idx % HISTORY_GROUPS == op[1] and nm not in registered:
                        # after a clear() the same name is registered with ANOTHER declaration
                        st = HISTORY_DECLS[(i + 3 * epoch) % len(HISTORY_DECLS)]
                        todo.append(default_of(nm, res, idx, st))
                        registered[nm] = (st, res, idx)
                if op[2] == 'list':
                    enf.register_defaults(todo)
                else:
                    for d in todo:
                        enf.register_default(d)
            elif op[0] == 'set':
                enf.set_rules(mapping(HISTORY_FORMS[op[3]]), overwrite=op[1], use_conf=op[2])
                use_conf, handed_over = op[2], True
            elif op[0] == 'clear':
                enf.clear()
                use_conf = handed_over = False
                registered = {}
                epoch += 1
            elif op[0] == 'reload':
                enf.load_rules(force_reload=True)
                use_conf = True
            elif op[0] == 'load':
                enf.load_rules()
            elif op[0] == 'touch':
                tree.write(os.path.basename(tree.main), filerules, 'json')
            elif op[0] == 'probe':
                resolves = use_conf or handed_over
                state = 'loads_from_configuration' if use_conf else 'rules_handed_over' if handed_over else 'no_rules_at_all'
                for enforce_scope in (True, False):
                    conf.set_override('enforce_scope', enforce_scope, group='oslo_policy')
                    for nm, (st, res, idx) in registered.items():
                        rolesets = ROLESETS if res == 'role' else [ROLESETS[(idx + step) % 2]]
                        for sysmode, dom, proj in itertools.product(['none', 'system', 'system_scope'], [0, 1], [0, 1]):
                            tok = token_scope(sysmode, dom, proj)
                            gate = bool(st) and enforce_scope and tok not in st
                            # by name with a plain dict always; RequestContext / its mapping alternate over policies and steps; the
                            # check-object rows (no registration involved) at the first probe of the history only
                            for rep, byobj in (('dict', False), ('dict', True), (('ctx', 'pv')[(idx + step) % 2], False)):
                                if (rep != 'dict' and sysmode == 'system') or (byobj and probes_done):
                                    continue
                                for do_raise in (False, True):
                                    for roles in rolesets:
                                        row = dict(scope_types=st, check_allows=res, system=sysmode, domain=dom, project=proj, rep=rep,
                                                   by_object=byobj, do_raise=do_raise, enforce_scope=enforce_scope, roles=roles,
                                                   step=step, enforcer=state, registrations_cleared=epoch)
                                        want = reference(st, check_value(res, roles), sysmode, dom, proj, enforce_scope, do_raise)
                                        creds = make_creds(rep, sysmode, dom, proj, roles)
                                        try:
                                            got = enf.enforce(ScopedCheck(res, st) if byobj else nm, {}, creds, do_raise=do_raise)
                                            got = True if got is True else False if got is False else repr(got)
                                        except Exception as e:
                                            got = type(e).__name__
                                        ctx.case(['history', hid, row], nontrivial=bool(st), stratum='history')
                                        ctx.count('history_rows')
                                        ctx.count('history_rows_enforcer_' + state)
                                        if gate:
                                            ctx.count('history_gate_denied_rows')
                                            if not use_conf and not byobj:
                                                ctx.count('history_gate_denied_rows_by_name_without_configuration_loading')
                                        ctx.observe('history_outcomes', '%s:%s' % (state, got))
                                        if not (resolves or byobj):
                                            # no rule under that name anywhere: the statement does not say what "the check" decides;
                                            # a scope mismatch is still to be denied, in whichever form
                                            ctx.unconstrained('policy_name_resolves_to_no_rule')
                                            if gate and got not in (False, 'InvalidScope', 'PolicyNotAuthorized'):
                                                ctx.violation('scope-mismatch-not-denied', case,
                                                              {'row': row, 'policy': nm, 'expected': 'a denial', 'observed': got})
                                            continue
                                        if got != want:
                                            if gate:
                                                key = 'scope-mismatch-not-denied'
                                            elif got == 'InvalidScope':
                                                key = 'scope-gate-fires-without-mismatch'
                                            else:
                                                key = 'decision-differs-from-check'
                                            ctx.violation(key, case, {'row': row, 'policy': nm, 'expected': want, 'observed': got})
                conf.set_override('enforce_scope', True, group='oslo_policy')
                probes_done += 1
        if row:
            ctx.sample(dict(ops=ops, last_row=row), 'history')
    finally:
        tree.cleanup()


OVERLAPS = {'quick': 12, 'thorough': 200}


def check_overlap(ctx, case):
    """Two requests with differently scoped tokens enforce two scoped policies on one enforcer at the same time: each row is
    decided as the table says (a scope computed for one request must never gate the other)."""
    from oslo_policy import policy
    from pv.mon import overlap
    tree = files.Tree(dirs=())
    try:
        enf = policy.Enforcer(tree.conf(policy_dirs=[], enforce_scope=True))
        filerules = {'unrelated': '@'}
        for i, st in enumerate(DECLS):
            for res in (True, False, 'role'):
                nm = 'pol:%d_%s' % (i, res)
                text = {True: '@', False: '!', 'role': 'role:admin'}[res]
                opposite = {True: '!', False: '@', 'role': 'not role:admin'}[res]
                enf.register_default(policy.RuleDefault(nm, opposite if case['override'] else text, scope_types=st))
                if case['override']:
                    filerules[nm] = text
        tree.write(os.path.basename(tree.main), filerules, 'json')
        enf.load_rules()
        calls, want = [], []
        for row in (case['a'], case['b']):
            st = DECLS[row['decl']]
            nm = 'pol:%d_%s' % (row['decl'], row['res'])
            w = reference(st, check_value(row['res'], row['roles']), row['system'], row['domain'], row['project'], True, row['do_raise'])
            want.append(['returned', w] if isinstance(w, bool) else ['raised', w])
            calls.append((nm, {}, make_creds('dict', row['system'], row['domain'], row['project'], row['roles']), {'do_raise': row['do_raise']}))
        ctx.case(['overlap', case['override'], case['a'], case['b']], True, 'overlap')
        detail = {'override_in_file': case['override'], 'request_a': case['a'], 'request_b': case['b'], 'expected': want}

        def mk(call):
            def make():
                nm, t, c, kw = call
                c = dict(c, roles=list(c['roles']))
                def run_():
                    try:
                        return ['returned', bool(enf.enforce(nm, {}, c, **kw))]
                    except Exception as e:
                        return ['raised', type(e).__name__]
                return run_
            return make
        if overlap.pair(ctx, mk(calls[0]), mk(calls[1]), case, detail, ctx.sub_rnd('Ob', case['rseed'])):
            got = [mk(calls[0])()(), mk(calls[1])()()]
            if got != want:
                ctx.violation('decision-differs-from-check', dict(case), dict(detail, observed=got))
    finally:
        tree.cleanup()


def gen_overlap(ctx, i):
    r = ctx.sub_rnd('O', ctx.tier, ctx.shard, i)
    def row():
        return dict(decl=r.randrange(1, len(DECLS)), res=r.choice([True, False, 'role']), system=r.choice(['none', 'system', 'system_scope']),
                    domain=r.randint(0, 1), project=r.randint(0, 1), roles=r.choice(ROLESETS), do_raise=r.random() < 0.5)
    return dict(overlap=True, override=r.random() < 0.5, a=row(), b=row(), rseed='%s.%d.%d' % (ctx.tier, ctx.shard, i))


def run(ctx):
    ctx.reserve(0.8)          # the strata that come last (overlapping operations) keep a fifth of the wall budget
    blocks = [(es, ov, ()) for es, ov in itertools.product((True, False), (False, True))]
    # the option flipped on a living enforcer, both directions and back again
    blocks += [(True, False, (False, True)), (False, True, (True, False)), (False, False, (True,)), (True, True, (False,))]
    done = True
    for i, (es, ov, flips) in enumerate(blocks):
        if not ctx.mine(i):
            continue
        if ctx.expired():
            done = False
            break
        check_block(ctx, es, ov, flips)
    ctx.stratum('table', exhaustive=done)
    # enforcers built and fed in every public way (early: it must get its share when the wall budget is cut)
    done = True
    for i, ops in enumerate(HISTORIES):
        if not ctx.mine(i + 1):
            continue
        if ctx.expired():
            done = False
            break
        check_history(ctx, ops)
    for i in range(HISTORIES_RANDOM[ctx.tier]):
        if ctx.expired():
            done = False
            break
        check_history(ctx, gen_history(ctx, i))
    ctx.stratum('history', exhaustive=False if not done else None)
    # policies whose check string refers to another registered policy with different scope types
    done = True
    for i, (es, where) in enumerate(itertools.product((True, False), ALIAS_WHERE)):
        if not ctx.mine(len(blocks) + i):
            continue
        if ctx.expired():
            done = False
            break
        check_alias_block(ctx, es, where)
    ctx.stratum('alias', exhaustive=done)
    # credentials carrying the other attributes of a real request context besides the scope-defining ones
    done = True
    for i, (es, ov) in enumerate(itertools.product((True, False), (False, True))):
        if not ctx.mine(len(blocks) + 2 * len(ALIAS_WHERE) + i):
            continue
        if ctx.expired():
            done = False
            break
        check_extras_block(ctx, es, ov)
    ctx.stratum('extras', exhaustive=done)
    base = len(blocks) + 2 * len(ALIAS_WHERE) + 4
    # the main table with enforce_scope set by the other routes (override alternates, every route has both)
    done = True
    for i, (route, es) in enumerate(itertools.product(ROUTES[1:], (True, False))):
        if not ctx.mine(base + i):
            continue
        if ctx.expired():
            done = False
            break
        check_block(ctx, es, bool((i + i // 2) % 2), (), route)
    ctx.stratum('route', exhaustive=done)
    base += 2 * (len(ROUTES) - 1)
    # check strings and names full of formatting syntax, with targets
    done = True
    for i, (es, ov) in enumerate(itertools.product((False, True), (False, True))):
        if not ctx.mine(base + i):
            continue
        if ctx.expired():
            done = False
            break
        check_placeholder_block(ctx, es, ov)
    ctx.stratum('placeholders', exhaustive=done)
    ctx.release()
    # two overlapping requests, last (the line-level scheduler slows everything that runs after it is installed)
    from pv.mon import sched
    ctx.stratum('overlap', exhaustive=False)
    try:
        for i in range(OVERLAPS[ctx.tier]):
            if ctx.expired():
                break
            check_overlap(ctx, gen_overlap(ctx, i))
    finally:
        sched.uninstall()


def replay(ctx, case):
    if case.get('overlap'):
        return check_overlap(ctx, case)
    if case.get('history'):
        return check_history(ctx, case['ops'])
    if case.get('alias'):
        return check_alias_block(ctx, case['enforce_scope'], case['where'], case.get('pair'))
    if case.get('extras'):
        return check_extras_block(ctx, case['enforce_scope'], case['override'])
    if case.get('placeholders'):
        return check_placeholder_block(ctx, case['enforce_scope'], case['override'])
    check_block(ctx, case['enforce_scope'], case['override'], tuple(case.get('flips', ())), case.get('route', 'set_override'))
