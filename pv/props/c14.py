"""C14 - evaluating a rule never crashes; what cannot be evaluated denies.

Exception-surface monitor around every Enforcer.enforce call of a hostile
workload: only the documented exceptions may leave; a single check that
certainly cannot be evaluated must deny."""
import ast
import collections
import collections.abc
import copy
import types

from pv.core import env
from pv.gen import expr

ID = 'C14'
LEVEL = 'exploration'
TECHNIQUE = ('exception-surface runtime monitor on Enforcer.enforce under a hostile generated workload (leaf alphabet of '
             'keywords, operators, brackets, digits, dots, quotes; credentials with every JSON type at every path position); overlapping requests under a deterministic line-level thread scheduler (sys.monitoring)')
RULE = ('cases = acyclic rule sets (1-4 rules, rule: references to lower rules) whose leaves are kind:match checks with '
        'the left side drawn from a hostile alphabet (Python keywords, 1+, a.0, {[1]}, [, 0x, 007, 1., .5, .., a..b, '
        'dangling quotes, huge digit strings, unicode identifiers, nested brackets) or generated from fragments, right '
        'sides literal or well-formed %(name)s; credentials from a recursive generator (every JSON type at every path '
        'position, hostile keys); flat targets with every JSON type; do_raise off/on. L = leaf-only rules whose left side '
        'certainly cannot be evaluated: must deny. N = rule texts that are not sentences (lone quoted token, lone operator, '
        'unbalanced parenthesis), alone and referenced from other rules. D = a referenced rule removed from the living store (del / pop / same check trees under an enforcer that lacks it): the reference denies. F = a policy file overriding a registered policy with a list-of-lists rule. T = one target mapping kept by the caller and edited '
        'between calls (key deleted / value replaced): same decision as a fresh equal mapping. Non-trivial = the rule contains a left side that is not a plain '
        'identifier path; distinct = distinct (rules, target, creds). Stratum `overlap`: two hostile requests on one enforcer at the same time (second one runs at sampled line boundaries of the first, deterministic scheduler): nothing undocumented escapes and each is decided as alone. '
        'E = left sides with an empty path segment (leading, trailing or doubled dot and combinations: `a.`, `.a`, `a..b`, `a.b.`, `..a`) that are '
        'not Python literals, against credentials without any empty-string key in which the NON-empty segments resolve to a value whose text '
        'equals the match (directly, through lists, literal or %(t)s match): the path cannot be resolved, so the leaf denies - plain, under '
        '`not` (allows), combined with or/and, and through a rule: reference. M = the generated JSON-like credentials (with and without '
        'system_scope / system / domain_id / project_id, truthy and falsy) and targets handed over in other mapping containers '
        '(MappingProxyType, a read-only collections.abc.Mapping subclass, UserDict, OrderedDict, defaultdict, a dict subclass, ChainMap), '
        'scope enforcement off/on, registered policies with scope_types, debug logging off/on: only the exception surface is demanded '
        '(a decision or a documented exception; no particular decision). '
        'O = the rule handed to enforce() as a parsed CHECK OBJECT instead of a name (enforce documents "a string or BaseCheck"): every '
        'rule of a generated hostile rule set plus rules with a root of every class (leaf role: / rule: / generic incl. certainly '
        'unevaluable left sides / user-defined kinds, parenthesised leaf, not, and, or, @, !, list-of-lists values whose root is a leaf, '
        'a conjunction, a disjunction or empty) is parsed through the public API (RuleDefault(..).check, Rules.from_dict(..)[name], the '
        'object in the enforcer\'s own store, the check of a registered default) and the OBJECT is enforced, do_raise off and on (also '
        'with the caller\'s exception class), on an enforcer that has registered defaults (unscoped ones for some of the rules, scoped '
        'ones, ones present only in the registry, ones named like the printed form of a root), hostile credentials / targets, '
        'sometimes in the other mapping containers, scope enforcement off/on, debug logging off/on; user-defined check classes registered '
        'through policy.register that define __eq__ without __hash__ (hand-written and a dataclass: unhashable instances), that are frozen '
        '(attributes cannot be set) or slotted take part as leaves and as roots; oracle: only the documented exceptions, a root leaf that '
        'certainly cannot be evaluated denies (plain dict credentials), and a plain decision for the object equals the plain decision for '
        'the same rule enforced by name with equal inputs (names registered with scope_types excepted); authorize() is called by name only '
        '(registered and unregistered names): exception surface. '
        'FI = rule sets in which one or two list-of-lists rules hold, INSIDE an inner list, an element of any JSON type that is not a '
        'check text (null, true / false, numbers, the empty or a colon-less string, lists nested one, two, three levels too deep, '
        'empty lists, mappings) in the only / first / middle / last position beside valid entries, beside well-formed text and list '
        'rules and rules that refer to the odd one; given as the policy file or a policy_dirs file (JSON, YAML, YAML lines), as a '
        'dict (Rules.from_dict) or a text (Rules.load); the odd name and others registered in code or not; EVERY rule of the set '
        'and an unknown name is enforced, do_raise off and on: only the documented exceptions, and a well-formed rule that does '
        'not refer to the odd one decides as in the same set without the odd rule. '
        'FK = YAML policy files (main file or policy_dirs file, raw text) in which one to three rule NAMES are unquoted keys '
        'that YAML 1.1 reads as booleans, null, integers, floats, dates, timestamps or bytes, beside normally named rules; rule '
        'texts are ordinary: clean, referencing an undefined rule, or referencing a cycle, so that the load-time reports often '
        'concern an odd name and a normal one together; the normally named rules that reach no cycle (and an unknown name, '
        'registered defaults) are enforced by name, twice, do_raise off and on, also after the file was touched: only the '
        'documented exceptions (no decision is demanded). '
        'PK = a leaf (generic with a path or a literal left side, role:, the placeholder alone, after a prefix, beside a second placeholder; '
        'plain, negated, referenced, combined) whose match holds a well-formed placeholder with a key that is not an identifier (segments joined '
        'by dots, colons, dashes, slashes: %(a.b)s, %(a:b)s, %(project-id)s) against a FLAT target that lacks this key and holds, under keys '
        'that are PREFIXES of it, values of every JSON type (null, booleans, numbers, strings, lists, mappings - among them mappings in which '
        'the rest of the key would lead to the matching text), look-alike keys, or neither (sometimes the key itself: exception surface only); '
        'plain dict targets mostly, other containers sometimes; rules set directly or as registered defaults; by name and as check object; '
        'do_raise off/on; debug logging off/on: only the documented exceptions, and in a dict / OrderedDict / plain dict subclass without the '
        'key the placeholder cannot be filled, so the leaf denies. '
        'LE = list-of-lists rules in which an inner list holds one to three empty or whitespace-only strings alone, in the first / middle / '
        'last position or around real checks (role:, @, !, rule:), beside well-formed inner lists and bare strings, referenced from text and '
        'list rules; given as a policy file or policy_dirs file (JSON, YAML, YAML lines), overriding a registered text default, as a dict '
        '(Rules.from_dict), a text (Rules.load) or RuleDefault values; enforced for every role set by name and as check object, do_raise '
        'off/on: only the documented exceptions, and a decision that equals the rule\'s value with the blank conjunct ALLOWING (or dropped) '
        'and differs from its value with the blank conjunct denying is a violation (a blank entry cannot be understood as a check: it denies).')
ASSUMPTIONS =['roles in credentials are a list of strings (the statement\'s precondition)',
               'http:/https: kinds are excluded here: their transport errors are C16\'s subject',
               '% appears only inside well-formed %(name)s placeholders']
LEVEL_TEXT = ('Seeded hostile fuzzing with an exception-surface oracle; the inputs that crash are syntactically odd, so a '
              'fragment-based generator plus a curated alphabet is the appropriate level (no finite enumeration exists).')
LEVEL_NOTE = 'trusted: the list of documented exceptions taken from the statement; the curated "certainly unevaluable" list'
PLAN = {'quick': dict(shards=4, wall=120), 'thorough': dict(shards=16, wall=400)}
MIN = {'placeholder_key_enforce_calls': 600, 'placeholder_key_missing_decisions': 450, 'blank_entry_enforce_calls': 1200, 'blank_entry_decisions': 1200, 'inner_list_element_enforce_calls': 1000, 'inner_list_element_odd_rule_calls': 150, 'inner_list_element_vs_alone_comparisons': 500, 'nontext_name_enforce_calls': 1000, 'nontext_name_shared_warning_cases': 40, 'check_object_enforce_calls': 4000, 'check_object_leaf_root_calls': 1500, 'check_object_unhashable_root_calls': 150,
       'check_object_vs_name_comparisons': 2000, 'empty_segment_path_decisions': 1000, 'container_enforce_calls': 3000, 'overlapping_evaluations': 200, 'deleted_reference_decisions': 100, 'file_override_enforce_calls': 100, 'same_target_comparisons': 500, 'evaluations': 5000, 'enforce_calls': 10000, 'hostile_leaves': 5000, 'unevaluable_leaf_rules': 500}
ANCHORS = ['oslo_policy._checks:GenericCheck.__call__', 'oslo_policy._checks:GenericCheck._find_in_dict',
           'oslo_policy._checks:RoleCheck.__call__', 'oslo_policy.policy:Enforcer.enforce']
REQUIRED_ANCHORS = ['oslo_policy.policy:Enforcer.enforce']
N = {'quick': 90000, 'thorough': 3000000}

# left sides that are certainly neither a Python literal nor (with our credentials) a resolvable path
UNEVALUABLE = ['class', '1+', '[', '0x', '007', '..', "'a", '"a', 'lambda', '--', '{[1]}', 'a[0]', '{', '1e', '1__0',
               '0b2', 'not_a_key', 'zz.yy', '(1,', 'True.x', 'None.None', 'import', '1..2', '*', '-', "b'", '$', '#',
               'q..r', '.', 'é.ü', 'q.class', '1.2.3']
HOSTILE = UNEVALUABLE + ['q.0', 'a.0', '1.', '.5', 'a..b', '9' * 4300, '9' * 5000, 'None', 'True', 'a[0]', '--1', '1e999', '1_0',
                         '...', "b'x'", '{1:2}', '(1,)', '-1', '+1', '1j', 'a.b.c', 'x..', 'u.v', 'u.v.w', 'u', 'a', 'x',
                         '[[[[[[[[[[1]]]]]]]]]]', '{1,2}', '[]', '{}', '()', "''", '""', "'a'", '"b"', '1', '1.5', '0',
                         'roles', 'roles.0', 'roles.x', 'a.roles', 'é', 'ü.é', '__class__', 'a.__class__', 'a.keys',
                         'True.False', '1 ', 'a.b.', '.a', '-a', '~1', 'not', '1if', '1or', '0o8', '1e+', "u'x'", 'f""',
                         "f'{1}'", '[1,', '1,2', '(', '((1))', '[[', ']]', '{{', 'a=1', 'a==1', 'a:b', '@', '!', '\\',
                         '\\n', '\x00', '\x7f', '1\x00', 'a\tb']
FRAG = ['a', 'u', 'x', '.', '..', '0', '1', '9', '-', '+', '[', ']', '{', '}', '(', "'", '"', 'e', 'j', '_', ',', 'None',
        'True', 'class', 'if', '*', '/', '<', '=', '\\', '0x', '1e', 'é', '~', '@', '#', '$', '&', '|', '^', ';', '`', '?', '!']
RHS = ['x', '%(t)s', '1', 'None', "['x']", '%(t)s%(t2)s', 'pre%(t)s', '%(a.b)s', 'True', '', '1.5', "{'a':1}", ':', 'x:y',
       '%(roles)s', '[]']
VALS = [None, True, False, 0, 1, 1.5, -1, 's', '', 'x', [], {}, [1, 'a', None], [[{'v': 'x'}]], {'v': 'x'},
        {'v': ['x', ['x']]}, [{'v': {'w': 1}}], {'0': 'x', 'b': {'c': 'x'}}, [[], [[]]], {'': 1}, 10 ** 30, 'True', '1']
DOCUMENTED = ('PolicyNotAuthorized', 'InvalidScope', 'InvalidContextObject', 'PolicyNotRegistered')


def survives_tokenizer(lhs, rhs):
    tok = '%s:%s' % (lhs, rhs)
    if not tok or any(ch.isspace() for ch in tok):
        return False
    if tok.startswith('(') or tok.endswith(')'):
        return False
    if len(tok) >= 2 and (tok[0], tok[-1]) in (('"', '"'), ("'", "'")):
        return False
    if tok.lower() in ('and', 'or', 'not'):
        return False
    kind = tok.split(':', 1)[0]
    if kind in ('http', 'https', 'rule', 'role'):
        return False
    return True


def gen_lhs(rnd):
    r = rnd.random()
    if r < 0.35:
        return rnd.choice(UNEVALUABLE)
    if r < 0.75:
        return rnd.choice(HOSTILE)
    return ''.join(rnd.choice(FRAG) for _ in range(rnd.randint(1, 5)))


def gen_creds(rnd):
    creds = {'roles': rnd.choice([[], ['r'], ['r', 'admin', 'Ünï']])}
    for k in ('u', 'a', 'x', 'q', 'é', 'True', 'None', '1'):
        if rnd.random() < 0.6:
            v = rnd.choice(VALS)
            if rnd.random() < 0.3:
                v = {'v': rnd.choice(VALS), 'b': rnd.choice(VALS), '0': rnd.choice(VALS)}
            elif rnd.random() < 0.2:
                v = [rnd.choice(VALS) for _ in range(rnd.randint(0, 3))]
            creds[k] = v
    return creds


def has_empty_key(v):
    """True when the JSON-like value contains a mapping with the key '' anywhere."""
    if isinstance(v, dict):
        return any(k == '' or has_empty_key(x) for k, x in v.items())
    if isinstance(v, (list, tuple)):
        return any(has_empty_key(x) for x in v)
    return False


def is_python_literal(text):
    """The statement's own notion of 'a Python literal': Python's literal evaluator accepts it."""
    try:
        ast.literal_eval(text)
        return True
    except (ValueError, TypeError, SyntaxError, MemoryError, RecursionError):
        return False


# stratum E: names of the non-empty path segments and the values they resolve to
SEGS = ['a', 'u', 'x', 'q', 'b', 'v', 'é', 'k_1', 'user_id', 'class', 'True', 'None', 'e1', 'project', 'roles_', 'A']
SEG_VALUES = ['x', 'r', 1, 0, True, False, None, 1.5, 'True', '1', 'é', -1, 10 ** 30, 'a.b', 'None']
VALS_NO_EMPTY_KEY = [v for v in VALS if not has_empty_key(v)]
E_FORMS = ['plain', 'not', 'ref', 'not-ref', 'or-false', 'and-true', 'not-not']


def gen_empty_segment_case(rnd):
    """A generic leaf whose left side has at least one EMPTY path segment, and credentials (no '' key anywhere) in which
    the non-empty segments lead to a value whose text equals the match: were the empty segment ignored, the leaf would
    match; as the path cannot be resolved, it must deny.  None when the drawn left side happens to be a Python literal."""
    segs = [rnd.choice(SEGS) for _ in range(rnd.choice([1, 1, 2, 2, 3]))]
    parts = [''] * rnd.choice([0, 0, 0, 1, 2])
    for i, s in enumerate(segs):
        if i and rnd.random() < 0.4:
            parts.extend([''] * rnd.choice([1, 1, 2]))
        parts.append(s)
    parts.extend([''] * rnd.choice([0, 0, 0, 1, 2]))
    if '' not in parts:
        where = rnd.randrange(3 if len(segs) > 1 else 2)
        if where == 0:
            parts.insert(0, '')
        elif where == 1:
            parts.append('')
        else:
            parts.insert(rnd.randrange(1, len(parts)), '')
    lhs = '.'.join(parts)
    value = rnd.choice(SEG_VALUES)
    # the credentials: extras first, then the structure that the non-empty segments resolve in
    creds = {'roles': rnd.choice([[], ['r'], ['r', 'admin', 'Ünï']])}
    for k in ('u', 'a', 'x', 'q', 'é', 'True', 'None', '1'):
        if rnd.random() < 0.3:
            creds[k] = rnd.choice(VALS_NO_EMPTY_KEY)
    inner = value
    q = rnd.random()
    if q < 0.15:
        inner = [value]
    elif q < 0.3:
        inner = ['zz', value, None]
    for depth, s in enumerate(reversed(segs)):
        inner = {s: inner}
        if depth < len(segs) - 1:
            q = rnd.random()
            if q < 0.15:
                inner = [inner]
            elif q < 0.25:
                inner['other'] = rnd.choice(VALS_NO_EMPTY_KEY)
    creds.update(inner)
    target = {}
    if rnd.random() < 0.5:
        rhs = str(value)
        if rnd.random() < 0.5:
            target['t'] = rnd.choice(['x', 1, None, 'y'])
    else:
        rhs = '%(t)s'
        target['t'] = value
    if not survives_tokenizer(lhs, rhs) or is_python_literal(lhs) or has_empty_key(creds):
        return None
    leaf = '%s:%s' % (lhs, rhs)
    form = rnd.choice(E_FORMS)
    if form == 'plain':
        rules, expect = {'p': leaf}, {'p': False}
    elif form == 'not':
        rules, expect = {'p': 'not ' + leaf}, {'p': True}
    elif form == 'ref':
        rules, expect = {'p0': leaf, 'p': 'rule:p0'}, {'p0': False, 'p': False}
    elif form == 'not-ref':
        rules, expect = {'p0': leaf, 'p': 'not rule:p0'}, {'p0': False, 'p': True}
    elif form == 'or-false':
        rules, expect = {'p': '%s or role:zz_nobody or !' % leaf}, {'p': False}
    elif form == 'and-true':
        rules, expect = {'p': '@ and %s' % leaf, 'p1': '(%s)' % leaf}, {'p': False, 'p1': False}
    else:
        rules, expect = {'p': 'not not %s' % leaf}, {'p': False}
    return dict(kind='E', rules=rules, expect=expect, lhs=lhs, form=form, target=target, creds=creds,
                do_raise=rnd.random() < 0.5)


# stratum M: the same JSON-like data handed over in other mapping containers
class ReadOnlyMapping(collections.abc.Mapping):
    """A collections.abc.Mapping that is not a MutableMapping."""

    def __init__(self, data):
        self._data = dict(data)

    def __getitem__(self, key):
        return self._data[key]

    def __iter__(self):
        return iter(self._data)

    def __len__(self):
        return len(self._data)


class DictSubclass(dict):
    pass


CONTAINERS = {
    'dict': dict,
    'mappingproxy': lambda d: types.MappingProxyType(dict(d)),
    'readonly-mapping': ReadOnlyMapping,
    'userdict': collections.UserDict,
    'ordereddict': collections.OrderedDict,
    'defaultdict-none': lambda d: collections.defaultdict(None, d),
    'defaultdict-dict': lambda d: collections.defaultdict(dict, d),
    'defaultdict-list': lambda d: collections.defaultdict(list, d),
    'dict-subclass': DictSubclass,
    'chainmap': lambda d: collections.ChainMap(dict(d)),
    'chainmap-empty-front': lambda d: collections.ChainMap({}, dict(d)),
}
CREDS_CONTAINERS = [c for c in sorted(CONTAINERS) if c != 'dict']
TARGET_CONTAINERS = sorted(CONTAINERS)
SCOPE_VALUES = ['all', 'x', '', None, 0, 1, True, False, ['all'], [], {'a': 1}, {}, 1.5]
M_RULES = {'m.sys': 'system:all or system_scope:%(t)s', 'm.proj': 'project_id:%(project_id)s and role:r',
           'm.dom': 'not domain_id:None', 'reg.sys': 'role:r or u.v:%(t)s', 'reg.proj': 'rule:m.proj or @',
           'reg.dom': 'not system_scope:all'}
M_SCOPES = {'reg.sys': ['system'], 'reg.proj': ['project'], 'reg.dom': ['domain', 'project']}


def gen_container_case(rnd):
    while True:
        base = gen_case(rnd)
        if base['kind'] in ('R', 'L', 'N'):
            break
    creds = base['creds']
    for k in ('system_scope', 'system', 'domain_id', 'project_id'):
        if rnd.random() < 0.5:
            creds[k] = rnd.choice(SCOPE_VALUES)
    target = base['target']
    if rnd.random() < 0.3:
        target['project_id'] = rnd.choice(['x', 1, None])
    return dict(kind='M', rules=base['rules'], target=target, creds=creds, creds_container=rnd.choice(CREDS_CONTAINERS),
                target_container=rnd.choice(TARGET_CONTAINERS), enforce_scope=rnd.random() < 0.5, debug=rnd.random() < 0.15)


def gen_case(rnd):
    creds = gen_creds(rnd)
    target = {}
    for k in ('t', 't2', 'a.b', 'roles'):
        if rnd.random() < 0.6:
            target[k] = rnd.choice([None, True, 1, 1.5, 'x', "['x']", '', [], {'a': 1}, 'r', 'R', 10 ** 30])
    if rnd.random() < 0.05:
        case = gen_empty_segment_case(rnd)
        if case is not None:
            return case
    if rnd.random() < 0.02:
        return gen_container_case(rnd)
    if rnd.random() < 0.01:
        return dict(kind='D', how=rnd.choice(['del', 'pop', 'shared-trees']), rules={}, target={}, creds={}, do_raise=False)
    if rnd.random() < 0.01:
        return dict(kind='F', rules={}, target={}, creds={}, do_raise=False, fmt=rnd.choice(['json', 'yaml']),
                    value=rnd.choice([[['role:r']], [['role:r', 'role:admin'], ['@']], ['role:r'], [], [[]], 'role:r or role:admin',
                                      [['role:r'], 'rule:other'], 5, True, {'a': 1}, 1.5]))
    if rnd.random() < 0.04:
        # a rule text that is not a sentence at all (C02 says it denies; here: it must not crash enforcement, alone or
        # referenced from another rule)
        bad = rnd.choice(NON_SENTENCES)
        return dict(kind='N', rules={'n0': bad, 'n1': 'rule:n0 or role:zz', 'n2': 'not rule:n0'}, target=target, creds=creds,
                    do_raise=rnd.random() < 0.5, hostile=1)
    if rnd.random() < 0.06:
        keys = ['t', 't2', 'a.b']
        edits = []
        for _ in range(rnd.randint(1, 3)):
            k = rnd.choice(keys)
            edits.append(['del', k] if rnd.random() < 0.5 else ['set', k, rnd.choice(['x', 'r', 1, None, 'y'])])
        rules = {'n0': rnd.choice(['role:%(t)s', 'x:%(t)s', 'u.v:%(t2)s', 'role:r and a:%(a.b)s', 'not role:%(t)s', "'x':%(t)s"])}
        target = dict(target)
        target.setdefault('t', 'x')
        return dict(kind='T', rules=rules, target=target, creds=creds, edits=edits, do_raise=False)
    if rnd.random() < 0.3:
        # leaf-only rule with a certainly unevaluable left side
        lhs = rnd.choice(UNEVALUABLE)
        rhs = rnd.choice(['x', '%(t)s', '1', 'None'])
        if survives_tokenizer(lhs, rhs):
            return dict(kind='L', rules={'p': '%s:%s' % (lhs, rhs)}, target=target, creds=creds,
                        do_raise=rnd.random() < 0.5, negated=False)
    nrules = rnd.randint(1, 4)
    rules = {}
    hostile = 0
    for i in range(nrules):
        leaves = []
        for _ in range(rnd.randint(1, 4)):
            q = rnd.random()
            if q < 0.12 and i:
                leaves.append('rule:n%d' % rnd.randrange(i))
            elif q < 0.2:
                leaves.append('role:' + rnd.choice(['r', '%(t)s', '%(roles)s', 'x%(t2)s', 'é']))
            elif q < 0.24:
                leaves.append(rnd.choice(['@', '!', 'word', 'rule:ghost']))
            else:
                for _try in range(5):
                    lhs, rhs = gen_lhs(rnd), rnd.choice(RHS)
                    if survives_tokenizer(lhs, rhs):
                        leaves.append('%s:%s' % (lhs, rhs))
                        hostile += 1
                        break
                else:
                    leaves.append('class:x')
        k = len(leaves)
        ast = expr.random_ast(rnd, rnd.randint(0, 2), k, p_const=0.0) if k > 1 else ('leaf', 0)
        rules['n%d' % i] = expr.spell(expr.to_tokens(ast, lambda j: leaves[j]))
    return dict(kind='R', rules=rules, target=target, creds=creds, do_raise=rnd.random() < 0.5, hostile=hostile)


NON_SENTENCES = ["'Member':'Member'", '"admin":"admin"', "'admin'", '"x"', "'%(t)s':'x'", 'not', 'and', '(', ')', 'role:a role:b',
                 '(role:a', 'role:a)', 'role:a and', 'or role:a', "not 'x'", "('q')", '"a:b" or role:r', "role:r and 'k:v'"]


def check_same_target_object(ctx, real, case):
    """The caller keeps ONE target mapping and edits it between calls (a key deleted, a value replaced): each decision
    must be the one a fresh, equal mapping gets - and a placeholder whose key has gone must deny, not raise."""
    policy, enf = real
    enf.set_rules(policy.Rules.from_dict(case['rules']))
    other = policy.Enforcer(env.fresh_conf(), use_conf=False)
    other.set_rules(policy.Rules.from_dict(case['rules']))
    live = dict(case['target'])
    ctx.case(['same-target', case['rules'], case['target'], case['edits']], nontrivial=True, stratum='T')
    for step, edit in enumerate([None] + case['edits']):
        if edit is not None:
            if edit[0] == 'del':
                live.pop(edit[1], None)
            else:
                live[edit[1]] = edit[2]
        for name in case['rules']:
            out = []
            # the caller's own mapping goes to the long-lived enforcer; the fresh equal mapping to a second enforcer with
            # its own check objects, so that the two call sequences cannot influence each other
            for e_, tgt in ((enf, live), (other, copy.deepcopy(live))):
                try:
                    out.append(bool(e_.enforce(name, tgt, copy.deepcopy(case['creds']))))
                except Exception as e:
                    out.append('EXC:' + type(e).__name__)
            ctx.count('same_target_comparisons')
            if isinstance(out[0], str) and out[0][4:] not in DOCUMENTED:
                ctx.violation('undocumented-exception-' + out[0][4:], case, {'step': step, 'edit': edit, 'observed': out})
                return
            if out[0] != out[1]:
                ctx.violation('decision-depends-on-target-object-identity', case,
                              {'rules': case['rules'], 'step': step, 'edit': edit, 'same_object': out[0], 'fresh_equal_mapping': out[1],
                               'target_now': live})
                return


def check_deleted_reference(ctx, real, case):
    """A rule that other rules reference is removed from the living rule store (del / pop): a reference that can no
    longer be resolved denies - it neither raises nor keeps deciding by the vanished definition."""
    policy, enf = real
    rules = {'adm': 'role:admin', 'op': 'rule:adm', 'op2': 'role:x or rule:adm', 'op3': 'not rule:adm', 'keep': 'role:admin'}
    creds = {'roles': ['admin']}
    enf.set_rules(policy.Rules.from_dict(rules))
    ctx.case(['deleted-reference', case['how']], nontrivial=True, stratum='D')
    first = {}
    for n in ('op', 'op2', 'op3', 'keep'):
        first[n] = bool(enf.enforce(n, {}, dict(creds)))
    if case['how'] == 'del':
        del enf.rules['adm']
    elif case['how'] == 'pop':
        enf.rules.pop('adm')
    else:
        other = policy.Enforcer(env.fresh_conf(), use_conf=False)      # the same check trees handed to a second enforcer that lacks `adm`
        other.set_rules(policy.Rules({k: v for k, v in enf.rules.items() if k != 'adm'}))
        enf = other
    want = {'op': False, 'op2': False, 'op3': True, 'keep': True}
    for n, w in want.items():
        try:
            got = bool(enf.enforce(n, {}, dict(creds)))
        except Exception as e:
            got = 'EXC:' + type(e).__name__
        ctx.count('deleted_reference_decisions')
        if got != w:
            ctx.violation('unresolvable-reference-does-not-deny' if not isinstance(got, str) else 'undocumented-exception-' + got[4:],
                          case, {'rules': rules, 'removed': 'adm', 'how': case['how'], 'enforced': n, 'expected': w, 'observed': got})
            return


def check_file_override_of_registered(ctx, real, case):
    """A policy file overrides a REGISTERED policy with a rule in the legacy list-of-lists spelling (or with a text
    rule): loading and enforcing must not raise."""
    policy, _ = real
    from pv.gen import files
    tree = files.Tree(dirs=())
    try:
        tree.write('policy.yaml', {'reg': case['value'], 'other': 'role:r'}, case['fmt'])
        enf = policy.Enforcer(tree.conf(policy_dirs=[]))
        enf.register_default(policy.RuleDefault('reg', 'role:admin'))
        ctx.case(['file-override', case['value'], case['fmt']], nontrivial=True, stratum='F')
        for creds in ({'roles': ['r']}, {'roles': ['admin', 'r']}, {'roles': []}):
            for _ in range(2):
                try:
                    enf.enforce('reg', {}, dict(creds))
                    exc = None
                except Exception as e:
                    exc = e
                ctx.count('file_override_enforce_calls')
                if exc is not None and type(exc).__name__ not in DOCUMENTED:
                    ctx.violation('undocumented-exception-' + type(exc).__name__, case,
                                  {'file_rule': case['value'], 'format': case['fmt'], 'observed': '%s: %s' % (type(exc).__name__, str(exc)[:120])})
                    return
    finally:
        tree.cleanup()


# stratum FI: list-of-lists rules whose INNER lists hold elements that are not text
INNER_CASES = {'quick': 320, 'thorough': 8000}
INNER_ODD = [None, True, False, 0, 5, -1, 1.5, 10 ** 30, '', ' ', 'nocolon', ['role:r'], ['role:admin', 'role:r'], [['role:r']],
             [[['role:admin']]], [], [[]], [None], {'role': 'r'}, {}, {'a': [1]}]
INNER_VALID = ['role:r', 'role:admin', '@', '!', 'rule:w.adm', 'rule:ghost', 'u:%(t)s', 'role:%(t)s', 'x.y:1']
INNER_WELL_FORMED = collections.OrderedDict([
    ('w.r', [['role:r']]), ('w.txt', 'role:r or role:admin'), ('w.list', [['role:r', 'role:admin'], ['@']]),
    ('w.ref2', 'rule:w.adm and not role:zz'), ('w.gen', 'u:%(t)s or role:r'), ('w.listref', [['rule:w.adm'], ['role:r']]),
    ('w.false', [['!']]), ('w.empty', []), ('w.ghost', [['rule:ghost', 'role:r']])])
INNER_ROUTES = ['file', 'file', 'dir-file', 'dict', 'load']
INNER_FORMATS = ['json', 'yaml', 'yaml-lines']
DENIALS = ('PolicyNotAuthorized',)


def gen_odd_inner_list(rnd):
    """An inner list (a conjunction of the list-of-lists spelling) with an element of some JSON type that is not a check
    text, in the only / first / middle / last position, beside valid entries."""
    odd = copy.deepcopy(rnd.choice(INNER_ODD))
    pos = rnd.choice(['only', 'first', 'middle', 'last'])
    valid = lambda: [rnd.choice(INNER_VALID) for _ in range(rnd.randint(1, 2))]
    if pos == 'only':
        inner = [odd]
    elif pos == 'first':
        inner = [odd] + valid()
    elif pos == 'middle':
        inner = valid() + [odd] + valid()
    else:
        inner = valid() + [odd]
    if rnd.random() < 0.15:
        inner.insert(rnd.randrange(len(inner) + 1), copy.deepcopy(rnd.choice(INNER_ODD)))
    return inner, pos


def gen_inner_list_case(rnd):
    """A rule set (policy file in JSON / YAML, a directory file, a dict, a text for Rules.load) in which one or two rules are
    list-of-lists rules with a non-text element inside an inner list; around them well-formed rules."""
    odd_rules = collections.OrderedDict()
    positions = []
    for name in ['x.odd'] + (['x.odd2'] if rnd.random() < 0.25 else []):
        inner, pos = gen_odd_inner_list(rnd)
        positions.append(pos)
        valid = lambda: [rnd.choice(INNER_VALID) for _ in range(rnd.randint(1, 2))]
        shape = rnd.randrange(5)
        if shape == 0:
            value = [inner]
        elif shape == 1:
            value = [inner, valid()]
        elif shape == 2:
            value = [valid(), inner]
        elif shape == 3:
            value = [rnd.choice(INNER_VALID), inner]
        else:
            value = [valid(), inner, valid()]
        odd_rules[name] = value
    well = collections.OrderedDict()
    well['w.adm'] = rnd.choice(['role:admin', [['role:admin']]])
    for name in rnd.sample(list(INNER_WELL_FORMED), rnd.randint(1, 3)):
        well[name] = copy.deepcopy(INNER_WELL_FORMED[name])
    refs = {}
    if rnd.random() < 0.5:
        refs['w.refodd'] = rnd.choice(['rule:x.odd or role:zz', 'not rule:x.odd', [['rule:x.odd', 'role:r']], 'rule:x.odd'])
    pairs = list(odd_rules.items()) + list(well.items()) + list(refs.items())
    rnd.shuffle(pairs)
    registered = {}
    for name in odd_rules:
        if rnd.random() < 0.5:
            registered[name] = rnd.choice(['role:admin', 'role:r', '!', 'rule:w.adm'])
    if rnd.random() < 0.3:
        registered['w.adm'] = rnd.choice(['role:admin', 'role:zz'])
    creds = {'roles': rnd.choice([[], ['r'], ['admin', 'r'], ['admin']])} if rnd.random() < 0.5 else gen_creds(rnd)
    target = {} if rnd.random() < 0.5 else {'t': rnd.choice(['x', 'r', 1, None, 'admin'])}
    return dict(kind='FI', via=rnd.choice(INNER_ROUTES), fmt=rnd.choice(INNER_FORMATS), rules=[list(p) for p in pairs],
                odd_names=sorted(odd_rules), ref_names=sorted(refs), positions=positions, registered=registered, creds=creds,
                target=target, debug=rnd.random() < 0.1)


def enforce_outcome(enf, name, target, creds, do_raise):
    try:
        return ('decision', bool(enf.enforce(name, copy.deepcopy(target), copy.deepcopy(creds), do_raise=do_raise)))
    except Exception as e:
        return ('raised', type(e).__name__, str(e)[:160])


def check_inner_list_elements(ctx, real, case):
    """A list-of-lists rule whose inner list holds something that is not a check text (null, booleans, numbers, lists nested
    too deep, mappings, the empty string) - in a policy file (main file or a directory file; JSON or YAML), overriding a
    registered policy or not, or handed over as a dict / a text: every rule of the set, the well-formed ones included, is
    enforced: only the documented exceptions may leave, and a well-formed rule that does not refer to the odd one decides as
    it does in the same set without the odd rule."""
    import contextlib
    policy, _ = real
    from pv.gen import files
    pairs = [(n, v) for n, v in case['rules']]
    skip_alone = set(case['odd_names']) | set(case['ref_names'])
    alone_pairs = [(n, v) for n, v in pairs if n not in skip_alone]
    trees = []
    ctx.case(['inner-list-elements', case['rules'], case['via'], case['fmt'], case['registered'], case['creds'], case['target']],
             nontrivial=True, stratum='FI')

    via = case['via']
    try:
        # the harness's own rendering of the files / the text (not the library's doing)
        texts = {}
        for tag, these in (('odd', pairs), ('alone', alone_pairs)):
            if via == 'dir-file':
                texts[tag] = {'policy.yaml': files.render(dict((n, v) for n, v in these if n not in case['odd_names']), case['fmt'])}
                if tag == 'odd':
                    texts[tag]['d1/extra.yaml'] = files.render(dict((n, v) for n, v in these if n in case['odd_names']), case['fmt'])
            else:
                texts[tag] = {'policy.yaml': files.render(dict(these), case['fmt'])}
    except Exception as e:
        ctx.unconstrained('inner-list-case-not-rendered-' + type(e).__name__)
        return

    def build(these, tag):
        if via in ('file', 'dir-file'):
            tree = files.Tree(dirs=('d1',) if via == 'dir-file' else ())
            trees.append(tree)
            for rel, text in texts[tag].items():
                tree.write_text(rel, text)
            enf = policy.Enforcer(tree.conf())
        else:
            enf = policy.Enforcer(env.fresh_conf(), use_conf=False)
            if via == 'dict':
                rules = policy.Rules.from_dict(dict(these))
            else:
                rules = policy.Rules.load(texts[tag]['policy.yaml'])
            enf.set_rules(rules)
        for name in sorted(case['registered']):
            enf.register_default(policy.RuleDefault(name, case['registered'][name]))
        return enf

    def describe(**more):
        d = {'rules': dict(pairs), 'route': case['via'], 'format': case['fmt'], 'texts': texts['odd'], 'odd_rules': case['odd_names'],
             'registered_defaults': case['registered'], 'creds': case['creds'], 'target': case['target']}
        d.update(more)
        return d

    try:
        try:
            enf = build(pairs, 'odd')
        except Exception as e:
            if case['via'] in ('dict', 'load'):
                ctx.violation('load-raises', case, describe(observed=type(e).__name__ + ': ' + str(e)[:100]))
            else:
                ctx.unconstrained('inner-list-enforcer-not-built-' + type(e).__name__)
            return
        try:
            alone = build(alone_pairs, 'alone')
        except Exception as e:
            ctx.unconstrained('inner-list-reference-enforcer-not-built-' + type(e).__name__)
            alone = None
        with (env.debug_logging() if case.get('debug') else contextlib.nullcontext()):
            for name in [n for n, _ in pairs] + ['w.not-there']:
                for do_raise in (False, True):
                    o = enforce_outcome(enf, name, case['target'], case['creds'], do_raise)
                    ctx.count('inner_list_element_enforce_calls')
                    ctx.count('inner_list_element_enforce_calls.' + case['via'])
                    if name in case['odd_names']:
                        ctx.count('inner_list_element_odd_rule_calls')
                        ctx.observe('inner_list_odd_rule_outcomes', o[1] if o[0] == 'raised' else ('allow' if o[1] else 'deny'))
                    if o[0] == 'raised' and o[1] not in DOCUMENTED:
                        ctx.violation('undocumented-exception-' + o[1], case,
                                      describe(enforced=name, do_raise=do_raise, observed='%s: %s' % o[1:],
                                               enforced_rule_is='the odd list rule' if name in case['odd_names'] else 'a rule beside it'))
                        return
                    if alone is None or name in skip_alone:
                        continue
                    a = enforce_outcome(alone, name, case['target'], case['creds'], do_raise)
                    if all(x[0] == 'decision' or x[1] in DENIALS for x in (o, a)):
                        ctx.count('inner_list_element_vs_alone_comparisons')
                        if (o == ('decision', True)) != (a == ('decision', True)):
                            ctx.violation('rule-beside-odd-list-rule-decides-differently', case,
                                          describe(enforced=name, do_raise=do_raise, beside_the_odd_rule=list(o),
                                                   without_the_odd_rule=list(a)))
                            return
                    else:
                        ctx.unconstrained('inner-list-comparison-with-a-documented-exception')
    finally:
        for tree in trees:
            tree.cleanup()


# stratum FK: YAML policy files in which a rule NAME is not text (YAML 1.1 reads the unquoted key as something else)
NAME_CASES = {'quick': 320, 'thorough': 8000}
NONTEXT_KEYS = ['on', 'On', 'OFF', 'off', 'yes', 'Yes', 'no', 'NO', 'true', 'True', 'false', 'FALSE', 'null', 'Null', '~',
                '404', '0', '-1', '+7', '0x1F', '017', '1_000', '0b11', '6:30', '1.5', '-0.0', '1.0e+3', '.inf', '-.inf', '.nan',
                '2024-01-01', '2001-12-14t21:59:43.10-05:00', '2001-12-14 21:59:43', '!!binary aGk=', '!!float 1', '!!int "7"',
                '!!null ""', '!!bool "yes"', '!!timestamp 2024-01-01']
NORMAL_NAMES = ['compute:start', 'os_compute_api:servers:show', 'n.ref', 'identity:get_user', 'Ünï', 'n_2', 'volume:create']
NAME_BODIES = {
    'und': ['rule:ghost', 'rule:ghost or rule:adm', 'role:r and rule:nosuch', 'not rule:ghost', [['rule:ghost']],
            [['role:r', 'rule:nosuch'], ['rule:adm']], 'rule:adm or rule:admin_or_owner'],
    'cyc': ['rule:c1', 'rule:c1 or role:r', 'role:admin and rule:c2', [['rule:c1']], 'not rule:c2'],
    'clean': ['role:r', 'rule:adm', 'role:r or rule:adm', '@', [['role:admin']], 'u:%(t)s', 'not role:zz'],
}


def gen_nontext_name_case(rnd):
    """YAML text of a policy file with normally named rules and one to three rules whose unquoted name YAML reads as a
    boolean, null, a number, a date, bytes; the rule texts are ordinary: clean, referencing an undefined rule, or referencing
    a cycle (so that the load-time checks have something to report - often about an odd name AND a normal one)."""
    import json
    if rnd.random() < 0.6:
        odd_kind = norm_kind = rnd.choice(['und', 'und', 'cyc'])
    else:
        odd_kind, norm_kind = rnd.choice(sorted(NAME_BODIES)), rnd.choice(sorted(NAME_BODIES))
    entries = [('adm', 'role:admin', False, 'clean'),
               ('plain', rnd.choice(['role:r', 'rule:adm or role:r', [['role:r']]]), False, 'clean')]
    for i, name in enumerate(rnd.sample(NORMAL_NAMES, rnd.randint(1, 3))):
        kind = norm_kind if i == 0 else rnd.choice(sorted(NAME_BODIES))
        entries.append((name, rnd.choice(NAME_BODIES[kind]), False, kind))
    odd_keys = rnd.sample(NONTEXT_KEYS, rnd.choice([1, 1, 1, 2, 3]))
    for i, key in enumerate(odd_keys):
        kind = odd_kind if i == 0 else rnd.choice(sorted(NAME_BODIES))
        entries.append((key, rnd.choice(NAME_BODIES[kind]), True, kind))
    if any(e[3] == 'cyc' for e in entries):
        entries.append(('c1', 'rule:c2', False, 'member'))
        entries.append(('c2', rnd.choice(['rule:c1', 'rule:c1 or role:r']), False, 'member'))
    rnd.shuffle(entries)
    where = rnd.choice(['main', 'main', 'dir'])
    quote_all = rnd.random() < 0.3
    texts = collections.OrderedDict([('policy.yaml', '')])
    if where == 'dir':
        texts['d1/extra.yaml'] = ''
    for name, body, odd, kind in entries:
        quoted = not odd and (quote_all or ':' in name or rnd.random() < 0.3)
        line = '%s: %s\n' % (json.dumps(name, ensure_ascii=False) if quoted else name, json.dumps(body, ensure_ascii=False))
        texts['d1/extra.yaml' if (odd and where == 'dir') else 'policy.yaml'] += line
    registered = {}
    if rnd.random() < 0.4:
        if rnd.random() < 0.5:
            registered['adm'] = rnd.choice(['role:admin', 'role:zz'])
        if rnd.random() < 0.7:
            registered['reg.only'] = rnd.choice(NAME_BODIES['und'][:4] + NAME_BODIES['clean'][:3])
    enforce = [e[0] for e in entries if not e[2] and e[3] in ('clean', 'und')] + sorted(n for n in registered if n != 'adm') + ['n.not-there']
    # which load-time report (undefined reference / cycle) names an odd-named rule AND a normally named one
    flagged = lambda kinds, odd: any(e[2] == odd and e[3] in kinds for e in entries)
    shared = [k for k, normal_kinds in (('cyc', ('cyc', 'member')), ('und', ('und',)))
              if flagged((k,), True) and (flagged(normal_kinds, False) or
                                          (k == 'und' and registered.get('reg.only') in NAME_BODIES['und']))]
    creds = {'roles': rnd.choice([[], ['r'], ['admin', 'r'], ['admin']])} if rnd.random() < 0.6 else gen_creds(rnd)
    target = {} if rnd.random() < 0.5 else {'t': rnd.choice(['x', 'r', 1, None]), 'project_id': 'p1'}
    return dict(kind='FK', files=texts, dirs=['d1'] if where == 'dir' else [], odd_keys=odd_keys, enforce=enforce, shared=shared,
                registered=registered, creds=creds, target=target, touch=rnd.random() < 0.4, debug=rnd.random() < 0.2)


def check_nontext_names(ctx, real, case):
    """A YAML policy file (main file or directory file) in which some rule NAMES are not text, beside normally named rules;
    the normally named rules (those that reach no cycle) are enforced by name, repeatedly, also after the file was touched:
    only the documented exceptions may leave.  No decision is demanded."""
    import contextlib
    import yaml
    policy, _ = real
    from pv.gen import files
    ctx.case(['nontext-names', case['files'], case['registered'], case['creds'], case['target']], nontrivial=True, stratum='FK')
    types_seen = set()
    try:
        for text in case['files'].values():
            loaded = yaml.safe_load(text)
            if text and not isinstance(loaded, dict):
                raise ValueError('not a mapping')
            types_seen.update(type(k).__name__ for k in (loaded or {}))
    except Exception as e:
        # not a policy file that a YAML reader loads: how the library reports an unreadable file is not this stratum's subject
        ctx.unconstrained('nontext-name-file-not-loadable-' + type(e).__name__)
        return
    nontext = sorted(types_seen - {'str'})
    tree = files.Tree(dirs=tuple(case['dirs']))
    try:
        for rel, text in case['files'].items():
            tree.write_text(rel, text)
        enf = policy.Enforcer(tree.conf())
        for name in sorted(case['registered']):
            enf.register_default(policy.RuleDefault(name, case['registered'][name]))
        if nontext and case['shared']:
            ctx.count('nontext_name_shared_warning_cases')
        with (env.debug_logging() if case.get('debug') else contextlib.nullcontext()):
            for rnd_no in range(2):
                for name in case['enforce']:
                    for do_raise in (False, True):
                        o = enforce_outcome(enf, name, case['target'], case['creds'], do_raise)
                        if nontext:
                            ctx.count('nontext_name_enforce_calls')
                            for t in nontext:
                                ctx.count('nontext_name_enforce_calls.' + t)
                        else:
                            ctx.count('text_name_only_enforce_calls')
                        if o[0] == 'raised' and o[1] not in DOCUMENTED:
                            ctx.violation('undocumented-exception-' + o[1], case,
                                          {'files': case['files'], 'name_types_in_the_files': sorted(types_seen),
                                           'registered_defaults': case['registered'], 'enforced': name, 'do_raise': do_raise,
                                           'round': rnd_no, 'creds': case['creds'], 'target': case['target'],
                                           'observed': '%s: %s' % o[1:]})
                            return
                if rnd_no == 0 and case['touch']:
                    tree.touch('policy.yaml')
    finally:
        tree.cleanup()


def check_containers(ctx, real, case):
    """The JSON-like credentials and the target arrive in other mapping containers (read-only views, UserDict, OrderedDict,
    defaultdict, a dict subclass, ChainMap): whatever enforcement makes of them - a decision, InvalidContextObject for a
    container it does not take, InvalidScope - nothing but the documented exceptions may leave.  No decision is demanded."""
    import contextlib
    policy, _ = real
    enf = policy.Enforcer(env.fresh_conf(enforce_scope=bool(case['enforce_scope'])), use_conf=False)
    for name in sorted(M_SCOPES):
        enf.register_default(policy.RuleDefault(name, M_RULES[name], scope_types=M_SCOPES[name]))
    rules = dict(case['rules'])
    rules.update(M_RULES)
    ctx.case(['containers', case['rules'], case['target'], case['creds'], case['creds_container'], case['target_container'],
              case['enforce_scope']], nontrivial=True, stratum='M')
    try:
        enf.set_rules(policy.Rules.from_dict(rules))
    except Exception as e:
        ctx.violation('load-raises', case, {'rules': rules, 'observed': type(e).__name__ + ': ' + str(e)[:100]})
        return
    make_creds, make_target = CONTAINERS[case['creds_container']], CONTAINERS[case['target_container']]
    names = sorted(M_RULES) + sorted(case['rules'])[:2] + ['m.not-there']
    with (env.debug_logging() if case.get('debug') else contextlib.nullcontext()):
        for name in names:
            for do_raise in (False, True):
                creds = make_creds(copy.deepcopy(case['creds']))
                target = make_target(copy.deepcopy(case['target']))
                try:
                    got = enf.enforce(name, target, creds, do_raise=do_raise)
                    exc = None
                except Exception as e:
                    got, exc = None, e
                ctx.count('container_enforce_calls')
                ctx.count('container_enforce_calls.' + case['creds_container'])
                if exc is not None and type(exc).__name__ not in DOCUMENTED:
                    ctx.violation('undocumented-exception-' + type(exc).__name__, case,
                                  {'rules': rules, 'enforced': name, 'do_raise': do_raise, 'creds': case['creds'],
                                   'creds_container': case['creds_container'], 'target': case['target'],
                                   'target_container': case['target_container'], 'enforce_scope': case['enforce_scope'],
                                   'observed': '%s: %s' % (type(exc).__name__, str(exc)[:160])})
                    return
                # which of the permitted outcomes a container gets is left open by the statement
                ctx.observe('container_outcomes', '%s: %s' % (case['creds_container'],
                                                             type(exc).__name__ if exc else 'decision'))


# stratum PK: placeholder keys that are not identifiers (dots, colons, dashes) against FLAT targets
PK_CASES = {'quick': 800, 'thorough': 16000}
PK_SEGS = ['a', 'b', 'c', 'project', 'id', 'user', 'domain_id', 'é', '0', 'x', 't', 'roles', 'target', 'name', 'k_1']
PK_SEPS = ['.', '.', '.', '.', '.', ':', '-', '..', '/', '.-', ':.']
PK_MATCHES = ['1', 'r', 'admin', 'x', 'True', 'None', 'é', '1.5']
PK_PLAIN_VALUES = [None, True, False, 0, 5, -1, 1.5, 10 ** 30, 's', '', 'text', [], [1, 2], ['b'], {}, {'zz': 1}, [[]], [{}]]
PK_MODES = ['neither', 'prefix', 'prefix', 'prefix', 'prefix', 'prefix-many', 'present', 'lookalike']
PK_STYLES = ['path', 'path', 'path2', 'literal', 'role', 'role', 'embedded', 'two']
PK_TARGET_CONTAINERS = ['dict'] * 12 + ['ordereddict', 'dict-subclass', 'mappingproxy', 'readonly-mapping', 'userdict', 'chainmap']
PK_PLAIN_MISSING = ('dict', 'ordereddict', 'dict-subclass')      # containers in which an absent key is certainly absent
PK_ROUTES = ['set_rules', 'set_rules', 'set_rules', 'registered']


def wrap_leaf(rnd, leaf):
    """A leaf that must deny, alone / negated / referenced / combined -> (rules, expected decisions)."""
    form = rnd.choice(E_FORMS)
    if form == 'plain':
        return form, {'p': leaf}, {'p': False}
    if form == 'not':
        return form, {'p': 'not ' + leaf}, {'p': True}
    if form == 'ref':
        return form, {'p0': leaf, 'p': 'rule:p0'}, {'p0': False, 'p': False}
    if form == 'not-ref':
        return form, {'p0': leaf, 'p': 'not rule:p0'}, {'p0': False, 'p': True}
    if form == 'or-false':
        return form, {'p': '%s or role:zz_nobody or !' % leaf}, {'p': False}
    if form == 'and-true':
        return form, {'p': '@ and %s' % leaf, 'p1': '(%s)' % leaf}, {'p': False, 'p1': False}
    return form, {'p': 'not not %s' % leaf}, {'p': False}


def nested_value(rnd, rest, seps, m):
    """A value under a PREFIX of the placeholder key in which the rest of the key would lead to the matching text - were
    the flat key read as a path."""
    q = rnd.random()
    if q < 0.35 or len(rest) == 1:
        inner = {''.join(x for pair in zip(rest, seps + ['']) for x in pair): m}
    else:
        inner = m
        for s in reversed(rest):
            inner = {s: inner}
    if rnd.random() < 0.15:
        inner = [inner]
    elif rnd.random() < 0.2 and isinstance(inner, dict):
        inner['other'] = rnd.choice(PK_PLAIN_VALUES)
    return inner


def gen_placeholder_key_case(rnd):
    """A leaf whose match holds a well-formed placeholder with a key that is not an identifier (`%(a.b)s`, `%(a:b)s`,
    `%(project-id)s`), and a FLAT target that lacks this key but has keys that are prefixes of it (values of every JSON type,
    among them mappings in which the rest of the key WOULD lead to the matching text), look-alike keys, or neither; sometimes
    the key itself.  The credentials are such that the leaf would match, were the placeholder filled with the matching text."""
    n = rnd.choice([2, 2, 2, 3, 3, 4])
    segs = [rnd.choice(PK_SEGS) for _ in range(n)]
    seps = [rnd.choice(PK_SEPS) for _ in range(n - 1)]
    key = ''.join(x for pair in zip(segs, seps + ['']) for x in pair)
    q = rnd.random()
    if q < 0.06:
        key = '.' + key
    elif q < 0.12:
        key = key + '.'
    m = rnd.choice(PK_MATCHES)
    mode = rnd.choice(PK_MODES)
    target = {}
    for k in ('t2', 'roles', 'x', segs[-1] + '_'):
        if rnd.random() < 0.25:
            target[k] = rnd.choice(PK_PLAIN_VALUES + [m])
    prefixes = []
    for i in range(1, n):
        prefix = ''.join(x for pair in zip(segs[:i], seps[:i - 1] + ['']) for x in pair)
        prefixes.append((prefix, segs[i:], seps[i:]))
    chosen = []
    if mode == 'prefix':
        chosen = [rnd.choice(prefixes)]
    elif mode == 'prefix-many':
        chosen = prefixes
    elif mode == 'present':
        chosen = [p for p in prefixes if rnd.random() < 0.4]
    for prefix, rest, rest_seps in chosen:
        target[prefix] = (nested_value(rnd, rest, rest_seps, m) if rnd.random() < 0.4 else copy.deepcopy(rnd.choice(PK_PLAIN_VALUES)))
    if mode == 'lookalike':
        for alike in rnd.sample([key.replace('.', '_'), key.upper(), segs[-1], segs[0] + segs[-1], key + '.', key.replace('.', ''),
                                 ' ' + key, key.replace('.', '..'), segs[0]], 3):
            target[alike] = m
    if mode == 'present':
        target[key] = rnd.choice([m, m, copy.deepcopy(rnd.choice(PK_PLAIN_VALUES))])
    else:
        target.pop(key, None)
    creds = gen_creds(rnd)
    creds.update({'roles': [m, 'member'], 'x': m, 'u': {'v': m}})
    style = rnd.choice(PK_STYLES)
    ph = '%%(%s)s' % key
    if style == 'path':
        leaf = 'x:' + ph
    elif style == 'path2':
        leaf = 'u.v:' + ph
    elif style == 'literal':
        leaf = '%s:%s' % (m if is_python_literal(m) else "'%s'" % m, ph)
    elif style == 'role':
        leaf = 'role:' + ph
    elif style == 'embedded':
        creds['x'] = 'pre' + m
        leaf = 'x:pre' + ph
    else:
        target['t'] = 'p'
        creds['x'] = 'p' + m
        leaf = 'x:%(t)s' + ph
    form, rules, expect = wrap_leaf(rnd, leaf)
    return dict(kind='PK', key=key, mode=mode, style=style, form=form, rules=rules, expect=expect, target=target, creds=creds,
                target_container=rnd.choice(PK_TARGET_CONTAINERS), route=rnd.choice(PK_ROUTES), as_object=rnd.random() < 0.4,
                debug=rnd.random() < 0.1)


def check_placeholder_keys(ctx, real, case):
    """The target is FLAT: %(a.b)s names the key "a.b".  A target without that key - whatever it holds under `a`, under
    look-alike keys, or nothing - leaves the placeholder unfilled: the leaf cannot be evaluated and denies; nothing but the
    documented exceptions may leave enforce (rule by name and as check object, do_raise off and on)."""
    import contextlib
    policy, _ = real
    use_conf = case['route'] == 'registered'
    enf = policy.Enforcer(env.fresh_conf(), use_conf=use_conf)
    ctx.case(['placeholder-keys', case['rules'], case['target'], case['creds'], case['target_container'], case['route']],
             nontrivial=True, stratum='PK')
    try:
        if use_conf:
            for name in sorted(case['rules']):
                enf.register_default(policy.RuleDefault(name, case['rules'][name]))
            enf.load_rules()
        else:
            enf.set_rules(policy.Rules.from_dict(case['rules']))
    except Exception as e:
        ctx.violation('load-raises', case, {'rules': case['rules'], 'route': case['route'], 'observed': type(e).__name__ + ': ' + str(e)[:100]})
        return
    make_target = CONTAINERS[case['target_container']]
    missing = case['key'] not in case['target']
    certain = missing and case['target_container'] in PK_PLAIN_MISSING
    prefix_kinds = sorted(set(type(v).__name__ for k, v in case['target'].items()
                              if k and k != case['key'] and case['key'].startswith(k)))
    with (env.debug_logging() if case.get('debug') else contextlib.nullcontext()):
        for name in sorted(case['rules']):
            handles = [('name', name)]
            if case['as_object'] and name in enf.rules:
                handles.append(('check object', enf.rules[name]))
            for passed_as, rule in handles:
                for do_raise in (False, True):
                    try:
                        got = enf.enforce(rule, make_target(copy.deepcopy(case['target'])), copy.deepcopy(case['creds']), do_raise=do_raise)
                        o = ('decision', bool(got))
                    except Exception as e:
                        o = ('raised', type(e).__name__, str(e)[:160])
                    ctx.count('placeholder_key_enforce_calls')
                    ctx.count('placeholder_key_enforce_calls.' + case['mode'])
                    for t in prefix_kinds:
                        ctx.count('placeholder_key_enforce_calls.prefix-value-' + t)
                    detail = {'rules': case['rules'], 'enforced': name, 'passed_as': passed_as, 'placeholder_key': case['key'],
                              'target': case['target'], 'target_container': case['target_container'],
                              'key_in_target': not missing, 'creds': case['creds'], 'do_raise': do_raise, 'route': case['route']}
                    if o[0] == 'raised' and o[1] not in DOCUMENTED:
                        ctx.violation('missing-placeholder-key-raises' if missing else surface_key(o[1], o[2]), case,
                                      dict(detail, observed='%s: %s' % o[1:]))
                        return
                    if not certain:
                        ctx.unconstrained('placeholder-key-present' if not missing else 'placeholder-key-in-another-container')
                        continue
                    ctx.count('placeholder_key_missing_decisions')
                    allowed = o == ('decision', True)
                    if allowed != bool(case['expect'][name]):
                        ctx.violation('unevaluable-check-allows', case,
                                      dict(detail, expected='allow' if case['expect'][name] else 'deny', observed=list(o),
                                           why='the flat target has no key %r: the placeholder cannot be filled, the leaf denies' % case['key']))
                        return


# stratum LE: list-of-lists rules whose inner lists hold empty / whitespace-only strings
LE_CASES = {'quick': 320, 'thorough': 10000}
LE_BLANKS = ['', '', '', '', ' ', '  ', '\t', '\n', ' \t ', '\r\n', '\u00a0']
LE_REAL = ['role:admin', 'role:r', 'role:zz', '@', '!', 'rule:w.adm', 'role:admin', 'role:r']
LE_ROUTES = ['file', 'file', 'dir-file', 'dict', 'dict', 'load', 'ruledefault', 'file-over-registered']
LE_ROLE_SETS = [[], ['r'], ['admin'], ['admin', 'r']]


def is_blank(text):
    return isinstance(text, str) and not text.strip()


def le_reference(value, roles, blank):
    """Decision of a list-of-lists rule (outer: or, inner: and) over role: / @ / ! / rule:w.adm entries, a blank entry
    counting as `blank`."""
    def entry(e):
        if is_blank(e):
            return blank
        if e == '@':
            return True
        if e == '!':
            return False
        if e == 'rule:w.adm':
            return 'admin' in roles
        return e.split(':', 1)[1] in roles
    return any(all(entry(e) for e in inner) if isinstance(inner, list) else entry(inner) for inner in value)


def gen_blank_entry_case(rnd):
    """A list-of-lists rule with one or more inner lists that hold an empty or whitespace-only string - alone, repeated, or
    in the first / middle / last position beside real checks -, beside well-formed inner lists and bare strings; rules that
    refer to it; given through a file (JSON / YAML), a directory file, a dict, a text, a registered default."""
    real = lambda lo=1: [rnd.choice(LE_REAL) for _ in range(rnd.randint(lo, 2))]
    blanks = lambda: [rnd.choice(LE_BLANKS) for _ in range(rnd.choice([1, 1, 1, 2, 3]))]

    def blank_inner():
        pos = rnd.choice(['only', 'only', 'first', 'middle', 'last', 'around'])
        if pos == 'only':
            return pos, blanks()
        if pos == 'first':
            return pos, blanks() + real()
        if pos == 'middle':
            return pos, real() + blanks() + real()
        if pos == 'last':
            return pos, real() + blanks()
        return pos, blanks() + real() + blanks()

    pos, inner = blank_inner()
    positions = [pos]
    shape = rnd.randrange(7)
    if shape <= 1:
        value = [inner]
    elif shape == 2:
        value = [inner, real()]
    elif shape == 3:
        value = [real(), inner]
    elif shape == 4:
        value = [rnd.choice(LE_REAL), inner]
    elif shape == 5:
        pos2, inner2 = blank_inner()
        positions.append(pos2)
        value = [inner, inner2]
    else:
        value = [real(), inner, rnd.choice(LE_BLANKS)]       # a blank bare string at the outer level as well
    rules = collections.OrderedDict()
    rules['x.blank'] = value
    rules['w.adm'] = rnd.choice(['role:admin', [['role:admin']]])
    rules['w.txt'] = 'role:r or role:admin'
    refs = {'w.ref': ['rule:x.blank or role:zz', 'same'], 'w.notref': ['not rule:x.blank', 'negated'],
            'w.listref': [[['rule:x.blank', '@']], 'same'], 'w.andref': ['@ and rule:x.blank', 'same']}
    ref_kinds = {}
    for name in rnd.sample(sorted(refs), rnd.randint(0, 2)):
        rules[name], ref_kinds[name] = refs[name]
    pairs = list(rules.items())
    rnd.shuffle(pairs)
    return dict(kind='LE', via=rnd.choice(LE_ROUTES), fmt=rnd.choice(INNER_FORMATS), rules=[list(p) for p in pairs],
                ref_kinds=ref_kinds, positions=positions, registered_text=rnd.choice(['role:admin', '@', '!', 'role:zz']),
                as_object=rnd.random() < 0.4, target={} if rnd.random() < 0.6 else {'t': 'x', 'project_id': 'p1'},
                debug=rnd.random() < 0.1)


def check_blank_entries(ctx, real, case):
    """An empty / whitespace-only string inside an inner list is a conjunct that cannot be understood: it denies, and with
    it its conjunction (it is neither dropped nor an empty conjunction that allows).  Every rule of the set is enforced for
    every role set, by name (and as check object), do_raise off and on."""
    import contextlib
    policy, _ = real
    from pv.gen import files
    pairs = [(n, v) for n, v in case['rules']]
    value = dict(pairs)['x.blank']
    via = case['via']
    ctx.case(['blank-entries', case['rules'], via, case['fmt'], case['target']], nontrivial=True, stratum='LE')
    tree = None
    try:
        try:
            if via in ('file', 'dir-file', 'file-over-registered', 'load'):
                in_dir = [n for n, _ in pairs if via == 'dir-file' and n == 'x.blank']
                main_text = files.render(dict((n, v) for n, v in pairs if n not in in_dir), case['fmt'])
                dir_text = files.render(dict((n, v) for n, v in pairs if n in in_dir), case['fmt'])
        except Exception as e:
            ctx.unconstrained('blank-entry-case-not-rendered-' + type(e).__name__)
            return
        try:
            if via in ('file', 'dir-file', 'file-over-registered'):
                tree = files.Tree(dirs=('d1',) if via == 'dir-file' else ())
                tree.write_text('policy.yaml', main_text)
                if via == 'dir-file':
                    tree.write_text('d1/extra.yaml', dir_text)
                enf = policy.Enforcer(tree.conf())
                if via == 'file-over-registered':
                    enf.register_default(policy.RuleDefault('x.blank', case['registered_text']))
                enf.load_rules()
            elif via == 'ruledefault':
                enf = policy.Enforcer(env.fresh_conf(), use_conf=True)
                for n, v in pairs:
                    enf.register_default(policy.RuleDefault(n, v))
                enf.load_rules()
            else:
                enf = policy.Enforcer(env.fresh_conf(), use_conf=False)
                enf.set_rules(policy.Rules.from_dict(dict(pairs)) if via == 'dict' else policy.Rules.load(main_text))
        except Exception as e:
            if via in ('dict', 'load', 'ruledefault'):
                ctx.violation('load-raises', case, {'rules': dict(pairs), 'route': via, 'observed': type(e).__name__ + ': ' + str(e)[:100]})
            else:
                ctx.unconstrained('blank-entry-enforcer-not-built-' + type(e).__name__)
            return
        with (env.debug_logging() if case.get('debug') else contextlib.nullcontext()):
            for name in ['x.blank'] + sorted(case['ref_kinds']):
                for roles in LE_ROLE_SETS:
                    as_deny, as_allow = (le_reference(value, roles, blank) for blank in (False, True))
                    if case['ref_kinds'].get(name) == 'negated':
                        as_deny, as_allow = not as_deny, not as_allow
                    handles = [('name', name)]
                    if case['as_object']:
                        try:
                            handles.append(('check object', enf.rules[name]))
                        except Exception:
                            ctx.unconstrained('blank-entry-rule-not-in-the-store')
                    for passed_as, rule in handles:
                        for do_raise in (False, True):
                            o = enforce_outcome(enf, rule, case['target'], {'roles': list(roles)}, do_raise)
                            ctx.count('blank_entry_enforce_calls')
                            ctx.count('blank_entry_enforce_calls.' + via)
                            detail = {'rules': dict(pairs), 'route': via, 'format': case['fmt'], 'enforced': name, 'passed_as': passed_as,
                                      'roles': roles, 'do_raise': do_raise}
                            if o[0] == 'raised' and o[1] not in DOCUMENTED:
                                ctx.violation('undocumented-exception-' + o[1], case, dict(detail, observed='%s: %s' % o[1:]))
                                return
                            if o[0] == 'raised' and o[1] not in DENIALS:
                                ctx.unconstrained('blank-entry-rule-raised-a-documented-exception')
                                continue
                            ctx.count('blank_entry_decisions')
                            allowed = o == ('decision', True)
                            if allowed == as_deny:
                                continue
                            if allowed == as_allow:
                                # the decision is the one the rule has when the blank conjunct allows (or is left out)
                                ctx.violation('unevaluable-check-allows', case,
                                              dict(detail, observed=list(o), expected='allow' if as_deny else 'deny',
                                                   why='a blank entry of an inner list cannot be understood as a check: it denies, it is not dropped'))
                                return
                            ctx.unconstrained('blank-entry-rule-decides-otherwise')
    finally:
        if tree is not None:
            tree.cleanup()


def check_case(ctx, real, case):
    policy, enf = real
    if case['kind'] == 'PK':
        return check_placeholder_keys(ctx, real, case)
    if case['kind'] == 'LE':
        return check_blank_entries(ctx, real, case)
    if case['kind'] == 'M':
        return check_containers(ctx, real, case)
    if case['kind'] == 'T':
        return check_same_target_object(ctx, real, case)
    if case['kind'] == 'D':
        return check_deleted_reference(ctx, real, case)
    if case['kind'] == 'F':
        return check_file_override_of_registered(ctx, real, case)
    if case['kind'] == 'O':
        return check_object_case(ctx, real, case)
    if case['kind'] == 'FI':
        return check_inner_list_elements(ctx, real, case)
    if case['kind'] == 'FK':
        return check_nontext_names(ctx, real, case)
    ctx.case([case['rules'], case['target'], case['creds']], nontrivial=True, stratum=case['kind'])
    ctx.count('hostile_leaves', case.get('hostile', 1))
    try:
        enf.set_rules(policy.Rules.from_dict(case['rules']))
    except Exception as e:
        ctx.violation('load-raises', case, {'rules': case['rules'], 'observed': type(e).__name__ + ': ' + str(e)[:100]})
        return
    for name in case['rules']:
        for do_raise in ((False, True) if case['do_raise'] else (False,)):
            try:
                got = enf.enforce(name, copy.deepcopy(case['target']), copy.deepcopy(case['creds']), do_raise=do_raise)
                exc = None
            except Exception as e:
                got, exc = None, e
            ctx.count('enforce_calls')
            if exc is not None and type(exc).__name__ not in DOCUMENTED:
                lhs_kinds = type(exc).__name__
                if lhs_kinds in ('SyntaxError', 'ValueError', 'MemoryError', 'RecursionError'):
                    key = 'literal-attempt-raises'
                elif lhs_kinds == 'TypeError':
                    key = 'literal-attempt-raises' if 'unhashable' in str(exc) else 'path-walk-raises'
                else:
                    key = 'undocumented-exception-' + lhs_kinds
                ctx.violation(key, case, {'rules': case['rules'], 'enforced': name, 'target': case['target'],
                                          'creds': case['creds'], 'do_raise': do_raise,
                                          'observed': '%s: %s' % (type(exc).__name__, str(exc)[:120])})
                return
            ctx.observe('outcomes', type(exc).__name__ if exc else ('allow' if got else 'deny'))
            if case['kind'] == 'L':
                ctx.count('unevaluable_leaf_rules')
                if exc is None and got:
                    ctx.violation('unevaluable-check-allows', case, {'rules': case['rules'], 'creds': case['creds'],
                                                                    'target': case['target'], 'observed': repr(got)})
                    return
            if case['kind'] == 'E':
                # the left side has an empty path segment, is not a Python literal, and no mapping in the credentials has
                # the key '': the path cannot be resolved, the leaf denies (and the rule decides accordingly)
                if has_empty_key(case['creds']) or is_python_literal(case['lhs']):
                    ctx.unconstrained('empty-segment-case-outside-certainty')
                    continue
                ctx.count('empty_segment_path_decisions')
                allowed = exc is None and bool(got)
                if allowed != bool(case['expect'][name]):
                    ctx.violation('unevaluable-check-allows', case,
                                  {'rules': case['rules'], 'enforced': name, 'left_side': case['lhs'], 'creds': case['creds'],
                                   'target': case['target'], 'do_raise': do_raise, 'expected': 'allow' if case['expect'][name] else 'deny',
                                   'observed': type(exc).__name__ if exc else repr(got),
                                   'why': 'a path with an empty segment cannot be resolved in credentials without an empty-string key'})
                    return


# stratum O: the rule is handed to enforce() as a parsed check OBJECT
OBJECT_CASES = {'quick': 320, 'thorough': 12000}
O_ROUTES = ['ruledefault', 'from_dict', 'store', 'registered']
O_CUSTOM_KINDS = ['pv14eq', 'pv14dc', 'pv14frozen', 'pv14slots']
O_UNHASHABLE_KINDS = ('pv14eq', 'pv14dc')
O_CALLER_EXC = 'PvCallerDenied'
_CUSTOM_READY = []


class PvCallerDenied(Exception):
    """The caller's own exception class (enforce(..., do_raise=True, exc=PvCallerDenied))."""


def ensure_custom_kinds():
    """User-defined check classes, registered through the public policy.register: legal Python objects that are
    unhashable (an __eq__ without a __hash__: hand-written, and what @dataclass generates), frozen, or slotted.  They
    decide like a role check without substitution and never raise by themselves."""
    if _CUSTOM_READY:
        return
    import dataclasses
    from oslo_policy import policy

    def decide(check, creds):
        roles = creds.get('roles') or []
        return check.match in roles

    class EqWithoutHash(policy.Check):
        def __eq__(self, other):
            if type(other) is not type(self):
                return NotImplemented
            return (self.kind, self.match) == (other.kind, other.match)

        def __call__(self, target, creds, enforcer, current_rule=None):
            return decide(self, creds)

    @dataclasses.dataclass
    class DataCheck(policy.Check):
        kind: str
        match: str

        def __call__(self, target, creds, enforcer, current_rule=None):
            return decide(self, creds)

    class Frozen(policy.Check):
        def __init__(self, kind, match):
            object.__setattr__(self, 'kind', kind)
            object.__setattr__(self, 'match', match)

        def __setattr__(self, name, value):
            raise AttributeError('this check object is frozen: cannot set %r' % name)

        def __delattr__(self, name):
            raise AttributeError('this check object is frozen: cannot delete %r' % name)

        def __call__(self, target, creds, enforcer, current_rule=None):
            return decide(self, creds)

    class Slotted(policy.Check):
        __slots__ = ('kind', 'match')

        def __call__(self, target, creds, enforcer, current_rule=None):
            return decide(self, creds)

    for kind, cls in zip(O_CUSTOM_KINDS, (EqWithoutHash, DataCheck, Frozen, Slotted)):
        env.register_kind(kind, cls)
    _CUSTOM_READY.append(True)


def gen_hostile_leaf(rnd, pool=None):
    for _try in range(6):
        lhs, rhs = (rnd.choice(pool) if pool else gen_lhs(rnd)), rnd.choice(RHS)
        if survives_tokenizer(lhs, rhs):
            return '%s:%s' % (lhs, rhs)
    return 'class:x'


def gen_object_leaf(rnd, lower):
    q = rnd.random()
    if q < 0.15:
        return 'role:' + rnd.choice(['r', 'admin', '%(t)s', '%(roles)s', 'x%(t2)s', 'é', 'Ünï', 'R'])
    if q < 0.3:
        return 'rule:' + rnd.choice(lower + ['ghost'])
    if q < 0.45:
        return '%s:%s' % (rnd.choice(O_CUSTOM_KINDS), rnd.choice(['r', 'admin', 'zz', 'Ünï']))
    if q < 0.5:
        return rnd.choice(['@', '!'])
    return gen_hostile_leaf(rnd)


def gen_object_case(rnd):
    """A hostile rule set plus rules whose ROOT is of every class; each rule will be parsed through the public API and the
    check object enforced, next to the same rule enforced by name."""
    while True:
        base = gen_case(rnd)
        if base['kind'] in ('R', 'L', 'N', 'E'):
            break
    rules = dict(base['rules'])
    lower = sorted(rules)
    extra = collections.OrderedDict()
    extra['o.role'] = 'role:' + rnd.choice(['r', 'admin', '%(t)s', '%(roles)s', 'x%(t2)s', 'é', 'Ünï', 'R', 'zz'])
    extra['o.gen'] = gen_hostile_leaf(rnd)
    extra['o.unev'] = gen_hostile_leaf(rnd, UNEVALUABLE)
    extra['o.ref'] = 'rule:' + rnd.choice(lower + ['ghost', 'o.role', 'o.gen', 'o.unev'])
    extra['o.custom'] = '%s:%s' % (rnd.choice(O_CUSTOM_KINDS), rnd.choice(['r', 'admin', 'zz']))
    extra['o.unhashable'] = '%s:%s' % (rnd.choice(O_UNHASHABLE_KINDS), rnd.choice(['r', 'admin', 'zz']))
    lower = lower + list(extra)
    extra['o.paren'] = '(%s)' % gen_object_leaf(rnd, lower)
    extra['o.not'] = 'not ' + gen_object_leaf(rnd, lower)
    extra['o.and'] = ' and '.join(gen_object_leaf(rnd, lower) for _ in range(rnd.randint(2, 3)))
    extra['o.or'] = ' or '.join(gen_object_leaf(rnd, lower) for _ in range(rnd.randint(2, 3)))
    extra['o.true'] = '@'
    extra['o.false'] = '!'
    leaves = [gen_object_leaf(rnd, lower) for _ in range(rnd.randint(2, 4))]
    extra['o.mix'] = expr.spell(expr.to_tokens(expr.random_ast(rnd, rnd.randint(1, 2), len(leaves), p_const=0.0),
                                               lambda j: leaves[j]))
    # the list-of-lists spelling: its leaves are single checks (no `not`, no parentheses)
    extra['o.list-leaf'] = rnd.choice([[[gen_object_leaf(rnd, lower)]], [gen_object_leaf(rnd, lower)]])
    extra['o.list-and'] = [[gen_object_leaf(rnd, lower) for _ in range(rnd.randint(2, 3))]]
    extra['o.list-or'] = [[gen_object_leaf(rnd, lower)], [gen_object_leaf(rnd, lower) for _ in range(rnd.randint(1, 2))]]
    extra['o.list-empty'] = rnd.choice([[], [[]]])
    rules.update(extra)
    creds, target = base['creds'], base['target']
    if rnd.random() < 0.4:
        for k in ('system_scope', 'system', 'domain_id', 'project_id'):
            if rnd.random() < 0.5:
                creds[k] = rnd.choice(SCOPE_VALUES)
    text_names = [n for n in sorted(rules) if isinstance(rules[n], str)]
    registered = [n for n in text_names if rnd.random() < 0.5]
    registry_only = {'reg.only.0': gen_object_leaf(rnd, lower),
                     'reg.only.1': rnd.choice(['not ', '']) + gen_object_leaf(rnd, lower) + rnd.choice([' or ', ' and ']) + gen_object_leaf(rnd, lower)}
    plain = rnd.random() < 0.6
    return dict(kind='O', rules=rules, base_names=sorted(base['rules'])[:3], registered=registered, registry_only=registry_only,
                printed_names=rnd.random() < 0.5, routes=rnd.sample(O_ROUTES, 2), target=target, creds=creds,
                creds_container='dict' if plain else rnd.choice(CREDS_CONTAINERS),
                target_container='dict' if plain else rnd.choice(TARGET_CONTAINERS),
                enforce_scope=rnd.random() < 0.5, debug=rnd.random() < 0.1, caller_exc=rnd.random() < 0.3,
                use_conf=rnd.random() < 0.5)


def surface_key(exc_name, message):
    """Mechanism key of an undocumented exception, as the by-name strata classify it."""
    if exc_name in ('SyntaxError', 'ValueError', 'MemoryError', 'RecursionError'):
        return 'literal-attempt-raises'
    if exc_name == 'TypeError':
        return 'literal-attempt-raises' if 'unhashable' in message else 'path-walk-raises'
    return 'undocumented-exception-' + exc_name


def root_class_of(obj, policy):
    """The class of a check tree's root, told from the outside: printed form and public base class."""
    text = str(obj)
    if text in ('@', '!'):
        return 'constant'
    if isinstance(obj, policy.Check):
        return 'leaf'
    if text.startswith('not '):
        return 'not'
    if text.startswith('('):
        return 'and/or'
    return 'other'


def obtain_check_object(policy, enf, case, name, value, route):
    """A check object for the rule `name`, through the public API.  -> (route really taken, object)"""
    if route == 'registered' and name in case['registered'] + sorted(case['registry_only']) + sorted(M_SCOPES):
        return route, enf.registered_rules[name].check
    if route == 'store' and name in enf.rules:
        return route, enf.rules[name]
    if route == 'ruledefault' and isinstance(value, str):
        return route, policy.RuleDefault('pv.o', value).check
    return 'from_dict', policy.Rules.from_dict({name: value})[name]


def check_object_case(ctx, real, case):
    """enforce() is documented to take "a string or BaseCheck": every rule of the set is enforced as a parsed check object
    (root of every class) on an enforcer with registered defaults, next to the same rule enforced by name."""
    import contextlib
    policy, _ = real
    ensure_custom_kinds()
    # use_conf: the enforcer reads configuration (there is no policy file) and merges the registered defaults into its store
    use_conf = bool(case.get('use_conf'))
    enf = policy.Enforcer(env.fresh_conf(enforce_scope=bool(case['enforce_scope'])), use_conf=use_conf)
    rules = dict(case['rules'])
    rules.update(M_RULES)
    all_rules = dict(rules)
    all_rules.update(case['registry_only'])
    ctx.case(['check-object', case['rules'], case['target'], case['creds'], case['registered'], case['routes'],
              case['creds_container'], case['target_container'], case['enforce_scope']], nontrivial=True, stratum='O')
    try:
        enf.set_rules(policy.Rules.from_dict(rules), use_conf=use_conf)
    except Exception as e:
        ctx.violation('load-raises', case, {'rules': rules, 'observed': type(e).__name__ + ': ' + str(e)[:100]})
        return
    try:
        for name in sorted(M_SCOPES):
            enf.register_default(policy.RuleDefault(name, M_RULES[name], scope_types=M_SCOPES[name]))
        for name in case['registered']:
            enf.register_default(policy.RuleDefault(name, case['rules'][name]))
        for name in sorted(case['registry_only']):
            enf.register_default(policy.RuleDefault(name, case['registry_only'][name]))
        if case['printed_names']:
            # defaults NAMED like the printed form of a root (one of them scoped): a registry lookup that is handed the
            # check object - or its text - must not take them for the operation's own registration
            for i, name in enumerate(sorted(case['rules'])):
                printed = str(policy.Rules.from_dict({name: case['rules'][name]})[name])
                if printed and printed not in enf.registered_rules and printed not in all_rules:
                    enf.register_default(policy.RuleDefault(printed, '!', scope_types=['system'] if i % 2 else None))
        enf.load_rules()
    except Exception as e:
        # building the registry is not enforcement: outside the statement
        ctx.unconstrained('check-object-registry-not-built-' + type(e).__name__)
        return
    make_creds, make_target = CONTAINERS[case['creds_container']], CONTAINERS[case['target_container']]
    caller = {'exc': PvCallerDenied} if case['caller_exc'] else {}
    documented = DOCUMENTED + ((O_CALLER_EXC,) if case['caller_exc'] else ())

    def attempt(rule, do_raise, method='enforce'):
        creds = make_creds(copy.deepcopy(case['creds']))
        target = make_target(copy.deepcopy(case['target']))
        try:
            got = getattr(enf, method)(rule, target, creds, do_raise=do_raise, **caller)
            return ('decision', bool(got))
        except Exception as e:
            return ('raised', type(e).__name__, str(e)[:160])

    def describe(name, **more):
        d = {'rules': rules, 'registered_defaults': sorted(enf.registered_rules), 'enforced': name, 'rule': all_rules.get(name),
             'creds': case['creds'], 'creds_container': case['creds_container'], 'target': case['target'],
             'target_container': case['target_container'], 'enforce_scope': case['enforce_scope']}
        d.update(more)
        return d

    names = case['base_names'] + [n for n in sorted(case['rules']) if n.startswith('o.')] + sorted(case['registry_only']) + sorted(M_SCOPES)[:1]
    with (env.debug_logging() if case.get('debug') else contextlib.nullcontext()):
        for name in names:
            value = all_rules[name]
            by_name = {}
            for do_raise in (False, True):
                by_name[do_raise] = o = attempt(name, do_raise)
                ctx.count('check_object_by_name_calls')
                if o[0] == 'raised' and o[1] not in documented:
                    ctx.violation(surface_key(o[1], o[2]), case, describe(name, passed_as='name', do_raise=do_raise,
                                                                          observed='%s: %s' % o[1:]))
                    return
            for route in case['routes']:
                try:
                    route, obj = obtain_check_object(policy, enf, case, name, value, route)
                except Exception as e:
                    if route == 'from_dict' or not isinstance(value, str):
                        ctx.violation('load-raises', case, describe(name, route=route, observed=type(e).__name__ + ': ' + str(e)[:100]))
                        return
                    ctx.unconstrained('check-object-not-obtained-' + type(e).__name__)
                    continue
                root = root_class_of(obj, policy)
                kind = value.split(':', 1)[0] if isinstance(value, str) else None
                for do_raise in (False, True):
                    o = attempt(obj, do_raise)
                    ctx.count('check_object_enforce_calls')
                    ctx.count('check_object_enforce_calls.root-' + root)
                    ctx.count('check_object_enforce_calls.' + route)
                    if root == 'leaf':
                        ctx.count('check_object_leaf_root_calls')
                        if type(obj).__hash__ is None:
                            ctx.count('check_object_unhashable_root_calls')
                    ctx.observe('check_object_outcomes', '%s: %s' % (root, o[1] if o[0] == 'raised' else 'decision'))
                    if o[0] == 'raised' and o[1] not in documented:
                        ctx.violation('check-object-enforce-raises-' + o[1], case,
                                      describe(name, passed_as='check object', route=route, root_class=type(obj).__name__,
                                               do_raise=do_raise, observed='%s: %s' % o[1:], same_rule_by_name=list(by_name[do_raise])))
                        return
                    allowed = o == ('decision', True)
                    if (root == 'leaf' and kind in UNEVALUABLE and name in ('o.unev', 'o.gen') and case['creds_container'] == 'dict'
                            and not is_python_literal(kind)):
                        # a single check whose left side certainly cannot be evaluated denies, however it is handed over
                        ctx.count('check_object_unevaluable_roots')
                        if allowed:
                            ctx.violation('unevaluable-check-allows', case, describe(name, passed_as='check object', route=route,
                                                                                    do_raise=do_raise, observed=list(o)))
                            return
                    if name in M_SCOPES:
                        # a name registered with scope_types is scope-checked by name; the object carries no name
                        ctx.unconstrained('check-object-of-a-scoped-registration')
                        continue
                    if name in case['registry_only'] and name not in enf.rules:
                        # an enforcer that does not read configuration keeps registered defaults out of its rule store:
                        # the name then stands for no rule at all
                        ctx.unconstrained('check-object-of-a-default-that-is-not-in-the-store')
                        continue
                    n = by_name[do_raise]
                    # compare what the caller gets: a decision, or (do_raise) the denial as the documented exception
                    denial = ('PolicyNotAuthorized', O_CALLER_EXC)
                    if all(x[0] == 'decision' or x[1] in denial for x in (o, n)):
                        ctx.count('check_object_vs_name_comparisons')
                        if allowed != (n == ('decision', True)):
                            ctx.violation('check-object-decides-differently-from-its-name', case,
                                          describe(name, route=route, root_class=type(obj).__name__, do_raise=do_raise,
                                                   as_check_object=list(o), by_name=list(n)))
                            return
                    else:
                        ctx.unconstrained('check-object-or-name-raised-a-documented-exception')
        # authorize() needs a NAME: registered names and one that is not registered
        for name in (case['registered'][:2] + sorted(case['registry_only'])[:1] + sorted(M_SCOPES)[:1] + ['o.not-registered']):
            for do_raise in (False, True):
                o = attempt(name, do_raise, 'authorize')
                ctx.count('authorize_calls_by_name')
                if o[0] == 'raised' and o[1] not in documented:
                    ctx.violation(surface_key(o[1], o[2]), case, describe(name, passed_as='name', method='authorize',
                                                                          do_raise=do_raise, observed='%s: %s' % o[1:]))
                    return


OVERLAPS = {'quick': 10, 'thorough': 200}


def check_overlap(ctx, real, case):
    """Two requests with hostile rules, targets and credentials are evaluated on one enforcer at the same time: neither may
    raise anything undocumented, and each is decided exactly as when it runs alone."""
    from pv.mon import overlap
    policy, enf = real
    rules = dict(('a.' + k, v) for k, v in case['a']['rules'].items())
    rules.update(('b.' + k, v) for k, v in case['b']['rules'].items())
    try:
        enf.set_rules(policy.Rules.from_dict(rules))
    except Exception as e:
        ctx.violation('load-raises', case, {'rules': rules, 'observed': type(e).__name__ + ': ' + str(e)[:100]})
        return
    calls = []
    for tag in 'ab':
        sub = case[tag]
        name = tag + '.' + sorted(sub['rules'])[0]
        calls.append((name, sub['target'], sub['creds'], {'do_raise': bool(sub['do_raise'])}))
    ctx.case(['overlap', rules, calls[0][1:3], calls[1][1:3]], True, 'overlap')
    detail = {'rules': rules, 'request_a': list(calls[0][:3]), 'request_b': list(calls[1][:3])}
    ok = overlap.enforce_pair(ctx, enf, calls[0], enf, calls[1], case, detail, ctx.sub_rnd('Ob', case['rseed']))
    if ok:
        for call in calls:
            o = overlap.outcome(lambda: enf.enforce(call[0], copy.deepcopy(call[1]), copy.deepcopy(call[2]), **call[3]))
            ctx.count('enforce_calls')
            if o[0] == 'raised' and o[1] not in DOCUMENTED:
                ctx.violation('undocumented-exception-' + o[1], case, dict(detail, observed=o))


def run(ctx):
    ctx.reserve(0.8)          # the strata that come last (overlapping operations) keep a fifth of the wall budget
    from oslo_policy import policy
    enf = policy.Enforcer(env.fresh_conf(), use_conf=False)
    # stratum O (rules handed over as check objects): small, first, with its own random stream - the stream of the
    # strata below stays what it was
    ctx.stratum('check-object', exhaustive=False)
    for i in range(OBJECT_CASES[ctx.tier] // ctx.nshards + 1):
        if (i & 0x1f) == 0 and ctx.expired():
            break
        case = gen_object_case(ctx.sub_rnd('Obj', ctx.tier, ctx.shard, ctx.nshards, i))
        check_object_case(ctx, (policy, enf), case)
        if i == 0:
            ctx.sample({'rules': case['rules'], 'target': case['target'], 'creds': case['creds'], 'registered': case['registered'],
                        'routes': case['routes']}, 'O')
    # strata PK / LE (placeholder keys that are not identifiers against flat targets; blank entries inside inner lists):
    # small, early, with their own streams
    ctx.stratum('placeholder-keys-and-blank-entries', exhaustive=False)
    for tag, total, gen in (('PK', PK_CASES, gen_placeholder_key_case), ('LE', LE_CASES, gen_blank_entry_case)):
        for i in range(total[ctx.tier] // ctx.nshards + 1):
            if (i & 0xf) == 0 and ctx.expired():
                break
            case = gen(ctx.sub_rnd(tag, ctx.tier, ctx.shard, ctx.nshards, i))
            check_case(ctx, (policy, enf), case)
            if i == 0:
                ctx.sample(case, tag)
    # strata FI / FK (odd shapes inside list rules of policy files; rule names that are not text), with their own streams
    ctx.stratum('file-shapes', exhaustive=False)
    for tag, total, gen in (('FI', INNER_CASES, gen_inner_list_case), ('FK', NAME_CASES, gen_nontext_name_case)):
        for i in range(total[ctx.tier] // ctx.nshards + 1):
            if (i & 0xf) == 0 and ctx.expired():
                break
            case = gen(ctx.sub_rnd(tag, ctx.tier, ctx.shard, ctx.nshards, i))
            check_case(ctx, (policy, enf), case)
            if i == 0:
                ctx.sample(case, tag)
    n = N[ctx.tier] // ctx.nshards + 1
    for i in range(n):
        if (i & 0xff) == 0 and ctx.expired():
            break
        case = gen_case(ctx.rnd)
        check_case(ctx, (policy, enf), case)
        if i % 5000 == 0:
            ctx.sample({'rules': case['rules'], 'target': case['target'], 'creds': case['creds']}, case['kind'])
    ctx.stratum('random', exhaustive=False)
    ctx.release()
    # two overlapping requests, last (the line-level scheduler slows everything that runs after it is installed)
    from pv.mon import sched
    ctx.stratum('overlap', exhaustive=False)
    try:
        for i in range(OVERLAPS[ctx.tier]):
            if ctx.expired():
                break
            r = ctx.sub_rnd('O', ctx.tier, ctx.shard, i)
            subs = []
            while len(subs) < 2:
                c = gen_case(r)
                if c['kind'] not in ('T', 'D', 'F', 'M'):
                    subs.append(c)
            check_overlap(ctx, (policy, enf), dict(kind='overlap', a=subs[0], b=subs[1], rseed='%s.%d.%d' % (ctx.tier, ctx.shard, i)))
    finally:
        sched.uninstall()


def replay(ctx, case):
    from oslo_policy import policy
    enf = policy.Enforcer(env.fresh_conf(), use_conf=False)
    if case.get('kind') == 'overlap':
        return check_overlap(ctx, (policy, enf), case)
    check_case(ctx, (policy, enf), case)
