"""C15 - printing a rule and parsing it back is the identity on meaning and on text.

Metamorphic monitors (two executions of the real code that must agree):
 * str(parse(t)) re-parses to something that prints the same and decides the same;
 * str(Rules) loads back (Rules.load) to an equivalent rule set;
 * a run-wide dictionary printed-text -> decision vector shows that equal printed forms decide identically;
 * RuleDefault.__eq__ true implies identical decisions;
 * print - evaluate - print histories: the printed form of a living rule / the dump of a living rule set is the one the
   text was taken from also after the rule (set) has been evaluated, so that "parse(print(r)) prints like r" holds at
   any moment of r's life and not only right after parsing."""
import json
import os

from unittest import mock

from pv.core import env
from pv.gen import expr

ID = 'C15'
LEVEL = 'exploration'
TECHNIQUE = ('metamorphic runtime monitor: parse -> print -> parse on the real parser/printers, decisions compared on a '
             'spread of credentials/targets; run-wide printed-form -> decision-vector dictionary (injectivity up to meaning); first use of the library by two threads at once, one fresh interpreter per schedule')
RULE = ('cases = T: expression-generator rules in text form over leaves of every built-in kind (role, rule:, generic '
        'literal and path, http/https with a stub transport, @, !) in several spellings; Ls: the same as list-of-lists '
        'values; S: rule sets of <= 6 rules with always-allow entries ("", "@", []) dumped with str(Rules) and re-loaded, then changed (update / item assignment / merge through an enforcer / deletion) and dumped and re-loaded again; '
        'Q: pairs of RuleDefault objects compared with ==; '
        'E (print - evaluate - print): after its first print the parsed rule (every Ls value; for the first text of a T case the .check of one of two '
        'RuleDefaults built from the same name and text) is evaluated in all 24 worlds, ordered on the truth of its leaves so that late leaves '
        'accept / early leaves reject first, alternating with the opposite, printing after every evaluation: the print must stay the first print, stay a '
        'fix-point of print-parse, and the rule parsed from the FIRST print must print and decide like the evaluated object; every rule of an S set is '
        'enforced in all worlds and the dump must be unchanged and still describe the living set; identical RuleDefaults must be and stay equal. Decisions are taken in 24 worlds (credentials x target) '
        'chosen so that every leaf kind varies. Non-trivial = the decision vector is not constant; distinct = distinct rule value. Stratum `print-overlap`: two threads print the same parsed rule and its rule set at the same time (second one at sampled line boundaries of the first, and both in flight). Stratum `first-use`: in a fresh interpreter per schedule, two threads parse, print and decide one rule each (http / https / role / attribute leaves) as the very first use of the library, the first pre-empted at a sampled line boundary (lazy set-up such as the scan for plugin check kinds happens inside these calls): both must print and decide as when run one after the other, and the printed text parsed again afterwards must print and decide the same. '
        'Stratum `eq-pairs`: pairs of RuleDefaults (one sometimes a DocumentedRuleDefault) over two rules that are close relatives - an and/or group and its proper prefix / suffix / permutation / version with a duplicated or a dropped operand / other operator / respelling, at depth 0-2 under and/or/not, in text and list-of-lists form, same and different names: == (both directions) true implies identical decisions, identical printed checks under the same name imply ==; == true for differently printed rules that decide alike, and == across names, are counted as unconstrained. '
        'Stratum `url-leaves`: http:/https: leaves whose URL carries user information (user, user:password, escapes, placeholders), a port, a query, a fragment, percent escapes and placeholders, alone and under and/or/not, in text and list form and inside a dumped and re-loaded rule set, in pairs of URLs differing in one part (the password in half of them), under a transport stub that records the requested URL and answers by a checksum of the whole URL: the rule parsed from the print / loaded from the dump must request the same URLs and decide the same, and two rules that print identically or are == as RuleDefaults must request the same URLs.')
ASSUMPTIONS = ['leaves contain no whitespace and, in list form, no leading ( or trailing ) - the tokenizer can never produce such a leaf from text',
               'a lone quoted string is not a rule of the language (C02 covers it)',
               'http(s) checks answer through a stub of requests.post whose answer depends on scheme and path: http://.../yes and https://.../sec -> True, anything else -> False']
LEVEL_TEXT = ('Seeded sampling of rules over all leaf kinds; each is printed and re-parsed by the real code and both trees '
              'are executed in 24 worlds. Nothing in the suite re-parses printed output; the language is infinite, so sampling '
              'with all leaf kinds and shapes is the level.')
LEVEL_NOTE = 'trusted: the world set distinguishes rules only up to those 24 evaluations; a stub of requests.post as transport'
PLAN = {'quick': dict(shards=4, wall=120), 'thorough': dict(shards=16, wall=400)}
MIN = {'overlapping_evaluations': 200, 'first_use_schedules': 16, 'first_use_schedules_inside_lazy_setup': 8, 'evaluations': 2000, 'reparsed_rules': 2000, 'rulesets_roundtripped': 100, 'eq_true_pairs': 50,
       'printed_forms_with_multiple_sources': 50, 'second_dumps': 50,
       'prints_after_evaluation': 10000, 'histories_with_or_alternatives': 150, 'dumps_after_enforcing': 100,
       'identical_ruledefaults_after_evaluation': 300,
       'eq_relation_pairs': 120, 'eq_relation_pairs_deciding_differently': 40, 'url_leaves_roundtripped': 150, 'url_leaves_requested': 100,
       'url_pairs_differing_in_userinfo': 30}
ANCHORS = ['oslo_policy._parser:parse_rule', 'oslo_policy.policy:Rules.__str__', 'oslo_policy.policy:Rules.load',
           'oslo_policy.policy:RuleDefault.__eq__', 'oslo_policy._checks:AndCheck.__str__', 'oslo_policy._checks:OrCheck.__str__',
           'oslo_policy._checks:NotCheck.__str__']
REQUIRED_ANCHORS = ['oslo_policy._parser:parse_rule']
N = {'quick': 4000, 'thorough': 400000}

LEAVES = ['role:a', 'role:b', 'role:compute:admin', 'rule:h1', 'rule:h2', 'rule:ghost', "'Member':%(role.name)s",
          'True:%(user.enabled)s', 'project_id:%(project_id)s', 'http://h/yes', 'https://h:8/no?q=1', 'http://h/%(n)s', 'https://h/sec', 'https://h/yes', 'http://h/sec', 'https://h/%(n)s',
          '@', '!', 'a.b.c:d', '1:1', '1:2', '"dq":%(x)s', 'x:y', 'user_id:%(user_id)s', 'None:%(nil)s', 'is_admin:True',
          'word', 'role:%(r)s', 'Role:a', 'ROLE:b', 'Rule:h1', 'RULE:ghost', 'Http://h/yes', 'Is_admin:True', 'True:true']
HELPERS = {'h1': 'role:a', 'h2': 'role:b and not role:c'}


def worlds():
    out = []
    rolesets = [[], ['a'], ['b'], ['a', 'b'], ['c'], ['compute:admin', 'b'], ['A', 'c'], ['a', 'b', 'c']]
    for i, roles in enumerate(rolesets):
        for j in range(3):
            creds = {'roles': roles, 'project_id': 'p%d' % (j % 2), 'user_id': 'u', 'is_admin': j == 2,
                     'a': {'b': {'c': 'd' if (i + j) % 2 else 'e'}}, 'x': 'y' if j else 'z'}
            target = {'role.name': 'Member' if (i + j) % 3 == 0 else 'Other', 'user.enabled': j == 1,
                      'project_id': 'p0', 'n': 'yes' if (i + j) % 2 else 'no', 'x': 'dq' if j == 2 else 'qd',
                      'user_id': 'u' if i % 2 else 'v', 'nil': None if j else 0, 'r': 'b' if j else 'zz'}
            out.append((creds, target))
    return out


WORLDS = worlds()


class Real:
    def __init__(self):
        from oslo_policy import policy, _parser
        self.policy = policy
        self._parser = _parser
        self.enf = policy.Enforcer(env.fresh_conf(), use_conf=False)
        self.helpers = {k: _parser.parse_rule(v) for k, v in HELPERS.items()}
        self.leafvec = {}

    def vector(self, check):
        """Decisions of a check tree in every world (the helpers h1/h2 are defined)."""
        rules = dict(self.helpers)
        rules['p'] = check
        self.enf.set_rules(self.policy.Rules(rules))
        out = []
        for creds, target in WORLDS:
            try:
                out.append('1' if self.enf.enforce('p', target, creds) else '0')
            except Exception as e:
                out.append('E(%s)' % type(e).__name__)
        return ''.join(out)

    def evaluate(self, check, order, printed=None):
        """Decisions of one living check object in the worlds taken in `order`; the object is printed after every
        evaluation.  Returns (decisions in canonical world order, [world index, print] of the first print that is
        not `printed`, or None)."""
        rules = dict(self.helpers)
        rules['p'] = check
        self.enf.set_rules(self.policy.Rules(rules))
        out = [None] * len(WORLDS)
        changed = None
        for w in order:
            creds, target = WORLDS[w]
            try:
                out[w] = '1' if self.enf.enforce('p', target, creds) else '0'
            except Exception as e:
                out[w] = 'E(%s)' % type(e).__name__
            if printed is not None and changed is None:
                now = str(check)
                if now != printed:
                    changed = [w, now]
        return ''.join(out), changed

    def leaf_vector(self, leaf):
        v = self.leafvec.get(leaf)
        if v is None:
            try:
                v = self.vector(self._parser.parse_rule(leaf))
            except Exception:
                v = ''
            if len(v) != len(WORLDS) or set(v) - set('01'):
                v = '0' * len(WORLDS)
            self.leafvec[leaf] = v
        return v

    def world_order(self, printed):
        """All worlds, in an order computed from the printed rule (so a replay takes the same one): the leaves are
        read off the printed text left to right; a world scores high when late leaves accept and early leaves reject
        (a later alternative of an or-node is the one that accepts), low when early leaves accept and late ones reject
        (a later operand of an and-node is the one that rejects).  The order alternates between the two ends.
        Returns (order, whether some world separates two leaves of the rule)."""
        leaves = []
        for tok in printed.split():
            tok = tok.lstrip('(').rstrip(')')
            if tok and tok.lower() not in ('and', 'or', 'not'):
                leaves.append(self.leaf_vector(tok))
        k = len(leaves)
        score = [sum((2 * i - (k - 1)) * (lv[w] == '1') for i, lv in enumerate(leaves)) for w in range(len(WORLDS))]
        ranked = sorted(range(len(WORLDS)), key=lambda w: (-score[w], w))
        order = []
        lo, hi = 0, len(ranked) - 1
        while lo <= hi:
            order.append(ranked[lo])
            lo += 1
            if lo <= hi:
                order.append(ranked[hi])
                hi -= 1
        return order, len(set(leaves)) > 1


CANONICAL = list(range(len(WORLDS)))
PRINTED = {}      # printed form -> (vector, first source)


def roundtrip(ctx, real, value, case, stratum, hist=False):
    P = real._parser
    try:
        c1 = P.parse_rule(value)
        s1 = str(c1)
        c2 = P.parse_rule(s1)
        s2 = str(c2)
    except Exception as e:
        ctx.violation('print-or-parse-raises', case, {'rule': value, 'observed': type(e).__name__ + ': ' + str(e)[:100]})
        return None
    ctx.count('reparsed_rules')
    if s1 != s2:
        ctx.violation('printed-form-not-a-fix-point', case, {'rule': value, 'printed': s1, 'reprinted': s2})
        return None
    v1 = real.vector(c1)
    v2 = real.vector(c2)
    ctx.case(json.dumps(value), nontrivial=len(set(v1)) > 1, stratum=stratum)
    if 'E' in v1 or 'E' in v2:
        ctx.count('vectors_with_exceptions')
    if v1 != v2:
        ctx.violation('reparsed-rule-decides-differently', case, {'rule': value, 'printed': s1, 'decisions': v1,
                                                                  'decisions_after_reparse': v2})
        return None
    # print - evaluate - print: both objects have been evaluated in every world by now
    ctx.count('prints_after_evaluation', 2)
    for what, obj in (('parsed', c1), ('parsed-from-print', c2)):
        now = str(obj)
        if now != s1:
            ctx.violation('printed-form-changes-by-evaluating', case,
                          {'rule': value, 'object': what, 'printed_before': s1, 'printed_after_evaluating_in_all_worlds': now})
            break
    if hist and history(ctx, real, value, case) is None:
        return None
    prev = PRINTED.get(s1)
    if prev is None:
        PRINTED[s1] = [v1, json.dumps(value), 1]
    else:
        if prev[1] != json.dumps(value):
            prev[2] += 1
            if prev[2] == 2:
                ctx.count('printed_forms_with_multiple_sources')
        if prev[0] != v1:
            ctx.violation('same-printed-form-different-decisions', case,
                          {'printed': s1, 'rule_a': prev[1], 'decisions_a': prev[0], 'rule_b': value, 'decisions_b': v1})
            return None
    return s1, v1


def history(ctx, real, value, case, living=None):
    """print - evaluate - print on ONE living object (a fresh parse of `value`, or `living`): the text taken from it
    before it was used must stay its print, and the rule parsed from that text must keep printing and deciding like it."""
    P = real._parser
    try:
        c = P.parse_rule(value) if living is None else living
        s = str(c)
        first = P.parse_rule(s)             # parsed from the FIRST print; not evaluated until the end
        order, separated = real.world_order(s)
        vE, changed = real.evaluate(c, order, printed=s)
        s3 = str(c)
        s4 = str(P.parse_rule(s3))
        sF = str(first)
        if ' or ' in s or ' and ' in s:
            vF, changedF = real.evaluate(first, CANONICAL, printed=sF)
        else:
            # no connective: the decisions of the rule parsed from the print were compared by the caller already
            vF, changedF = vE, None
    except Exception as e:
        ctx.violation('print-or-parse-raises', case, {'rule': value, 'stratum': 'E', 'observed': type(e).__name__ + ': ' + str(e)[:100]})
        return None
    ctx.count('histories')
    ctx.count('prints_after_evaluation', 2 * len(WORLDS))
    if separated and ' or ' in s:
        ctx.count('histories_with_or_alternatives')
    if separated and ' and ' in s:
        ctx.count('histories_with_and_operands')
    if changed is not None or s3 != s:
        w, now = changed if changed is not None else [None, s3]
        ctx.violation('printed-form-changes-by-evaluating', case,
                      {'rule': value, 'object': 'parsed', 'printed_before': s, 'printed_after': now,
                       'after_evaluating_in_world': None if w is None else {'index': w, 'creds': WORLDS[w][0], 'target': WORLDS[w][1]}})
        return None
    if s4 != s3:
        ctx.violation('printed-form-not-a-fix-point', case, {'rule': value, 'after': 'evaluation in all worlds', 'printed': s3, 'reprinted': s4})
        return None
    if sF != s3 or changedF is not None:
        ctx.violation('rule-from-first-print-prints-differently-from-the-evaluated-rule', case,
                      {'rule': value, 'first_print': s, 'evaluated_rule_prints': s3, 'rule_parsed_from_first_print_prints': sF,
                       'and_after_its_own_evaluation': changedF and changedF[1]})
        return None
    if vF != vE:
        ctx.violation('reparsed-rule-decides-differently', case,
                      {'rule': value, 'printed': s, 'decisions_of_the_evaluated_rule': vE, 'decisions_of_the_rule_parsed_from_its_first_print': vF})
        return None
    return s, vE


def gen_ast(rnd):
    k = rnd.randint(1, 5)
    leaves = [rnd.choice(LEAVES) for _ in range(k)]
    ast = expr.random_ast(rnd, rnd.randint(0, 4), k, p_const=0.0)
    return ast, leaves


def to_list_value(rnd, leaves):
    """A list-of-lists value over the same leaves."""
    outer = []
    for _ in range(rnd.randint(0, 3)):
        r = rnd.random()
        if r < 0.15:
            outer.append([])
        elif r < 0.35:
            outer.append(rnd.choice(leaves))
        else:
            outer.append([rnd.choice(leaves) for _ in range(rnd.randint(1, 3))])
    return outer


def check_case(ctx, real, case):
    kind = case['kind']
    if kind == 'Q':
        return check_eq_pair(ctx, real, case)
    if kind == 'U':
        return check_url_case(ctx, real, case)
    if kind == 'T':
        res = []
        for text in case['texts']:
            r = roundtrip(ctx, real, text, case, 'T')
            if r is None:
                return
            res.append(r)
        # RuleDefault equality implies identical decisions
        P = real.policy
        for i in range(1, len(case['texts'])):
            try:
                eq = P.RuleDefault('n', case['texts'][0]) == P.RuleDefault('n', case['texts'][i])
            except Exception as e:
                ctx.violation('ruledefault-eq-raises', case, {'observed': type(e).__name__})
                return
            ctx.count('eq_pairs')
            if eq:
                ctx.count('eq_true_pairs')
                if res[0][1] != res[i][1]:
                    ctx.violation('equal-ruledefaults-decide-differently', case,
                                  {'a': case['texts'][0], 'b': case['texts'][i], 'decisions_a': res[0][1], 'decisions_b': res[i][1]})
        if 'other' in case:
            r = roundtrip(ctx, real, case['other'], case, 'T')
            if r is not None:
                eq = P.RuleDefault('n', case['texts'][0]) == P.RuleDefault('n', case['other'])
                ctx.count('eq_pairs')
                if eq:
                    ctx.count('eq_true_pairs')
                    if r[1] != res[0][1]:
                        ctx.violation('equal-ruledefaults-decide-differently', case,
                                      {'a': case['texts'][0], 'b': case['other'], 'decisions_a': res[0][1], 'decisions_b': r[1]})
        # two RuleDefaults built from the same name and text are equal and stay equal while one of them is in use
        # (its .check evaluated in all worlds); a default in use is equal only to defaults that decide like it
        try:
            d1, d2 = P.RuleDefault('n', case['texts'][0]), P.RuleDefault('n', case['texts'][0])
            eq0 = (d1 == d2, d2 == d1)
        except Exception as e:
            ctx.violation('ruledefault-eq-raises', case, {'observed': type(e).__name__})
            return
        if eq0 != (True, True):
            ctx.violation('identical-ruledefaults-not-equal', case, {'text': case['texts'][0], 'evaluated': False,
                                                                     'a==b': eq0[0], 'b==a': eq0[1]})
            return
        h = history(ctx, real, case['texts'][0], case, living=d1.check)
        try:
            eq1 = (d1 == d2, d2 == d1)
            others = [(t, P.RuleDefault('n', t) == d1) for t in case['texts'][1:] + ([case['other']] if 'other' in case else [])]
        except Exception as e:
            ctx.violation('ruledefault-eq-raises', case, {'observed': type(e).__name__})
            return
        ctx.count('identical_ruledefaults_after_evaluation')
        if eq1 != (True, True):
            ctx.violation('identical-ruledefaults-not-equal', case,
                          {'text': case['texts'][0], 'evaluated': 'the .check of a, in all worlds', 'a==b': eq1[0], 'b==a': eq1[1],
                           'a.check': str(d1.check), 'b.check': str(d2.check)})
            return
        if h is None:
            return
        known = dict(zip(case['texts'], (r[1] for r in res)))
        for t, eq in others:
            ctx.count('eq_pairs')
            if eq:
                ctx.count('eq_true_pairs')
                v = known.get(t)
                if v is None:
                    v = real.vector(real._parser.parse_rule(t))
                if v != h[1]:
                    ctx.violation('equal-ruledefaults-decide-differently', case,
                                  {'a': case['texts'][0], 'a_evaluated': True, 'b': t, 'decisions_a': h[1], 'decisions_b': v})
                    return
    elif kind == 'Ls':
        roundtrip(ctx, real, case['value'], case, 'Ls', hist=True)
    elif kind == 'S':
        P = real.policy
        try:
            r1 = P.Rules.from_dict(case['rules'])
            dumped = str(r1)
            r2 = P.Rules.load(dumped)
            redumped = str(r2)
        except Exception as e:
            ctx.violation('ruleset-dump-or-load-raises', case, {'rules': case['rules'], 'observed': type(e).__name__ + ': ' + str(e)[:100]})
            return
        ctx.count('rulesets_roundtripped')
        ctx.case(case['rules'], nontrivial=True, stratum='S')
        if sorted(r1) != sorted(r2):
            ctx.violation('ruleset-roundtrip-loses-names', case, {'rules': case['rules'], 'dump': dumped, 'reloaded_names': sorted(r2)})
            return
        if dumped != redumped:
            ctx.violation('ruleset-dump-not-a-fix-point', case, {'rules': case['rules'], 'dump': dumped, 'redump': redumped})
            return
        for name in r1:
            v1, v2 = real.vector(r1[name]), real.vector(r2[name])
            if v1 != v2:
                ctx.violation('reloaded-ruleset-decides-differently', case,
                              {'rule': name, 'value': case['rules'][name], 'dump': dumped, 'decisions': v1, 'after_reload': v2})
                return
        # dump - enforce - dump: every rule of the living set is enforced in all worlds; the dump taken before must still
        # be the dump of the set, and loading it must give a set that dumps like the living one
        try:
            orders = {name: real.world_order(str(r1[name]))[0] for name in sorted(r1)}
            living = dict(real.helpers)
            living.update(r1)
            real.enf.set_rules(P.Rules(living))
            for name in sorted(r1):
                for w in orders[name]:
                    creds, target = WORLDS[w]
                    try:
                        real.enf.enforce(name, target, creds)
                    except Exception:
                        pass
            after = str(r1)
            from_first = str(P.Rules.load(dumped))
        except Exception as e:
            ctx.violation('ruleset-dump-or-load-raises', case, {'rules': case['rules'], 'after': 'enforcing every rule', 'observed': type(e).__name__ + ': ' + str(e)[:100]})
            return
        ctx.count('dumps_after_enforcing')
        if after != dumped:
            ctx.violation('ruleset-dump-changes-by-enforcing', case, {'rules': case['rules'], 'dump': dumped, 'dump_after_enforcing_every_rule': after})
            return
        if from_first != after:
            ctx.violation('ruleset-dump-not-a-fix-point', case, {'rules': case['rules'], 'after': 'enforcing every rule', 'dump': after, 'redump': from_first})
            return
        # the rule set changes after it was dumped once (merge via update / item assignment / deletion): a second dump
        # must describe the rule set as it is NOW
        if case.get('then'):
            how, extra = case['then']
            try:
                parsed = {k: real._parser.parse_rule(v) for k, v in extra.items()}
                if how == 'update':
                    r1.update(parsed)
                elif how == 'setitem':
                    for k, v in parsed.items():
                        r1[k] = v
                elif how == 'merge-via-enforcer':
                    real.enf.set_rules(r1)
                    str(real.enf.rules)
                    real.enf.set_rules(P.Rules.from_dict(extra), overwrite=False)
                    r1 = real.enf.rules
                elif how == 'delete':
                    for k in list(extra):
                        r1.pop(k, None)
                    parsed = {}
                r3 = P.Rules.load(str(r1))
            except Exception as e:
                ctx.violation('ruleset-dump-or-load-raises', case, {'then': case['then'], 'observed': type(e).__name__ + ': ' + str(e)[:100]})
                return
            ctx.count('second_dumps')
            if sorted(r3) != sorted(r1):
                ctx.violation('second-dump-is-stale', case, {'then': case['then'], 'names_now': sorted(r1), 'names_in_dump': sorted(r3)})
                return
            for name in r1:
                if real.vector(r1[name]) != real.vector(r3[name]):
                    ctx.violation('second-dump-is-stale', case, {'then': case['then'], 'rule': name, 'now': str(r1[name]), 'in_dump': str(r3[name])})
                    return


def gen_case(rnd):
    r = rnd.random()
    if r < 0.6:
        ast, leaves = gen_ast(rnd)
        lt = lambda i: leaves[i]
        texts = [t for _, t in expr.variants(ast, lt, rnd, rnd.randint(2, 4))]
        case = dict(kind='T', texts=texts)
        if rnd.random() < 0.5:
            ast2, leaves2 = gen_ast(rnd)
            case['other'] = expr.spell(expr.to_tokens(ast2, lambda i: leaves2[i]))
        return case
    if r < 0.8:
        leaves = [l for l in (rnd.choice(LEAVES) for _ in range(4))]
        return dict(kind='Ls', value=to_list_value(rnd, leaves))
    rules = {}
    for i in range(rnd.randint(1, 6)):
        q = rnd.random()
        if q < 0.2:
            rules['r%d' % i] = rnd.choice(['', '@', []])
        elif q < 0.4:
            rules['r%d' % i] = to_list_value(rnd, [rnd.choice(LEAVES) for _ in range(3)])
        else:
            ast, leaves = gen_ast(rnd)
            rules['r%d' % i] = expr.spell(expr.to_tokens(ast, lambda j: leaves[j]))
    case = dict(kind='S', rules=rules)
    if rnd.random() < 0.6:
        extra = {}
        for nm in rnd.sample(sorted(rules) + ['new1'], rnd.randint(1, 2)):
            ast, leaves = gen_ast(rnd)
            extra[nm] = expr.spell(expr.to_tokens(ast, lambda j: leaves[j]))
        case['then'] = [rnd.choice(['update', 'setitem', 'merge-via-enforcer', 'delete']), extra]
    return case


class _Reply:
    def __init__(self, text):
        self.text = text

    def close(self):
        pass


def fake_post(url, **kw):
    """Light transport stub (the wire level is C16's subject).  The answer depends on the path AND on the scheme, so that an
    https: check which turns into an http: check (or the other way round) changes a decision: http://.../yes and
    https://.../sec -> True, everything else -> False."""
    scheme, path = url.split('://', 1)[0].lower(), url.split('?')[0]
    return _Reply('True' if (scheme == 'http' and path.endswith('/yes')) or (scheme == 'https' and path.endswith('/sec')) else 'False')


# ---- stratum `eq-pairs`: RuleDefault == on pairs of rules that are close relatives of each other --------------------------
QLEAVES = ['role:a', 'role:b', 'role:c', 'role:a', 'role:b', 'role:c', 'role:compute:admin', 'rule:h1', 'rule:h2', 'is_admin:True',
           'project_id:%(project_id)s', 'user_id:%(user_id)s', "'Member':%(role.name)s", 'True:%(user.enabled)s', '@', '!',
           'http://h/yes', 'https://h/sec', 'x:y', 'a.b.c:d']
RELATIONS = ['prefix', 'prefix', 'suffix', 'permuted', 'duplicated', 'dropped-inside', 'other-operator', 'identical', 'names']
QPAIRS = {'quick': 160, 'thorough': 4000}


def q_operand(rnd, op, depth):
    r = rnd.random()
    if depth > 0 and r < 0.25:
        return q_group(rnd, 'or' if op == 'and' else 'and', depth - 1)
    if r < 0.4:
        return ['not', rnd.choice(QLEAVES)]
    return rnd.choice(QLEAVES)


def q_group(rnd, op, depth):
    return [op, [q_operand(rnd, op, depth) for _ in range(rnd.randint(2, 4))]]


def q_text(t, top=True):
    if isinstance(t, str):
        return t
    if t[0] == 'not':
        return 'not ' + q_text(t[1], False)
    s = (' %s ' % t[0]).join(q_text(x, False) for x in t[1])
    return s if top else '(' + s + ')'


def q_list(t):
    """The list-of-lists value of a tree that has one (an `or` of leaves / of `and`s of leaves), else None."""
    if isinstance(t, str):
        return [t]
    if t[0] == 'and' and all(isinstance(x, str) for x in t[1]):
        return [list(t[1])]
    if t[0] == 'or':
        out = []
        for x in t[1]:
            if isinstance(x, str):
                out.append(x)
            elif x[0] == 'and' and all(isinstance(y, str) for y in x[1]):
                out.append(list(x[1]))
            else:
                return None
        return out
    return None


def q_relative(rnd, g, rel):
    op, xs = g[0], list(g[1])
    m = len(xs)
    if rel == 'prefix':
        ys = xs[:rnd.randint(1, m - 1)]
    elif rel == 'suffix':
        ys = xs[rnd.randint(1, m - 1):]
    elif rel == 'permuted':
        ys = xs[1:] + xs[:1] if rnd.random() < 0.5 else xs[::-1]
    elif rel == 'duplicated':
        ys = list(xs)
        ys.insert(rnd.randint(0, m), rnd.choice(xs))
    elif rel == 'dropped-inside':
        ys = list(xs)
        del ys[rnd.randrange(m - 1)]
    elif rel == 'other-operator':
        return ['or' if op == 'and' else 'and', xs]
    else:
        return [op, xs]
    return ys[0] if len(ys) == 1 else [op, ys]


def q_embed(rnd, how, g, extra):
    """The same surroundings for both members of a pair: the group sits at depth 0, 1 or 2."""
    if how == 1:
        return ['not', g]
    if how == 2:
        return [extra[0], [extra[1], g]]
    if how == 3:
        return [extra[0], [g, extra[1]]]
    if how == 4:
        return [extra[0], [extra[1], ['not', [extra[2], [g, extra[3]]]]]]
    return g


def gen_eq_pair(rnd):
    rel = rnd.choice(RELATIONS)
    lists = rnd.random() < 0.3
    if lists:
        # a tree that has a list form: an or of ands of leaves
        g = ['or', [rnd.choice(QLEAVES) if rnd.random() < 0.3 else ['and', [rnd.choice(QLEAVES) for _ in range(rnd.randint(2, 4))]]
                    for _ in range(rnd.randint(2, 3))]]
        inner = [i for i, x in enumerate(g[1]) if not isinstance(x, str)]
        if inner and rnd.random() < 0.6:
            i = rnd.choice(inner)
            h = ['or', list(g[1])]
            h[1][i] = q_relative(rnd, g[1][i], rel)
        else:
            h = q_relative(rnd, g, rel)
        a, b = g, h
    else:
        g = q_group(rnd, rnd.choice(['and', 'or']), rnd.randint(0, 2))
        h = q_relative(rnd, g, rel)
        how = rnd.randint(0, 4)
        extra = [rnd.choice(['and', 'or']), rnd.choice(QLEAVES), rnd.choice(['and', 'or']), rnd.choice(QLEAVES)]
        a, b = q_embed(rnd, how, g, extra), q_embed(rnd, how, h, extra)
    va, vb = q_text(a), q_text(b)
    if lists:
        # text vs list form / list vs list
        f = rnd.randint(0, 2)
        la, lb = q_list(a), q_list(b)
        if f in (0, 1) and la is not None:
            va = la
        if f in (0, 2) and lb is not None:
            vb = lb
    elif rel == 'identical' and rnd.random() < 0.5:
        vb = '(' + vb + ')'
    names = ['n', 'n']
    if rel == 'names':
        names[1] = rnd.choice(['m', 'N', 'n:', 'nn'])
    return dict(kind='Q', a=va, b=vb, names=names, relation=rel, documented=rnd.random() < 0.15)


def check_eq_pair(ctx, real, case):
    """RuleDefault == relies on: equal printed forms <=> decide identically for built-in rules.  So == true implies identical
    decisions; defaults of the same name and class whose checks print identically are equal.  == true for rules that print
    differently but decide alike in all worlds, and == across different names, are left open."""
    P, parse = real.policy, real._parser.parse_rule
    a, b = case['a'], case['b']
    na, nb = case['names']
    try:
        ca, cb = parse(a), parse(b)
        pa, pb = str(ca), str(cb)
    except Exception as e:
        ctx.violation('print-or-parse-raises', case, {'observed': type(e).__name__ + ': ' + str(e)[:100]})
        return
    va, vb = real.vector(ca), real.vector(cb)
    try:
        da = P.RuleDefault(na, a)
        db = (P.DocumentedRuleDefault(nb, b, 'd', [{'path': '/', 'method': 'GET'}]) if case.get('documented') else P.RuleDefault(nb, b))
        eqs = (da == db, db == da)
    except Exception as e:
        ctx.violation('ruledefault-eq-raises', case, {'observed': type(e).__name__ + ': ' + str(e)[:100]})
        return
    ctx.count('eq_relation_pairs')
    ctx.case(['Q', a, b, na, nb], nontrivial=va != vb or pa == pb, stratum='eq-pairs')
    if va != vb:
        ctx.count('eq_relation_pairs_deciding_differently')
    if pa == pb and json.dumps(a) != json.dumps(b):
        ctx.count('eq_relation_pairs_printing_identically')
    detail = {'a': a, 'b': b, 'names': [na, nb], 'relation': case.get('relation'), 'a_prints': pa, 'b_prints': pb,
              'decisions_a': va, 'decisions_b': vb, 'a==b': eqs[0], 'b==a': eqs[1]}
    for eq in eqs:
        ctx.count('eq_pairs')
        if eq:
            ctx.count('eq_true_pairs')
            if va != vb:
                ctx.violation('equal-ruledefaults-decide-differently', case, detail)
                return
            if na != nb:
                ctx.unconstrained('ruledefaults-equal-across-names')
            elif pa != pb:
                ctx.unconstrained('ruledefaults-equal-although-printed-differently')
        elif na == nb and pa == pb:
            ctx.violation('ruledefaults-printing-identically-not-equal', case, detail)
            return


# ---- stratum `url-leaves`: http:/https: leaves whose URL has user information, a port, a query, a fragment, escapes, placeholders
U_USER = ['', '', 'svc@', 'svc:s3cret@', 'svc:other@', 'svc:@', ':pw@', 'a%%40b:p%%3Aw@', 'svc:%(user_id)s@', '%(x)s:%(n)s@',
          'svc:pa:ss@', 'SVC:S3cret@', 'svc:s3cret@', 'adm:Pw-1_2.3~@']
U_HOST = ['h', 'h.example', '127.0.0.1', '[::1]', '%(n)s.example', 'H']
U_PORT = ['', '', ':8', ':8080', ':%(x)s', ':0']
U_PATH = ['/yes', '/sec', '/no', '', '/', '/a/b/yes', '/%(n)s', '/p%%20q', '/%%7Euser/sec', '/a;b=c', '/yes/',
          '/%(project_id)s/%(user_id)s', '/%%2F', '/%%2f', '/%41']
U_QUERY = ['', '', '?q=1', '?a=1&b=%(n)s', '?next=//u:p@z/', '?pw=s3cret', '?e=%%3D%%26', '?']
U_FRAG = ['', '', '', '#f', '#u:p@h', '#%(n)s', '#']
U_PARTS = [('scheme', ['http', 'https']), ('user', U_USER), ('host', U_HOST), ('port', U_PORT), ('path', U_PATH),
           ('query', U_QUERY), ('frag', U_FRAG)]
U_WRAPS = 9
UWORLDS = [0, 1, 5, 10, 15, 20]
UCASES = {'quick': 110, 'thorough': 3000}
CALLS = []


def recording_post(url, **kw):
    """Transport stub of the url-leaves stratum: remembers the URL it is asked for; the answer depends on every character
    of it (a server may tell requests apart by any part of the URL, the password included)."""
    import zlib
    CALLS.append(url)
    return _Reply('True' if zlib.crc32(str(url).encode('utf-8', 'replace')) & 1 else 'False')


def url_text(p):
    return '%s://%s%s%s%s%s%s' % (p['scheme'], p['user'], p['host'], p['port'], p['path'], p['query'], p['frag'])


def gen_url_case(rnd):
    p = {k: rnd.choice(pool) for k, pool in U_PARTS}
    if rnd.random() < 0.5:
        p['user'] = rnd.choice([u for u in U_USER if ':' in u])
    q = dict(p)
    r = rnd.random()
    if r < 0.45:
        part = 'user'
    elif r < 0.9:
        part = rnd.choice([k for k, _ in U_PARTS])
    else:
        part = None                                    # the same URL twice
    if part:
        q[part] = rnd.choice([x for x in dict(U_PARTS)[part] if x != p[part]])
    return dict(kind='U', urls=[url_text(p), url_text(q)], differ_in=part, wrap=rnd.randrange(U_WRAPS))


def url_wrap(how, leaf):
    return [leaf, 'not ' + leaf, 'role:zz or ' + leaf, '(' + leaf + ' and @)', 'not (' + leaf + ' or !)',
            'role:zz or (@ and (not ' + leaf + '))', [[leaf]], [['@', leaf], ['!']], [leaf, 'role:zz']][how % U_WRAPS]


def url_vector(real, check, name='p', rules=None):
    """[decision, URLs requested] of a check in some worlds, under the recording transport."""
    if rules is None:
        rules = dict(real.helpers)
        rules[name] = check
        rules = real.policy.Rules(rules)
    real.enf.set_rules(rules)
    out = []
    for w in UWORLDS:
        creds, target = WORLDS[w]
        del CALLS[:]
        try:
            d = '1' if real.enf.enforce(name, target, creds) else '0'
        except Exception as e:
            d = 'E(%s)' % type(e).__name__
        out.append([d, list(CALLS)])
    return out


def url_differs(case, key_url, key_dec, v1, v2, ctx, detail):
    if v1 == v2:
        return False
    urls = [x[1] for x in v1] != [x[1] for x in v2]
    w = [i for i in range(len(v1)) if v1[i] != v2[i]][0]
    ctx.violation(key_url if urls else key_dec, case,
                  dict(detail, world={'creds': WORLDS[UWORLDS[w]][0], 'target': WORLDS[UWORLDS[w]][1]},
                       decision_and_requests=v1[w], decision_and_requests_other=v2[w]))
    return True


def check_url_case(ctx, real, case):
    P, parse = real.policy, real._parser.parse_rule
    with mock.patch('requests.post', recording_post):
        seen = []
        for u in case['urls'] if case['urls'][0] != case['urls'][1] else case['urls'][:1]:
            value = url_wrap(case['wrap'], u)
            try:
                c1 = parse(value)
                s1 = str(c1)
                c2 = parse(s1)
                s2 = str(c2)
            except Exception as e:
                ctx.violation('print-or-parse-raises', case, {'rule': value, 'observed': type(e).__name__ + ': ' + str(e)[:100]})
                return
            ctx.count('url_leaves_roundtripped')
            if s1 != s2:
                ctx.violation('printed-form-not-a-fix-point', case, {'rule': value, 'printed': s1, 'reprinted': s2})
                return
            v1, v2 = url_vector(real, c1), url_vector(real, c2)
            requested = sum(len(x[1]) for x in v1)
            if requested:
                ctx.count('url_leaves_requested')
            ctx.case(['U', value], nontrivial=requested > 0, stratum='url-leaves')
            if url_differs(case, 'reparsed-rule-requests-a-different-url', 'reparsed-rule-decides-differently', v1, v2, ctx,
                           {'rule': value, 'printed': s1}):
                return
            # the same rule inside a rule set: dump, load
            try:
                r1 = P.Rules.from_dict({'p': value, 'q': 'rule:p or role:zz', 'h1': HELPERS['h1'], 'h2': HELPERS['h2']})
                dumped = str(r1)
                r2 = P.Rules.load(dumped)
                redumped = str(r2)
            except Exception as e:
                ctx.violation('ruleset-dump-or-load-raises', case, {'rule': value, 'observed': type(e).__name__ + ': ' + str(e)[:100]})
                return
            if dumped != redumped:
                ctx.violation('ruleset-dump-not-a-fix-point', case, {'rule': value, 'dump': dumped, 'redump': redumped})
                return
            w1, w2 = url_vector(real, None, 'q', r1), url_vector(real, None, 'q', r2)
            if url_differs(case, 'reloaded-ruleset-requests-a-different-url', 'reloaded-ruleset-decides-differently', w1, w2, ctx,
                           {'rule': value, 'dump': dumped}):
                return
            seen.append((value, s1, v1))
        if len(seen) == 2:
            (xa, sa, va), (xb, sb, vb) = seen
            ctx.count('url_pairs')
            if case.get('differ_in') == 'user':
                ctx.count('url_pairs_differing_in_userinfo')
            detail = {'rule_a': xa, 'rule_b': xb, 'a_prints': sa, 'b_prints': sb}
            if sa == sb and url_differs(case, 'same-printed-form-different-requests', 'same-printed-form-different-decisions', va, vb, ctx, detail):
                return
            try:
                eqs = (P.RuleDefault('n', xa) == P.RuleDefault('n', xb), P.RuleDefault('n', xb) == P.RuleDefault('n', xa))
            except Exception as e:
                ctx.violation('ruledefault-eq-raises', case, {'observed': type(e).__name__})
                return
            for eq in eqs:
                ctx.count('eq_pairs')
                if eq:
                    ctx.count('eq_true_pairs')
                    if url_differs(case, 'equal-ruledefaults-request-different-urls', 'equal-ruledefaults-decide-differently', va, vb, ctx, detail):
                        return


def run_eq_pairs(ctx, real):
    ctx.stratum('eq-pairs', exhaustive=False)
    with mock.patch('requests.post', fake_post):
        for i in range(QPAIRS[ctx.tier] // (1 if ctx.tier == 'quick' else ctx.nshards) + 1):
            if (i & 0x1f) == 0 and ctx.expired():
                break
            case = gen_eq_pair(ctx.sub_rnd('Q', ctx.tier, ctx.shard, i))
            check_eq_pair(ctx, real, case)
            if i % 60 == 0:
                ctx.sample(case, 'eq-pairs')


def run_url_leaves(ctx, real):
    ctx.stratum('url-leaves', exhaustive=False)
    for i in range(UCASES[ctx.tier] // (1 if ctx.tier == 'quick' else ctx.nshards) + 1):
        if (i & 0x1f) == 0 and ctx.expired():
            break
        case = gen_url_case(ctx.sub_rnd('U', ctx.tier, ctx.shard, i))
        check_url_case(ctx, real, case)
        if i % 40 == 0:
            ctx.sample(case, 'url-leaves')


FIRST_USE = {'quick': 4, 'thorough': 40}        # sampled schedules per shard beside the systematic ones, each in a fresh interpreter


def judge_first_use(ctx, case, base, got):
    """Two threads used the library for the very first time in a process, at the same time (see pv/mon/firstuse.py)."""
    from pv.mon import firstuse
    pair = case['pair']
    detail = {'rules': list(firstuse.PAIRS[pair % len(firstuse.PAIRS)]) if isinstance(pair, int) else pair,
              'a_preempted_at_boundary': case['k'], 'b_runs_until': case['j'] or 'completion',
              'a_preempted_at': got['stopped_at'].get('A'), 'one_after_the_other': base['first'], 'at_the_same_time': got['first'],
              'printed_text_parsed_again_afterwards': got['again']}
    for n in 'AB':
        first, again = got['first'].get(n), got['again'].get(n)
        if first != base['first'].get(n):
            ctx.violation('first-use-race-changes-parsed-rule', case, detail)
            return
        if not isinstance(first, list) or not isinstance(again, list):
            ctx.violation('first-use-race-changes-parsed-rule', case, detail)
            return
        if again[0] != first[0]:
            ctx.violation('printed-form-not-a-fix-point', case, detail)
            return
        if again[1] != first[1]:
            ctx.violation('reparsed-rule-decides-differently', case, detail)
            return


OVERLAPS = {'quick': 8, 'thorough': 120}


def check_print_overlap(ctx, real, case):
    """Two threads print the SAME parsed rule (and the rule set holding it) at the same time: each gets the text a single
    thread gets, and that text still parses back to the same printed form."""
    from oslo_policy import policy
    from pv.mon import overlap
    rules = policy.Rules.from_dict(dict(case['rules']))
    name = sorted(case['rules'])[0]

    def mk():
        def make():
            def run_():
                try:
                    return [str(rules[name]), str(rules)]
                except Exception as e:
                    return 'EXC:' + type(e).__name__
            return run_
        return make
    alone = mk()()()
    ctx.case(['print-overlap', case['rules']], True, 'print-overlap')
    detail = {'rules': case['rules'], 'printed_by_one_thread': alone}
    if overlap.pair(ctx, mk(), mk(), case, detail, ctx.sub_rnd('Ob', case['rseed']), limit=80, key='printed-form-depends-on-a-concurrent-print'):
        if isinstance(alone, list):
            again = str(policy.Rules.from_dict({name: alone[0]})[name])
            if again != alone[0]:
                ctx.violation('printed-form-not-a-fix-point', case, dict(detail, reparsed_prints=again))


def run_print_overlap(ctx):
    from pv.mon import sched
    ctx.stratum('print-overlap', exhaustive=False)
    try:
        for i in range(OVERLAPS[ctx.tier]):
            if ctx.expired():
                break
            r = ctx.sub_rnd('PO', ctx.tier, ctx.shard, i)
            rules = {}
            for j in range(r.randint(1, 3)):
                ast = expr.random_ast(r, r.randint(1, 3), 4)
                rules['p%d' % j] = expr.spell(expr.to_tokens(ast, lambda k: ('role:a', 'role:b', 'rule:h1', "'Member':%(role.name)s")[k]))
            check_print_overlap(ctx, None, dict(print_overlap=True, rules=rules, rseed='%s.%d.%d' % (ctx.tier, ctx.shard, i)))
    finally:
        sched.uninstall()


def run_first_use(ctx):
    from pv.mon import firstuse
    npairs = len(firstuse.PAIRS)
    ctx.stratum('first-use', exhaustive=False)
    firstuse.schedules(ctx, ctx.shard % npairs, judge_first_use, FIRST_USE[ctx.tier], 24 if ctx.tier == 'quick' else 120,
                       parity=(ctx.shard // npairs + ctx.shard) % 2 if ctx.tier == 'quick' else None)


def run(ctx):
    real = Real()
    ctx.reserve(0.12)         # two small strata first, so that a cut wall budget does not lose them
    run_eq_pairs(ctx, real)
    ctx.release()
    ctx.reserve(0.2)
    run_url_leaves(ctx, real)
    ctx.release()
    ctx.reserve(0.7)          # the first-use stratum (fresh interpreters) keeps its share of the wall budget
    with mock.patch('requests.post', fake_post):
        n = N[ctx.tier] // ctx.nshards + 1
        for i in range(n):
            if (i & 0x3f) == 0 and ctx.expired():
                break
            case = gen_case(ctx.rnd)
            check_case(ctx, real, case)
            if i % 700 == 0:
                ctx.sample(case, case['kind'])
    ctx.count('distinct_printed_forms', len(PRINTED))
    ctx.stratum('random', exhaustive=False)
    ctx.release()
    ctx.reserve(0.85)
    run_print_overlap(ctx)
    ctx.release()
    run_first_use(ctx)


def replay(ctx, case):
    if case.get('first_use'):
        from pv.mon import firstuse
        return firstuse.replay_one(ctx, case, judge_first_use)
    if case.get('print_overlap'):
        from pv.mon import sched
        try:
            return check_print_overlap(ctx, None, case)
        finally:
            sched.uninstall()
    real = Real()
    with mock.patch('requests.post', fake_post):
        check_case(ctx, real, case)
